#!/bin/bash
# ./driver/sweep.sh <tier> <seed> [ids...] : runs the checks one after the other and prints one line per check
tier=${1:-quick}; seed=${2:-1}; shift; shift
ids=${@:-C01 C02 C03 C04 C05 C06 C07 C08 C09 C10 C11 C12 C13 C14 C15 C16 C17 C18 C19 C20}
cd "$(dirname "$0")/.."
for p in $ids; do
  s=$(date +%s)
  out=$(VERIF_SEED=$seed ./check $p --tier $tier 2>&1)
  rc=$?
  e=$(date +%s)
  echo "$p tier=$tier seed=$seed rc=$rc $((e-s))s :: $(echo "$out" | grep -E 'held|VIOLATION|INCONCLUSIVE|violation:' | head -3 | tr '\n' ' ' | cut -c1-300)"
done
