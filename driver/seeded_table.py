#!/usr/bin/env python3
"""Prints the markdown table of seeded changes for DESIGN.md.

  seeded_table.py <dir with mutant dirs> <suffix regex, e.g. 'p[12]$'> [baseline file]

The baseline file holds lines `<id> <prop>/quick=<verdict>` recorded before the checks were strengthened.
"""
import json
import os
import re
import sys


def main():
    root, pat = sys.argv[1], re.compile(sys.argv[2])
    base = {}
    if len(sys.argv) > 3:
        for line in open(sys.argv[3]):
            parts = line.split()
            if len(parts) >= 2:
                base[parts[0]] = "caught" if "CAUGHT" in line else ("missed" if "MISSED" in line else "inconclusive")
    print("| id | change (summary) | baseline | now | first signature |")
    print("|----|------------------|----------|-----|-----------------|")
    for name in sorted(os.listdir(root)):
        d = os.path.join(root, name)
        if not os.path.isdir(d) or not pat.search(name):
            continue
        m = json.load(open(os.path.join(d, "meta.json")))
        checks = m.get("checks", {})
        now, sig = "-", ""
        for k in sorted(checks):
            c = checks[k]
            if c.get("exit") == 1:
                now = "caught" + ("" if k.endswith("/quick") else " (%s)" % k.split("/")[1])
                sig = (c.get("signatures") or [""])[0]
                break
            now = {0: "missed", 2: "inconclusive"}.get(c.get("exit"), "?")
        if m.get("status") == "superseded":
            now = "superseded"
        summary = (m.get("summary") or "").replace("|", "/").replace("\n", " ")[:140]
        print("| %s | %s | %s | %s | %s |" % (name, summary, base.get(name, "-"), now, ("`%s`" % sig) if sig else ""))


if __name__ == "__main__":
    main()
