#!/usr/bin/env python3
"""Confirms a seeded change and runs the checks against it.

  eval_seeded.py <dir with patch.diff, meta.json, demo file> [--skip-confirm] [--tiers quick,thorough] [--props C01,C02]

1. confirmation in a scratch worktree of /repo (outside /repo and /verif): the patch applies, the whole pinned suite
   still passes with it, the demonstration fails with it and passes without it;
2. the patch is applied to /repo itself, the claimed property's check is run (quick, then thorough if quick missed),
   and /repo is restored straight afterwards (git checkout -- .).
Results are written into <dir>/meta.json under "confirmed" and "checks".
"""
import json
import os
import shutil
import subprocess
import sys
import time

REPO = "/repo"
WT = "/tmp/evalwt"
VERIF = os.path.dirname(os.path.dirname(os.path.abspath(__file__)))
ENV = dict(os.environ, CARGO_NET_OFFLINE="true")


def sh(cmd, cwd=None, timeout=3600):
    t0 = time.time()
    p = subprocess.run(cmd, cwd=cwd, shell=isinstance(cmd, str), stdout=subprocess.PIPE, stderr=subprocess.STDOUT, text=True, env=ENV,
                       timeout=timeout, errors="replace")
    return p.returncode, p.stdout, time.time() - t0


def ensure_wt():
    if not os.path.isdir(WT):
        rc, out, _ = sh(["git", "-C", REPO, "worktree", "add", "-q", "--detach", WT, "HEAD"])
        if rc != 0:
            raise SystemExit("cannot create worktree: " + out)
        shutil.copy(os.path.join(REPO, "Cargo.lock"), WT)
    else:
        sh(["git", "-C", WT, "checkout", "-q", "--detach", subprocess.run(["git", "-C", REPO, "rev-parse", "HEAD"], stdout=subprocess.PIPE, text=True).stdout.strip()])
        sh(["git", "-C", WT, "checkout", "--", "."])
        sh(["git", "-C", WT, "clean", "-fdq", "-e", "target", "-e", "Cargo.lock"])


def suite(cwd):
    rc, out, wall = sh("cargo test --workspace --no-fail-fast --offline 2>&1", cwd=cwd, timeout=3600)
    passed = failed = 0
    for line in out.splitlines():
        if line.startswith("test result:"):
            parts = line.split()
            passed += int(parts[3])
            failed += int(parts[5])
    return rc == 0 and failed == 0 and passed > 0, passed, failed, wall, out


def find_demo(d, meta):
    for name in os.listdir(d):
        if name.startswith("demo") and name.endswith(".rs"):
            return os.path.join(d, name)
    return None


def normalise_cmd(cmd):
    # agents sometimes prefix a `cp seeded/... &&` step (done here anyway) or append a parenthetical remark
    import re
    cmd = re.sub(r"^\s*cp\s+\S+\s+\S+\s*&&\s*", "", cmd)
    cmd = re.sub(r"^\s*cd\s+\S+\s*&&\s*", "", cmd)
    cmd = re.split(r"\s+\(", cmd)[0]
    cmd = cmd.split(";")[0]
    return cmd.strip()


def run_demo(d, meta):
    cmd = normalise_cmd(meta.get("demo_command"))
    demo = find_demo(d, meta)
    crate_dir = meta.get("demo_crate_dir")
    placed = None
    if demo and crate_dir:
        tests = os.path.join(WT, crate_dir, "tests")
        os.makedirs(tests, exist_ok=True)
        placed = os.path.join(tests, os.path.basename(demo))
        shutil.copy(demo, placed)
    rc, out, wall = sh(cmd + " 2>&1", cwd=WT, timeout=1800)
    return rc, out, placed


def confirm(d, meta, demo_only=False):
    ensure_wt()
    patch = os.path.join(d, "patch.diff")
    res = dict(meta.get("confirmed", {})) if demo_only else {}
    # demo without the patch
    rc0, out0, placed = run_demo(d, meta)
    res["demo_passes_without_patch"] = rc0 == 0
    rc, out, _ = sh(["git", "-C", WT, "apply", patch])
    res["patch_applies"] = rc == 0
    if rc != 0:
        res["apply_error"] = out[-500:]
        return res
    rc1, out1, _ = run_demo(d, meta)
    res["demo_fails_with_patch"] = rc1 != 0
    res["demo_output_tail_with_patch"] = out1[-600:]
    if placed and os.path.exists(placed):
        os.remove(placed)
        try:
            os.rmdir(os.path.dirname(placed))
        except OSError:
            pass
    if demo_only and res.get("suite_passes_with_patch"):
        sh(["git", "-C", WT, "checkout", "--", "."])
        res["demo_command_run"] = normalise_cmd(meta.get("demo_command"))
        return res
    ok, passed, failed, wall, out = suite(WT)
    res["demo_command_run"] = normalise_cmd(meta.get("demo_command"))
    res["suite_passes_with_patch"] = ok
    res["suite_passed"] = passed
    res["suite_failed"] = failed
    if not ok:
        res["suite_tail"] = "\n".join([l for l in out.splitlines() if "FAILED" in l or "panicked" in l or l.startswith("error")][:12])
    sh(["git", "-C", WT, "checkout", "--", "."])
    return res


def run_checks(d, meta, props, tiers):
    patch = os.path.join(d, "patch.diff")
    rc, out, _ = sh(["git", "-C", REPO, "status", "--porcelain", "--untracked-files=no"])
    if out.strip():
        raise SystemExit("/repo has uncommitted changes; refusing to apply a seeded patch")
    rc, out, _ = sh(["git", "-C", REPO, "apply", patch])
    if rc != 0:
        return {"error": "patch does not apply to /repo: " + out[-300:]}
    results = {}
    try:
        for pid in props:
            for tier in tiers:
                rc, out, wall = sh([os.path.join(VERIF, "check"), pid, "--tier", tier], cwd=VERIF, timeout=7200)
                sigs = [l.split("violation:", 1)[1].strip() for l in out.splitlines() if "violation:" in l]
                known = [l for l in out.splitlines() if l.startswith("KNOWN-FINDING")]
                verdict = {0: "held (MISSED)", 1: "violation reported (CAUGHT)", 2: "inconclusive"}.get(rc, "rc=%s" % rc)
                results["%s/%s" % (pid, tier)] = dict(exit=rc, verdict=verdict, wall_s=round(wall, 1), signatures=sigs[:8],
                                                      tail=(out[-700:] if rc not in (1,) else ""))
                if rc == 1:
                    break  # caught at this tier; no need to go deeper
    finally:
        sh(["git", "-C", REPO, "checkout", "--", "."])
    return results


def main():
    args = sys.argv[1:]
    d = os.path.abspath(args[0])
    skip = "--skip-confirm" in args
    confirm_only = "--confirm-only" in args
    global WT
    for i, a in enumerate(args):
        if a == "--wt":
            WT = args[i + 1]
    tiers = ["quick", "thorough"]
    props = None
    for i, a in enumerate(args):
        if a == "--tiers":
            tiers = args[i + 1].split(",")
        if a == "--props":
            props = args[i + 1].split(",")
    meta_path = os.path.join(d, "meta.json")
    meta = json.load(open(meta_path))
    if props is None:
        props = [meta["property"]]
    if not skip:
        meta["confirmed"] = confirm(d, meta, demo_only="--demo-only" in args)
        print(json.dumps(meta["confirmed"], indent=1)[:1500])
        json.dump(meta, open(meta_path, "w"), indent=1)
        c = meta["confirmed"]
        if not (c.get("patch_applies") and c.get("suite_passes_with_patch") and c.get("demo_fails_with_patch") and c.get("demo_passes_without_patch")):
            print("NOT CONFIRMED: %s" % d)
            return 3
    if confirm_only:
        print("CONFIRMED: %s" % d)
        return 0
    meta.setdefault("checks", {}).update(run_checks(d, meta, props, tiers))
    meta["what_was_run"] = "driver/eval_seeded.py: confirmation in a scratch worktree (suite + demo with/without patch), then " \
                           "`git -C /repo apply patch.diff; ./check <id> --tier quick[,thorough]; git -C /repo checkout -- .`"
    json.dump(meta, open(meta_path, "w"), indent=1)
    print(json.dumps(meta["checks"], indent=1)[:3000])
    return 0


if __name__ == "__main__":
    sys.exit(main())
