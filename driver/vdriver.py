"""Driver logic: build engines against /repo's working tree, run them under a watchdog, turn their
result files into evidence / replay files and the three-valued exit status."""
import json
import os
import shutil
import signal
import subprocess
import sys
import time

from props import PROPS, ORDER
from util import Ctx, cargo_build, engine_path, log, run_watchdog  # noqa: F401


def run_engine(ctx, run, tier, seed, extra_args=None, label=None):
    """Builds and runs one engine invocation. Returns a dict:
       {label, status: held|violated|inconclusive, why, result (engine json or None), wall_s, cmd}"""
    engine, profile = run["engine"], run.get("profile", "release")
    label = label or run.get("label") or ("%s/%s/%s" % (engine, profile, " ".join(run.get("args", []))))
    ok, out = cargo_build(ctx, [engine], profile)
    if not ok:
        return dict(label=label, status="inconclusive", why="harness build failed:\n" + out[-4000:], result=None,
                    wall_s=0.0, cmd="cargo build -p " + engine, run=run)
    os.makedirs(ctx.work, exist_ok=True)
    outfile = os.path.join(ctx.work, "res-%d-%s-%s.json" % (os.getpid(), engine, abs(hash(label)) % 10**8))
    if os.path.exists(outfile):
        os.remove(outfile)
    cmd = [engine_path(ctx, engine, profile), "--tier", tier, "--seed", str(seed), "--out", outfile]
    cmd += list(run.get("args", [])) + list(extra_args or [])
    timeout = run.get("timeout", {}).get(tier, 900 if tier == "quick" else 7200)
    rc, out, wall = run_watchdog(cmd, ctx.harness, ctx.env, timeout)
    res = None
    if os.path.exists(outfile):
        try:
            res = json.load(open(outfile))
        except Exception as e:  # truncated file: the process died while writing
            res = None
            out += "\n[driver] unreadable result file: %s" % e
        os.remove(outfile)
    r = dict(label=label, result=res, wall_s=wall, cmd=" ".join(cmd), run=run, output_tail=out[-3000:])
    if rc is None:
        r.update(status="inconclusive", why="watchdog: no result after %ds" % timeout)
    elif rc in (0, 1, 2) and res is not None:
        if res.get("violations_total", 0) > 0:
            r.update(status="violated", why="")
        elif res.get("inconclusive"):
            r.update(status="inconclusive", why="; ".join(res["inconclusive"]))
        else:
            r.update(status="held", why="")
    else:
        # died without a result: signal, abort, stack overflow, OOM
        r.update(status="crashed", why="engine exited rc=%s without a result; output tail:\n%s" % (rc, out[-2000:]),
                 rc=rc)
    return r


# ---------------------------------------------------------------------------------------------
# known findings

def load_known(ctx):
    known = {}
    path = os.path.join(ctx.here, "KNOWN_FINDINGS.txt")
    if not os.path.exists(path):
        return known
    for line in open(path):
        line = line.strip()
        if not line.startswith("known:"):
            continue
        # known: property=<id> signature=<exact signature> :: <what fails>
        body = line[len("known:"):].strip()
        if " :: " in body:
            head, what = body.split(" :: ", 1)
        else:
            head, what = body, ""
        parts = head.split(" ", 1)
        if len(parts) != 2 or not parts[0].startswith("property=") or not parts[1].startswith("signature="):
            continue
        pid = parts[0][len("property="):]
        sig = parts[1][len("signature="):].strip()
        known.setdefault(pid, {})[sig] = what
    return known


# ---------------------------------------------------------------------------------------------
# evidence

def combine(results, spec, tier, seed, wall, status, why_list, known_hits, new_violations):
    evaluations = 0
    groups = {}
    samples = []
    counters = {}
    distinct = {}
    maxima = {}
    extra = {}
    runs = []
    exhaustive = None
    for r in results:
        res = r.get("result") or {}
        c = res.get("counters", {})
        evaluations += int(c.get("evaluations", 0))
        g = r["run"].get("group", r["label"])
        d = int(res.get("distinct", {}).get("nontrivial", 0))
        groups[g] = max(groups.get(g, 0), d)
        for s in res.get("samples", [])[:4]:
            if len(samples) < 12:
                samples.append(s)
        counters[r["label"]] = c
        distinct[r["label"]] = res.get("distinct", {})
        if res.get("maxima"):
            maxima[r["label"]] = res.get("maxima")
        if res.get("extra"):
            extra[r["label"]] = res.get("extra")
            if "exhaustive" in res["extra"]:
                e = bool(res["extra"]["exhaustive"])
                exhaustive = e if exhaustive is None else (exhaustive and e)
        runs.append(dict(label=r["label"], status=r["status"], wall_s=round(r["wall_s"], 2), cmd=r.get("cmd", "")))
    cov = dict(
        evaluations=evaluations,
        distinct_nontrivial=sum(groups.values()),
        rule=spec["rule"],
        samples=samples if samples else ["<no sample recorded>"],
        counters=counters,
        distinct_sets=distinct,
        maxima=maxima,
        engine_extra=extra,
        runs=runs,
        verdict=status,
        exhaustive_subruns=bool(exhaustive) if exhaustive is not None else False,
    )
    if spec.get("exhaustive_all"):
        cov["exhaustive"] = bool(exhaustive)
    if why_list:
        cov["inconclusive_reasons"] = why_list[:10]
    if known_hits:
        cov["known_findings_seen"] = known_hits
    if new_violations:
        cov["violation_signatures"] = [v["signature"] for v in new_violations][:20]
    ev = dict(
        property_id=spec["id"],
        tier=tier,
        seed=seed,
        level=spec["level"],
        coverage=cov,
        assumptions=spec.get("assumptions", []),
        wall_s=round(wall, 2),
        violations=len(new_violations),
    )
    return ev


def write_evidence(ctx, pid, ev):
    os.makedirs(ctx.evidence, exist_ok=True)
    path = os.path.join(ctx.evidence, pid + ".json")
    tmp = path + ".tmp"
    with open(tmp, "w") as f:
        json.dump(ev, f, indent=1, sort_keys=False)
        f.write("\n")
    os.replace(tmp, path)
    return path


# ---------------------------------------------------------------------------------------------
# one property

def check_property(ctx, pid, tier, seed):
    spec = PROPS[pid]
    t0 = time.time()
    results = []
    if "custom" in spec:
        results = spec["custom"](ctx, spec, tier, seed, run_engine)
    else:
        for run in spec["runs"]:
            if tier not in run.get("tiers", ("quick", "thorough")):
                continue
            results.append(run_engine(ctx, run, tier, seed))
    known = load_known(ctx).get(pid, {})
    known_hits, new_violations, why = [], [], []
    for r in results:
        res = r.get("result") or {}
        for v in res.get("violations", []):
            if v["signature"] in known:
                hit = "%s %s" % (v["signature"], known[v["signature"]])
                if hit not in known_hits:
                    known_hits.append(hit)
            else:
                v = dict(v)
                v["label"] = r["label"]
                v["run"] = r["run"]
                new_violations.append(v)
        if r["status"] == "violated" and not res.get("violations"):
            new_violations.append(dict(signature="unspecified violation in " + r["label"], detail=r.get("why", ""),
                                       replay=[], label=r["label"], run=r["run"]))
        if r["status"] == "inconclusive":
            why.append("%s: %s" % (r["label"], r["why"]))
        if r["status"] == "crashed":
            if spec.get("crash_is_violation"):
                new_violations.append(dict(signature="process death in " + r["label"],
                                           detail=r["why"], replay=list(r["run"].get("args", [])), label=r["label"],
                                           run=r["run"]))
            else:
                why.append("%s: %s" % (r["label"], r["why"]))
    # floors: a run that observed too little is not green
    evaluations = sum(int((r.get("result") or {}).get("counters", {}).get("evaluations", 0)) for r in results)
    floor = spec.get("floor", {}).get(tier, 1)
    if not new_violations and evaluations < floor:
        why.append("only %d evaluations observed, floor for tier %s is %d" % (evaluations, tier, floor))
    for key, fl in spec.get("counter_floors", {}).get(tier, {}).items():
        got = 0
        for r in results:
            res = r.get("result") or {}
            got += int(res.get("counters", {}).get(key, 0)) + int(res.get("distinct", {}).get(key, 0))
        if not new_violations and got < fl:
            why.append("coverage key %s = %d below floor %d" % (key, got, fl))

    if new_violations:
        status = "violated"
    elif why:
        status = "inconclusive"
    else:
        status = "held"
    wall = time.time() - t0
    ev = combine(results, spec, tier, seed, wall, status, why, known_hits, new_violations)
    write_evidence(ctx, pid, ev)

    for h in known_hits:
        print("KNOWN-FINDING: property=%s %s" % (pid, h), flush=True)
    if status == "violated":
        os.makedirs(ctx.replays, exist_ok=True)
        for i, v in enumerate(new_violations[:10]):
            path = os.path.join(ctx.replays, "%s-%s-s%d-%d.json" % (pid, tier, seed, i))
            run = v.get("run", {})
            with open(path, "w") as f:
                json.dump(dict(property=pid, engine=run.get("engine"), profile=run.get("profile", "release"),
                               kind=run.get("kind", "engine"), base_args=run.get("args", []),
                               args=v.get("replay", []), tier=tier, seed=seed,
                               signature=v["signature"], detail=v.get("detail")), f, indent=1)
                f.write("\n")
            log("[%s] violation: %s" % (pid, v["signature"]))
            log("      detail: %s" % json.dumps(v.get("detail"))[:1500])
            print("VIOLATION property=%s replay=%s" % (pid, path), flush=True)
        return 1
    if status == "inconclusive":
        for w in why:
            log("[%s] INCONCLUSIVE: %s" % (pid, w))
        return 2
    log("[%s] held: %d evaluations, %d distinct non-trivial, %.1fs (%s, seed %d)" % (
        pid, ev["coverage"]["evaluations"], ev["coverage"]["distinct_nontrivial"], wall, tier, seed))
    return 0


def replay(ctx, pid, path):
    spec = PROPS[pid]
    rec = json.load(open(path))
    rec["_path"] = path
    if "replay" in spec:
        return spec["replay"](ctx, spec, rec, run_engine)
    if not rec.get("engine"):
        log("replay file has no engine")
        return 2
    run = dict(engine=rec["engine"], profile=rec.get("profile", "release"), args=rec.get("base_args", []))
    r = run_engine(ctx, run, rec.get("tier", "quick"), rec.get("seed", 1), extra_args=list(rec.get("args", [])) + ["--verbose"],
                   label="replay")
    sys.stderr.write(r.get("output_tail", "") + "\n")
    if r["status"] == "violated":
        for v in r["result"].get("violations", []):
            log("reproduced: %s" % v["signature"])
            log(json.dumps(v.get("detail"), indent=1)[:4000])
        print("VIOLATION property=%s replay=%s" % (pid, path), flush=True)
        return 1
    if r["status"] == "held":
        log("replay did not reproduce a violation (held)")
        return 0
    log("replay inconclusive: %s" % r.get("why"))
    return 2


def setup(ctx):
    engines = set()
    profiles = {}
    for pid in ORDER:
        spec = PROPS[pid]
        for run in spec.get("runs", []) + spec.get("setup_runs", []):
            if run.get("kind", "engine") != "engine":
                continue
            profiles.setdefault(run.get("profile", "release"), set()).add(run["engine"])
    rc = 0
    for profile, engs in sorted(profiles.items()):
        ok, out = cargo_build(ctx, sorted(engs), profile)
        if not ok:
            sys.stderr.write(out[-6000:])
            rc = 2
    for pid in ORDER:
        spec = PROPS[pid]
        if "setup" in spec:
            if spec["setup"](ctx, spec) != 0:
                rc = 2
    return rc


def main(here, argv):
    ctx = Ctx(here)
    tier = os.environ.get("VERIF_TIER", "quick")
    seed = int(os.environ.get("VERIF_SEED", "1"))
    pid = None
    replay_path = None
    do_setup = False
    do_all = False
    i = 0
    while i < len(argv):
        a = argv[i]
        if a == "--tier":
            tier = argv[i + 1]
            i += 2
        elif a == "--seed":
            seed = int(argv[i + 1])
            i += 2
        elif a == "--replay":
            replay_path = argv[i + 1]
            i += 2
        elif a == "--setup":
            do_setup = True
            i += 1
        elif a == "--all":
            do_all = True
            i += 1
        else:
            pid = a
            i += 1
    if tier not in ("quick", "thorough"):
        log("unknown tier " + tier)
        return 2
    if do_setup:
        return setup(ctx)
    if do_all:
        worst = 0
        for p in ORDER:
            rc = check_property(ctx, p, tier, seed)
            worst = max(worst, rc) if rc != 1 else 1
        return worst
    if pid not in PROPS:
        log("usage: ./check <id> [--tier quick|thorough] [--replay path] | --setup | --all; ids: " + " ".join(ORDER))
        return 2
    if replay_path:
        return replay(ctx, pid, replay_path)
    return check_property(ctx, pid, tier, seed)
