"""Per-property configuration of the driver: which engine invocations decide a property, evidence
level, floors (a run that observed less is inconclusive, not green)."""

ORDER = []
PROPS = {}


def prop(pid, **kw):
    kw["id"] = pid
    PROPS[pid] = kw
    ORDER.append(pid)


# ---------------------------------------------------------------------------------------------
prop(
    "C01",
    level="exploration",
    technique="reference-model runtime monitor: real Segtree in lock step with a shadow array, independent fold oracle, "
              "random + bounded-exhaustive histories over free and built-in item algebras",
    level_text="Exploration: millions of operation histories on the real segment tree, each ended by a complete probe of all "
               "ranges, judged by an independent left-to-right fold over a plain array. The free monoid with the full "
               "transformation monoid as modifiers makes any wrong order, lost push or double application observable; a "
               "bounded scope (n<=5, all op sequences to a stated length) is enumerated completely. Held-on-observed, not a proof.",
    level_note="Trusted: the harness item algebras (law-abiding by construction, identity self-checked), the shadow-array "
               "semantics and the fold oracle; rustc. Not covered: algebras outside the list, histories longer than 48 ops "
               "before the probe, sizes above 4097.",
    runs=[
        dict(engine="segmon", profile="release", args=["--judge", "fold", "--mode", "random"], group="random"),
        dict(engine="segmon", profile="release", args=["--judge", "fold", "--mode", "exhaustive"], group="exhaustive"),
        dict(engine="segmon", profile="dev", args=["--judge", "fold", "--mode", "random", "--cases-per-weight", "400"],
             group="random", label="segmon/dev/fold random (overflow checks on)"),
    ],
    floor=dict(quick=100_000, thorough=2_000_000),
    counter_floors=dict(quick=dict(asks_checked=10_000_000, op_modify=500_000, op_set=200_000, pending_lazy_patterns=100_000),
                        thorough=dict(asks_checked=200_000_000, pending_lazy_patterns=1_000_000)),
    rule="one evaluation = one operation history on the real Segtree in lock step with a plain shadow array, ended by a "
         "complete probe (all ranges for n<=33, all points + 4n ranges above) judged against an independent left-to-right "
         "fold; random histories over 21 item algebras (free monoid with all 27 letter maps as modifiers, its O(1) hash "
         "image, affine-sum, 12 built-ins, 6 nested pair combinators) plus the bounded-exhaustive scope (FreeWord, n<=4, "
         "every op sequence up to the stated length). distinct_nontrivial = distinct (algebra, history) hashes among "
         "histories containing at least one modification (set/modify) and one query before the probe; for the exhaustive "
         "scope: enumerated histories containing a range modification.",
    assumptions=[
        "item algebras satisfy the monoid-action laws (the harness algebras do by construction; checked by self_check)",
        "new_raw is not a constructor named by the property and is not driven",
        "value ranges exclude integer overflow of the built-in sum items",
    ],
)

prop(
    "C02",
    level="exploration",
    technique="reference-model runtime monitor with a predicate-argument event log: linear-scan oracle on the shadow array, "
              "every aggregate shown to the predicate compared with the exact in-order fold",
    level_text="Exploration: tens of millions of boundary searches on the real segment tree after random and enumerated "
               "histories (searches issued while modifications are still pending), each answer compared with a linear scan, "
               "and each aggregate shown to the predicate compared with the fold of precisely the range it must represent "
               "(exact for the free monoid, where the word length identifies the range). Held-on-observed, not a proof.",
    level_note="Trusted: monotonicity of the generated predicates (by construction), the shadow array and scan oracle. Not "
               "covered: non-monotone predicates and items whose Default is not the merge identity (outside the property).",
    runs=[
        dict(engine="segmon", profile="release", args=["--judge", "search", "--mode", "random"], group="random"),
        dict(engine="segmon", profile="release", args=["--judge", "search", "--mode", "exhaustive"], group="exhaustive"),
        dict(engine="segmon", profile="dev", args=["--judge", "search", "--mode", "random", "--cases-per-weight", "400"],
             group="random", label="segmon/dev/search random (overflow checks on)"),
    ],
    floor=dict(quick=100_000, thorough=2_000_000),
    counter_floors=dict(quick=dict(searches_checked=10_000_000, pred_args_checked=30_000_000, search_outcomes=6),
                        thorough=dict(searches_checked=200_000_000, search_outcomes=6)),
    rule="one evaluation = one history of sets / range modifications / searches on the real Segtree, ended by searches from "
         "every position (n<=33) in both directions under monotone predicates; each answer is compared with a linear scan of "
         "the shadow array and every aggregate the library shows to the predicate is logged and must equal the in-order fold "
         "of exactly shadow[l..=x] (resp. shadow[x..=r]). Predicates: thresholds on sums (non-negative contents), max>=t, "
         "min<=t, contains-letter, length>=k, count>=k, order-sensitive 'a before b' subsequence, always-true/false. "
         "distinct_nontrivial as for C01.",
    assumptions=[
        "predicates are monotone along growing ranges (by construction)",
        "Default of every driven item is the identity of merge (checked by self_check)",
    ],
)
