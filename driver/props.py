"""Per-property configuration of the driver: which engine invocations decide a property, evidence
level, floors (a run that observed less is inconclusive, not green)."""

import custom

ORDER = []
PROPS = {}


def prop(pid, **kw):
    kw["id"] = pid
    PROPS[pid] = kw
    ORDER.append(pid)


# ---------------------------------------------------------------------------------------------
prop(
    "C01",
    level="exploration",
    technique="reference-model runtime monitor: real Segtree in lock step with a shadow array, independent fold oracle, "
              "random + bounded-exhaustive histories over free and built-in item algebras",
    level_text="Exploration: millions of operation histories on the real segment tree, each ended by a complete probe of all "
               "ranges, judged by an independent left-to-right fold over a plain array. The free monoid with the full "
               "transformation monoid as modifiers makes any wrong order, lost push or double application observable; a "
               "bounded scope (n<=5, all op sequences to a stated length) is enumerated completely. Held-on-observed, not a proof. Since the seeded rounds 3-4 also: a modifier of zero size (FlipCount), sleeper histories (exactly 2^8 / 2^16 (+-1) non-querying operations between two identical queries), trees of 2^20+1 .. 2^23+5 elements incl. a non-commutative algebra with queries ragged at both ends. Since the seeded rounds 5-6 also: padded items of several hundred bytes and items whose operations call back into another tree, Min / Max over key+payload elements ordered by the key only (ties everywhere: the left-to-right merge keeps the last extremal element), a pair combinator over different element types; in the thorough tier a gap of 2^32 (-1, +0, +1) operations between two identical queries. Since the seeded round 7 also: SumAdd over the rings Z/2, Z/6, Z/12 and Z/256 (a modifier times a node length can vanish although the modifier does not), Sum over a concatenation type (associative, not commutative). Since the seeded round 8 also: a lazy item over the unit modifier (touch counts) paired with the plain built-in items in a Combinator.",
    level_note="Trusted: the harness item algebras (law-abiding by construction, identity self-checked), the shadow-array "
               "semantics and the fold oracle; rustc. Not covered: algebras outside the list, histories longer than 48 ops "
               "before the probe, sizes above 4097.",
    runs=[
        dict(engine="segmon", profile="release", args=["--judge", "fold", "--mode", "random"], group="random"),
        dict(engine="segmon", profile="release", args=["--judge", "fold", "--mode", "exhaustive"], group="exhaustive"),
        dict(engine="segmon", profile="dev", args=["--judge", "fold", "--mode", "random", "--cases-per-weight", "400"],
             group="random", label="segmon/dev/fold random (overflow checks on)"),
        dict(engine="segmon", profile="release", args=["--judge", "fold", "--mode", "sleeper"], group="sleeper",
             label="segmon/release/fold sleeper (query, exactly 2^8 / 2^16 (+-1) non-querying operations, same query again)"),
        dict(engine="segmon", profile="dev", args=["--judge", "fold", "--mode", "sleeper", "--reps", "1"], group="sleeper",
             label="segmon/dev/fold sleeper"),
        dict(engine="segmon", profile="release", args=["--judge", "fold", "--mode", "huge"], group="huge",
             label="segmon/release/fold huge (2^20+1 .. 2^23+5 elements, operations at the two ends)"),
        dict(engine="segmon", profile="release", args=["--judge", "fold", "--mode", "sleeper32"], group="sleeper32", tiers=("thorough",),
             label="segmon/release/fold sleeper32 (query, 2^32 (-1, +0, +1) non-querying operations, same query again)"),
    ],
    floor=dict(quick=100_000, thorough=2_000_000),
    counter_floors=dict(quick=dict(asks_checked=10_000_000, op_modify=500_000, op_set=200_000, pending_lazy_patterns=100_000),
                        thorough=dict(asks_checked=200_000_000, pending_lazy_patterns=1_000_000)),
    rule="one evaluation = one operation history on the real Segtree in lock step with a plain shadow array, ended by a "
         "complete probe (all ranges for n<=33, all points + 4n ranges above) judged against an independent left-to-right "
         "fold; random histories over 21 item algebras (free monoid with all 27 letter maps as modifiers, its O(1) hash "
         "image, affine-sum, 12 built-ins, 6 nested pair combinators) plus the bounded-exhaustive scope (FreeWord, n<=4, "
         "every op sequence up to the stated length). distinct_nontrivial = distinct (algebra, history) hashes among "
         "histories containing at least one modification (set/modify) and one query before the probe; for the exhaustive "
         "scope: enumerated histories containing a range modification.",
    assumptions=[
        "item algebras satisfy the monoid-action laws (the harness algebras do by construction; checked by self_check)",
        "new_raw is not a constructor named by the property and is not driven",
        "value ranges exclude integer overflow of the built-in sum items",
    ],
)

prop(
    "C02",
    level="exploration",
    technique="reference-model runtime monitor with a predicate-argument event log: linear-scan oracle on the shadow array, "
              "every aggregate shown to the predicate compared with the exact in-order fold",
    level_text="Exploration: tens of millions of boundary searches on the real segment tree after random and enumerated "
               "histories (searches issued while modifications are still pending), each answer compared with a linear scan, "
               "and each aggregate shown to the predicate compared with the fold of precisely the range it must represent "
               "(exact for the free monoid, where the word length identifies the range). Held-on-observed, not a proof. Since the seeded rounds 3-4 also: zero-sized modifiers, sleeper histories, huge trees with searches at the two ends, re-entrant predicates (the predicate searches a second tree) and a logical call budget that turns a non-terminating search into a verdict. Since the seeded rounds 5-6 also: padded and re-entrant items, a Combinator in which one half's pending state never cancels (a count of the modifications that covered an element, next to a range add whose sum returns to zero). Since the seeded round 7 also: the ring and concatenation algebras of C01 under the searches. Since the seeded round 8 also: the unit-modifier pairs of C01 under the searches.",
    level_note="Trusted: monotonicity of the generated predicates (by construction), the shadow array and scan oracle. Not "
               "covered: non-monotone predicates and items whose Default is not the merge identity (outside the property).",
    runs=[
        dict(engine="segmon", profile="release", args=["--judge", "search", "--mode", "random"], group="random"),
        dict(engine="segmon", profile="release", args=["--judge", "search", "--mode", "exhaustive"], group="exhaustive"),
        dict(engine="segmon", profile="dev", args=["--judge", "search", "--mode", "random", "--cases-per-weight", "400"],
             group="random", label="segmon/dev/search random (overflow checks on)"),
        dict(engine="segmon", profile="release", args=["--judge", "search", "--mode", "sleeper"], group="sleeper",
             label="segmon/release/search sleeper (query, exactly 2^8 / 2^16 (+-1) non-querying operations, same query again)"),
        dict(engine="segmon", profile="dev", args=["--judge", "search", "--mode", "sleeper", "--reps", "1"], group="sleeper",
             label="segmon/dev/search sleeper"),
        dict(engine="segmon", profile="release", args=["--judge", "search", "--mode", "huge"], group="huge",
             label="segmon/release/search huge (2^20+1 .. 2^23+5 elements, operations at the two ends)"),
        dict(engine="segmon", profile="release", args=["--judge", "search", "--mode", "sleeper32"], group="sleeper32", tiers=("thorough",),
             label="segmon/release/search sleeper32 (search, 2^32 (-1, +0, +1) non-searching operations, same search again)"),
    ],
    floor=dict(quick=100_000, thorough=2_000_000),
    counter_floors=dict(quick=dict(searches_checked=10_000_000, pred_args_checked=30_000_000, search_outcomes=6),
                        thorough=dict(searches_checked=200_000_000, search_outcomes=6)),
    rule="one evaluation = one history of sets / range modifications / searches on the real Segtree, ended by searches from "
         "every position (n<=33) in both directions under monotone predicates; each answer is compared with a linear scan of "
         "the shadow array and every aggregate the library shows to the predicate is logged and must equal the in-order fold "
         "of exactly shadow[l..=x] (resp. shadow[x..=r]). Predicates: thresholds on sums (non-negative contents), max>=t, "
         "min<=t, contains-letter, length>=k, count>=k, order-sensitive 'a before b' subsequence, always-true/false. "
         "distinct_nontrivial as for C01.",
    assumptions=[
        "predicates are monotone along growing ranges (by construction)",
        "Default of every driven item is the identity of merge (checked by self_check)",
    ],
)

prop(
    "C03",
    level="exploration",
    technique="reference-model runtime monitor + structural invariant at quiescence: pool of real treaps shadowed by Vecs, "
              "read-only walk of the public node fields after every operation, harness-controlled priorities; the same random "
              "histories under the Miri interpreter (undefined behaviour on items that own heap memory)",
    custom=custom.c03_custom,
    level_text="Exploration: hundreds of thousands of random histories (split_at/split_by/merge/insert/remove/first/last/"
               "collect/size with non-commuting lazy modifications attached at roots of whole treaps and of split-out "
               "parts) under six priority regimes including ties and monotone priorities, plus a bounded scope (n<=5 "
               "elements x every weak ordering of the priorities x every op sequence to a stated length) enumerated "
               "completely. Every API result is compared with a Vec model and, after every operation, a walk that does "
               "not perturb pending state checks the effective sequence and the stored aggregate of every node. Since the seeded rounds 3-4 also: items inserted while they still carry a pending modification, and path-shaped treaps 2100..3400 nodes deep (priorities through the public fields) under the same operations with the complete walk after each. Since the seeded rounds 5-6 also: split_by predicates that split / merge / collect an independent treap of the same thread while the outer split runs (nested once more inside), histories handed to a fresh thread every few operations (treaps with pending modifications included), balanced and path-shaped deep treaps with root attachments and boundary cuts. Since the seeded round 7 also: an item whose lazy modification depends on the position (add an arithmetic progression: the right child receives it advanced by the size of the left subtree + 1). Since the seeded round 8 also: 14 (6 x 40 in thorough) of the random histories under Miri: a double drop, a use after free or a read of a moved-out item inside the library is reported as undefined behaviour with its stack.",
    level_note="Trusted: the two harness item types (affine-sum and free-word items, lawful by construction), the Vec model, "
               "the walk. Not covered: items that break the laws, treaps larger than ~60 elements in this mode (C16 covers size).",
    runs=[
        dict(engine="treapmon", profile="release", args=["--mode", "seq"], group="random"),
        dict(engine="treapmon", profile="release", args=["--mode", "seq-exhaustive"], group="exhaustive"),
        dict(engine="treapmon", profile="dev", args=["--mode", "seq", "--cases", "40000"], group="random",
             label="treapmon/dev/seq (overflow checks on)"),
        dict(engine="treapmon", profile="release", args=["--mode", "seq-deep"], group="deep",
             label="treapmon/release/seq-deep (path-shaped treaps 2100..3400 nodes deep, every recursion thousands of levels)"),
    ],
    floor=dict(quick=500_000, thorough=10_000_000),
    counter_floors=dict(quick=dict(walk_checks=10_000_000, lazy_attachments=1_000_000, api_results_checked=5_000_000),
                        thorough=dict(walk_checks=200_000_000)),
    rule="one evaluation = one history on a pool of real treaps, each operation followed by the read-only walk check of "
         "every live treap and ended by size/first/last/collect on all of them. distinct_nontrivial = distinct histories in "
         "which a lazy modification was attached (root or split-out middle part) and at least one structural operation "
         "(merge/split/insert/remove) occurred; exhaustive scope: enumerated histories containing an attachment.",
    assumptions=[
        "items are lawful (aggregate is a function of the subtree, modifications distribute over it)",
        "split_by predicates are prefix-monotone (by construction: membership of the first k element ids, or a value "
        "threshold when the model is sorted)",
    ],
)

prop(
    "C16",
    level="exploration",
    crash_is_violation=True,
    technique="structural invariant monitor at staged checkpoints: iterative walk of the public node fields (heap order on "
              "every edge, height vs 5*log2(n+1)+20, node count) under adversarial growth orders with library-drawn priorities",
    level_text="Exploration: twelve adversarial growth/rotation workloads (sorted appends, front/middle insertion, "
               "split-and-swap rotations, remove/append cycles, sorted insertion via split_by, bulk merges, random mixes, "
               "grow-shrink-grow) up to 2^19 (quick) / 2^22 (thorough) elements with the library's own priorities; at staged "
               "checkpoints (n = 16, 64, 256, ... and after each phase) every parent-child edge is checked for heap order in "
               "one consistent direction and the height against 5*log2(n+1)+20. A degenerate priority source is reported "
               "at n=64..256, before recursion depth matters. Since the seeded rounds 3-4 also: stride scan (Cartesian-tree screening of every creation stride <= 4096 over 4 million observed priorities, the three worst strides built for real). Since the seeded rounds 5-6 also: power-of-two strides, sequential worker threads, and the priority values 0 and u32::MAX themselves: located in the generator streams of the next threads of the process (calibrated model of the per-thread generator), the thread advanced to just before them and 3000 sorted appends built around them, the value confirmed in the treap. Since the seeded round 7 also: one treap cut into 1500 parts with an element inserted into each and gathered again, repetition of the priority stream (a 64-bit coincidence of consecutive values) with its lag added to the stride scan. Since the seeded round 8 also: 40 000 short-lived threads contributing the first node each creates, through four entry points (TreapNode::new, from_item, Treap::default + insert_at, Treap::new + insert_at).",
    level_note="Trusted: the iterative walk. The bound is probabilistic for a correct treap (failure < 1e-15). A process death "
               "(stack exhaustion) is mapped to a violation for this property. Not covered: histories outside the driven orders.",
    runs=[
        dict(engine="treapmon", profile="release", args=["--mode", "shape"], group="shape", tiers=("quick",),
             timeout=dict(quick=600, thorough=3600)),
        dict(engine="treapmon", profile="release", args=["--mode", "shape", "--n", "4194304"], group="shape", tiers=("thorough",),
             timeout=dict(quick=600, thorough=7200)),
    ],
    floor=dict(quick=24, thorough=24),
    counter_floors=dict(quick=dict(edges_checked=5_000_000, checkpoints=150), thorough=dict(edges_checked=20_000_000)),
    rule="one evaluation = one (workload, target size) run with staged checkpoints; distinct_nontrivial = distinct "
         "(workload, size) pairs; coverage counters give the number of checkpoints, edges checked and the worst "
         "height/log2(n) ratio seen.",
    assumptions=["priorities are left exactly as the library draws them", "single-threaded (racing on the priority source is C17)"],
)

prop(
    "C13",
    level="exploration",
    technique="differential runtime monitor: every table entry of Sieve::new(N) for every limit N compared with trial "
              "division / an independent Eratosthenes bit-sieve",
    level_text="Exploration with an exhaustive sub-space: for EVERY limit N in 0..=12000 (quick) / 0..=100000 (thorough) a fresh "
               "Sieve is built and all of min_prime, is_prime, primes and factorize(n) for every n<=N are compared with "
               "trial division, so every position of N relative to primes and prime squares is hit; limits adjacent to "
               "p, p^2, p*q up to 10^6 and the limits 10^6 (and 10^7) are compared element by element with an independent "
               "sieve of Eratosthenes. Since the seeded rounds 3-4 also: every limit k*1024 / k*4096 / k*1000 / k*10000, a limit beyond 2^24, Iterator-call scripts on factorize. Since the seeded rounds 5-6 also: a sieve of 223 092 870 + 641 entries (and 2^28 + 57 in thorough): is_prime and the whole prime list against a bit sieve and min_prime a prime divisor for every n, factorize and exact min_prime against trial division on every prime power of the primes below 1000, the square-free products of the first 13 primes (nine distinct factors), smooth numbers, semiprimes at the square root, both table ends, neighbourhoods of powers of two and 40 000 random n. Since the seeded round 7 also: nth(k) / skip(k) / step_by(k + 1) exactly for every k on the 700 000 numbers rich in distinct primes, 3-5 million factorisations in random order. Since the seeded round 8 also: odd limits just above 2^24 (not representable in single precision), two factorisation iterators consumed in turns (zip, merge walk).",
    level_note="Trusted: the engine's trial division and bit-sieve (cross-checked against each other and against pi(x) at "
               "nine points on every run; a failed self-check is inconclusive). Not covered: limits above 10^7.",
    runs=[
        dict(engine="sievemon", profile="release", args=["--every-max", "12000"], group="all",
             tiers=("quick",)),
        dict(engine="sievemon", profile="release", args=["--every-max", "100000", "--adjacent-limits", "10000"], group="all", tiers=("thorough",)),
        dict(engine="sievemon", profile="dev", args=[], group="all",
             label="sievemon/dev (overflow + bounds checks on)"),
    ],
    floor=dict(quick=10_000, thorough=30_000),
    counter_floors=dict(quick=dict(entries_checked=300_000_000, limit_classes=10), thorough=dict(entries_checked=2_000_000_000)),
    rule="one evaluation = one limit N whose complete tables (min_prime, is_prime, primes, factorize of every n<=N) were "
         "compared with the oracle; distinct_nontrivial = distinct limits N>=4 (the table then contains a composite, so the "
         "sieve's inner loop has written an entry).",
    assumptions=["n = 0 is outside factorize's domain; min_prime is judged for 2<=n<=N only"],
)

prop(
    "C15",
    level="exploration",
    technique="differential runtime monitor: iterator output compared element by element with brute-force enumeration "
              "(filter-all-values / bit-deposit models, sorted distinct arrangements, fixed offset lists)",
    level_text="Exploration with exhaustive sub-spaces: submask and supermask iteration for EVERY value of u8, i8, u16, i16 "
               "(exact sequence equality incl. order, first and last element), structured and random masks with bounded "
               "popcount for the ten wider types; next_permutation / iter_permutations for every sequence over {0,1,2} up "
               "to length 7 and from every arrangement of up to 8 distinct elements; the three neighbour iterators at "
               "every cell of every grid up to 6x6 (order included) plus large and degenerate grids. Since the seeded rounds 3-4 also: random scripts of Iterator calls on masks (all 12 types), permutations and neighbours; permutations of 32-byte, tuple-with-String and Box elements. Since the seeded rounds 5-6 also: zero-sized, signed-byte, boxed and string-pair elements; exact-exhaustion steps in the iterator scripts (take exactly the remaining count, then last / max / min / count). Since the seeded round 7 also: long walks of 2^21..2^22 members (low bits, both ends with the sign bit, the middle of the type) for every 32-, 64- and 128-bit type.",
    level_note="Trusted: the brute-force models (each expected sequence is itself proved - length, monotonicity, membership - "
               "before the library is called; a failed proof is inconclusive). The neighbour offset orders are frozen from "
               "the documented behaviour. Not covered: masks of the wide types with more than 12/16 free bits.",
    runs=[
        dict(engine="itermon", profile="release", args=[], group="all"),
        dict(engine="itermon", profile="dev", args=["--light"], group="all", label="itermon/dev/light (overflow checks on)"),
    ],
    floor=dict(quick=300_000, thorough=1_000_000),
    counter_floors=dict(quick=dict(items_compared=150_000_000, neighbour_counts=15), thorough=dict(items_compared=2_000_000_000)),
    rule="one evaluation = one iterator call whose complete output was compared with the model; distinct_nontrivial = "
         "distinct inputs among masks with >=2 free bits, sequences with >=2 distinct elements and grid cells with at "
         "least one neighbour.",
    assumptions=["the fixed neighbour orders are the documented ones: 4: (0,1),(-1,0),(0,-1),(1,0); diagonal: (-1,1),(-1,-1),(1,-1),(1,1); 8: counter-clockwise from (0,1)"],
)

prop(
    "C11",
    level="exploration",
    technique="differential runtime monitor: results checked against the defining equations in i128/u128 with an own Euclid "
              "(exhaustive small cube + boundary-biased sampling to 2^20, all 12 integer types for gcd/lcm)",
    level_text="Exploration with an exhaustive sub-space: every (a,b,c) with |.|<=12 and every pair of moduli <=40 with all "
               "reduced residues (i64, i32, i128), 8-bit gcd/lcm pairs exhaustively, and millions of sampled triples / "
               "congruence pairs up to 2^20 biased to zeros, negatives, multiples, non-coprime moduli and results next to the "
               "lcm. The oracle is the definition itself (a*x+b*y=c exactly; None iff gcd does not divide c; 0<=x<lcm and "
               "both congruences), never a particular solution. Run with overflow checks on as well. Since the seeded rounds 3-4 also: full-width Fibonacci pairs for every type, crt on i32 / i16 with moduli sharing a large factor (product beyond the type, lcm and Bezout multiples inside). Since the seeded rounds 5-6 also: related calls after a call for gcd, and a termination monitor that runs first: every function on an operation-counting Integer of the harness (a budget of 50 000 arithmetic operations per call, Euclid needs < 200) with operands of very different magnitudes, Fibonacci pairs and random widths - a call that does not come back is a verdict in logical steps, and the native phases (which would hang) are skipped then. Since the seeded round 7 also: 64 threads inside egcd / crt at the same moment on consecutive Fibonacci numbers.",
    level_note="Trusted: own Euclid and i128 arithmetic of the engine. lcm is judged only where |a*b| fits the type; the signed "
               "minimum is excluded (as the property states).",
    runs=[
        dict(engine="gcdmon", profile="release", args=[], group="all", tiers=("quick",)),
        dict(engine="gcdmon", profile="release", args=["--calls", "1500000000"], group="all", tiers=("thorough",)),
        dict(engine="gcdmon", profile="dev", args=[], group="all", label="gcdmon/dev (overflow checks on)"),
    ],
    floor=dict(quick=4_000_000, thorough=100_000_000),
    counter_floors=dict(quick=dict(egcd_some=300_000, egcd_none=100_000, crt_some=1_000_000, crt_none=400_000, gcd_checked=500_000, lcm_checked=300_000)),
    rule="one evaluation = one library call (gcd, lcm, egcd or crt on one operand tuple) checked against the defining "
         "equations; distinct_nontrivial = distinct tuples with both operands non-zero and of different magnitude (gcd/egcd) "
         "or non-coprime moduli / different residues (crt). In the thorough tier only every 32nd non-trivial hash is stored.",
    assumptions=["magnitudes stay where the mathematical intermediate values fit the integer type (<= 2^20 over i64)"],
)

prop(
    "C05",
    level="exploration",
    crash_is_violation=True,
    technique="reference-model runtime monitor + invariant hook: naive component labelling as the model, parent-forest walk "
              "through the read-only hook (acyclic, depth <= floor(log2(size)), size at roots), representative stability "
              "between unions; random, bounded-exhaustive and adversarial union orders",
    level_text="Exploration: random histories of un/par/check/size/reset(grow, shrink, zero)/clone on up to 64 elements with a "
               "complete verification (every pair, every member's representative, forest invariant through the hook) after "
               "every operation; all op sequences up to a stated length on n<=5; eleven adversarial union orders (chains "
               "in both argument orders, binomial worst case through roots and through deepest elements, stars, "
               "caterpillars, random with interleaved lookups) up to 2^17 (quick) / 4*10^6 (thorough) elements with staged "
               "depth checkpoints after 64, 256, 1024, ... unions so that a degenerating forest is reported long before "
               "recursion depth matters. Since the seeded rounds 3-4 also: sleeper histories (a vertex looked up, exactly 2^8 / 2^16 (+-1) unions / resets that never mention it or its residue class mod 8, looked up again), clone_from between structures of different sizes, small components at both ends of the index range up to n = 1.5 million, reset to large sizes. Since the seeded rounds 5-6 also: absorb-after-lookup, repeated resets, five construction routes for every adversarial order (new, reset from one element, growth inside spare capacity, shrinking, reset after use), size / check on the deepest never-looked-up elements before any lookup, ladders of ~30 constructions with climbing sizes on one fresh thread. Since the seeded round 7 also: perfect binomial trees meeting slightly smaller components (built in both orders, united in both argument orders, no lookups). Since the seeded round 8 also: the binomial order at n = 600 000 .. 1 500 000 (components of 2^16 .. 2^18 elements), size variant / construction order / argument order rotated by seed.",
    level_note="Trusted: the relabelling model and the compression-free union-find used above 4096 elements; the hook only "
               "exposes the parent and size arrays read-only. The depth bound is checked on the orders driven, not for all "
               "orders. Process death (stack exhaustion) counts as a violation for this property.",
    runs=[
        dict(engine="dsumon", profile="release", args=["--mode", "random"], group="random", tiers=("quick",)),
        dict(engine="dsumon", profile="release", args=["--mode", "random", "--cases", "40000000"], group="random", tiers=("thorough",)),
        dict(engine="dsumon", profile="release", args=["--mode", "exhaustive"], group="exhaustive"),
        dict(engine="dsumon", profile="release", args=["--mode", "adversarial"], group="adversarial", tiers=("quick",)),
        dict(engine="dsumon", profile="release", args=["--mode", "adversarial", "--n", "4000000"], group="adversarial", tiers=("thorough",)),
        dict(engine="dsumon", profile="dev", args=["--mode", "random", "--cases", "30000"], group="random",
             label="dsumon/dev/random (overflow + bounds checks on)"),
        dict(engine="dsumon", profile="release", args=["--mode", "sleeper"], group="sleeper",
             label="dsumon/release/sleeper (lookup, exactly 2^8 / 2^16 (+-1) unions or resets that never mention the vertex, lookup again)"),
        dict(engine="dsumon", profile="dev", args=["--mode", "sleeper"], group="sleeper", label="dsumon/dev/sleeper"),
    ],
    floor=dict(quick=500_000, thorough=5_000_000),
    counter_floors=dict(quick=dict(forest_checks=10_000_000, un_checked=5_000_000, par_checked=20_000_000, checkpoints=300, resets=100_000, clones=100_000)),
    rule="one evaluation = one history (random / enumerated) or one (adversarial order, size) run; distinct_nontrivial = "
         "histories with >= 2 successful unions and a lookup between unions (random), >= 2 successful unions (enumerated), "
         "or distinct (order, size) pairs (adversarial).",
    assumptions=["representative stability is required only between consecutive un calls (any un call ends the window)"],
)

prop(
    "C06",
    level="exploration",
    technique="differential runtime monitor: Modular<M> for 93 macro-instantiated moduli against i128 rem_euclid / own modpow / "
              "own Euclid; all operand pairs for every M<=48; overflow checks on in the dev run",
    level_text="Exploration with an exhaustive sub-space: every operand pair for every modulus 2..=48 under all operators, "
               "assigning forms, negation, pow, division where coprime; boundary x boundary and random operands for 46 large "
               "moduli (competition primes, 2^31-1 ... 2^31-20, 2^30 and neighbours, 2^16(+1), 46337^2, 46340*46341, "
               "primorial, composites); constructor arguments incl. i64::MIN/MAX and +-2^32; exponents to u64::MAX; "
               "canonicity (inner() < M) after every operation; Display/Debug/Writable/Readable through the canonical value. Since the seeded rounds 3-4 also: 20 moduli around 2^26.5 / 2^27 / 2^24 / sqrt(2^31), operands at the square roots of the integer widths, products steered to remainder M-1 / M-2 / 1 with both factors next to M. Since the seeded rounds 5-6 also: pseudoprime and power-of-two moduli, zero divisors and nilpotent residues of non-squarefree moduli, exponents 3..8 / 15..17 / 31..33 / 63..65. Since the seeded round 7 also: exact multiples of M of every decimal length with both signs through new and read, pow(e) directly followed by pow(0), pow(1) and pow(e) again on the same base.",
    level_note="Trusted: i128/u128 oracle arithmetic. Moduli not in the instantiated list are not executed (const generic). "
               "Division by non-coprime values is outside the property and never executed.",
    runs=[
        dict(engine="mintmon", profile="release", args=[], group="all", tiers=("quick",)),
        dict(engine="mintmon", profile="release", args=["--random-ops", "2000000000"], group="all", tiers=("thorough",)),
        dict(engine="mintmon", profile="dev", args=[], group="all", label="mintmon/dev (overflow checks on)"),
    ],
    floor=dict(quick=5_000_000, thorough=150_000_000),
    counter_floors=dict(quick=dict(coprime_divisions=500_000, moduli_seen=93)),
    rule="one evaluation = one operation instance on one operand tuple for one modulus, compared with the oracle and checked "
         "for a canonical representative; distinct_nontrivial = distinct (M, op, operands) whose true integer result lay "
         "outside [0, M) (a reduction was needed).",
    assumptions=["2 <= M < 2^31"],
)

prop(
    "C07",
    level="exploration",
    technique="differential runtime monitor: Rational<i32/i64/i128> against exact i128 fractions with an own binary gcd, all "
              "operator forms, order, hash, floor/ceil; exhaustive small box + boundary-biased sampling",
    level_text="Exploration with an exhaustive sub-space: every pair of raw fractions with |a|,|b|,|c|,|d| <= 6 (both signs of "
               "both denominators) and 14 boundary-biased sampling shapes up to 2^30 (i64), 2^14 (i32), 2^60 (i128) with "
               "factors shared across the two fractions; every operator form (by value, by reference, assigning) compared "
               "field by field with the canonical exact result; ==, cmp, partial_cmp, hash of equal values and of scaled "
               "representations, floor/ceil for negative/positive/integral values, Display/Debug. Since the seeded rounds 5-6 also: low-bit twin numerators, dyadic operands whose sum or difference is a power of two, == / != / hash of Rational<i32> values with parts up to 2^30 (pairs whose cross products agree modulo 2^32 included).",
    level_note="Trusted: the engine's checked i128 fraction arithmetic (self-checked; an oracle-side overflow is inconclusive). "
               "Magnitudes stay inside the property's bound so that necessary intermediates fit the type.",
    runs=[
        dict(engine="ratmon", profile="release", args=[], group="all", tiers=("quick",)),
        dict(engine="ratmon", profile="release", args=["--samples", "20000000"], group="all", tiers=("thorough",)),
        dict(engine="ratmon", profile="dev", args=[], group="all", label="ratmon/dev (overflow checks on)"),
    ],
    floor=dict(quick=500_000, thorough=2_000_000),
    counter_floors=dict(quick=dict(operator_evaluations=30_000_000, negative_denominators=300_000, shared_factor_pairs=300_000)),
    rule="one evaluation = one pair of raw fractions put through all checks (about 60 operator evaluations); "
         "distinct_nontrivial = distinct (type, a, b, c, d) where a gcd reduction happened in some result or a denominator "
         "/ divisor numerator was negative.",
    assumptions=["|a|,|b|,|c|,|d| <= 2^30 over i64 (2^14 over i32, 2^60 over i128)"],
)

prop(
    "C19",
    level="exploration",
    exhaustive_all=True,
    technique="exhaustive small-scope runtime monitor: all 780 shapes of rank 1..4 with extents 1..5 - row-major formula, "
              "panic observation for every single-dimension out-of-range index, text grammar, read-back, equality",
    level_text="Exhaustive over the stated scope: for every shape of rank 1..4 with extents 1..5, every valid index is compared "
               "with the row-major offset, every index out of range in exactly one dimension (value = extent, extent+1, "
               "huge; all combinations of the other coordinates; incl. all whose flattened offset is inside the storage) "
               "must panic for index / index_mut / get_index, constructors must reject zero extents and wrong lengths, "
               "write produces the separator grammar and reads back equal for all 12 integer types and strings, and "
               "equality is checked for single-element differences and for equal data under every different shape of the "
               "same rank and size. Since the seeded rounds 3-4 also: indices 2^e + j that wrap a power-of-two stride, clone_from across shapes, Iterator-call scripts on iter / into_iter, writes behind pending output that ends at the buffer edge. Since the seeded rounds 5-6 also: digit-structured integers (interior groups of zeros and nines), NaN and zero-sized elements under ==, double-ended iterator scripts, control bytes in strings, stream boundary checks. Since the seeded round 7 also: streams of 5..11 large tensors (hundreds of kilobytes, the text ending with the last digit) through one writer and one reader fed in large and in shrinking pieces. Since the seeded round 8 also: NUL bytes inside string tokens, one string element longer than the writer's and reader's buffer in the middle of a tensor.",
    level_note="Trusted: the engine's Horner offset and odometer, catch_unwind observation of panics. Ranks above 4 and extents "
               "above 5 (7 in thorough) are not enumerated.",
    runs=[
        dict(engine="tensormon", profile="release", args=[], group="all"),
        dict(engine="tensormon", profile="dev", args=[], group="all", label="tensormon/dev (overflow + bounds checks on)"),
    ],
    floor=dict(quick=1_560, thorough=3_000),
    counter_floors=dict(quick=dict(oob_probes=1_000_000, oob_probes_offset_inside_storage=500_000, index_probes=1_000_000,
                                   constructor_rejections=50_000, roundtrips=20_000, eq_pairs_same_data_different_shape=20_000)),
    rule="one evaluation = one shape put through all construction / indexing / bounds / IO / equality checks; "
         "distinct_nontrivial = distinct shapes with at least two extents > 1 (or rank 1 with extent > 1).",
    assumptions=["ASCII element tokens for the IO round trip"],
)

prop(
    "C08",
    level="fault_enumeration",
    technique="fault-injecting Read source + reference parser: every (input, script) executed under enumerated / targeted / "
              "random delivery schedules with injected ErrorKind::Interrupted, each result list compared with a positional "
              "model that is a function of the bytes alone",
    level_text="Fault enumeration: for short inputs (<=13 bytes) EVERY composition of the stream into chunks is executed, and "
               "for compositions with <=5 chunks ErrorKind::Interrupted is injected at every subset of call positions "
               "(incl. before the end-of-input read); longer random inputs (all 12 integer types at their extremes, "
               "strings, chars, tuples to arity 8, vectors, LF/CRLF/lone-CR/unterminated lines, eof tests) run under "
               "one-shot, one-byte, stale-buffer and random schedules with up to 50 % interrupts; inputs longer than the "
               "internal buffer place tokens, '-'|digits and CR|LF across k*BUF and chunk edges (buffer size read through "
               "the hook). Both build profiles. Since the seeded rounds 3-4 also: bursts of 255 .. 65537 consecutive interruptions, two or three readers alive at once with interleaved reads. Since the seeded rounds 5-6 also: line-end runs of 63..257 bytes, blank runs of 6..24 bytes, tokens made of the extreme non-blank bytes '!' and '~'. Since the seeded round 7 also: string tokens of 60..1100 characters.",
    level_note="Trusted: the scripted source and the positional reference parser (a generated input the model rejects is "
               "inconclusive, never a violation). Inputs are valid for their scripts; reading past the end is outside the "
               "property. A line read directly after an end-of-input test is not generated (whether that test consumes "
               "whitespace is not pinned down by the property).",
    runs=[
        dict(engine="readmon", profile="release", args=["--mode", "exhaustive"], group="exhaustive"),
        dict(engine="readmon", profile="release", args=["--mode", "random"], group="random"),
        dict(engine="readmon", profile="release", args=["--mode", "boundary"], group="boundary"),
        dict(engine="readmon", profile="dev", args=["--mode", "exhaustive", "--cases", "300"], group="exhaustive",
             label="readmon/dev/exhaustive (debug assertions on)"),
        dict(engine="readmon", profile="dev", args=["--mode", "random", "--cases", "60000"], group="random",
             label="readmon/dev/random (debug assertions on)"),
        dict(engine="readmon", profile="dev", args=["--mode", "boundary", "--cases", "300"], group="boundary",
             label="readmon/dev/boundary (debug assertions on)"),
        dict(engine="readmon", profile="release", args=["--mode", "interleaved-readers"], group="interleaved",
             label="readmon/release/interleaved-readers (2-3 readers alive at once, items interleaved)"),
    ],
    floor=dict(quick=300_000, thorough=5_000_000),
    counter_floors=dict(quick=dict(deliveries=10_000_000, deliveries_with_interrupts=5_000_000, crlf_splits=100_000,
                                   minus_digit_splits=100_000, buffer_boundary_straddles=1_000, split_points=40)),
    rule="one evaluation = one (input bytes, read script) pair executed under all its delivery schedules (counter "
         "'deliveries'); distinct_nontrivial = distinct (input, script) pairs; coverage sets: split_points = (token kind, "
         "offset inside the token at which a chunk boundary fell), interrupted_call_positions, crlf_splits, "
         "minus_digit_splits, buffer_boundary_straddles.",
    assumptions=["ASCII inputs built from valid tokens and whitespace / line separators", "scripts never read past the end of input"],
)

prop(
    "C12",
    level="exploration",
    technique="reference-model runtime monitor: Bitset<N> for N in {1,2,3,4,10,17} in lock step with a Vec<bool>, complete "
              "observation (test of every index, count, iter_bits, ==, Display/Debug) after every operation; structured "
              "pairwise operator sub-run",
    level_text="Exploration: random histories of set/remove/flip/clear/from_u64, the three binary operators, their assigning "
               "forms, complement, clone over a pool of bitsets for six capacities incl. a single word, indices biased to "
               "word boundaries (63/64, last bit); after every operation the touched bitset is observed completely and "
               "compared with the model set; all ordered pairs of ~40 structured sets per capacity under every operator. Since the seeded rounds 3-4 also: capacities 130, 200 and 4096 words, random scripts of Iterator calls on iter_bits, clone_from. Since the seeded rounds 5-6 also: a 2^26-word set, first use of every operation in a fresh process, exact-exhaustion steps in the iterator scripts. Since the seeded round 7 also: equal sets at neighbouring places of an array and behind a Box (storage at different offsets modulo 16).",
    level_note="Trusted: the Vec<bool> model. Capacities outside the instantiated list are not executed (const generic). "
               "Out-of-range indices are outside the property.",
    runs=[
        dict(engine="bitmon", profile="release", args=[], group="all"),
        dict(engine="bitmon", profile="dev", args=["--mode", "pairwise"], group="all", label="bitmon/dev/pairwise (overflow + bounds checks on)"),
    ],
    floor=dict(quick=50_000, thorough=1_000_000),
    counter_floors=dict(quick=dict(boundary_index_ops=100_000, op_kinds=16)),
    rule="one evaluation = one random history (0..60 ops on a pool of three bitsets, complete observation after every op) or "
         "one ordered pair of structured sets under all operators; distinct_nontrivial = histories with a mutating op and a "
         "binary operator / pairs of two different sets that are neither empty nor full.",
    assumptions=["indices < 64*N"],
)

prop(
    "C10",
    level="exploration",
    technique="differential runtime monitor with guard bands: integer-lattice configurations classified exactly in i128 "
              "(tangencies through Pythagorean normals/offsets) and real-valued margin sweeps across every boundary between "
              "kinds; returned points checked against both primitives from their definitions",
    level_text="Exploration: millions of circle-line, circle-circle and line-line configurations. Lattice side: integer "
               "centres, radii and defining points, kind decided exactly (sign of an i128 expression), exact tangencies "
               "constructed from Pythagorean triples and axis-parallel lines, lines given as coefficients at several "
               "scales and as point pairs in both orders. Real side: random configurations, constructed tangencies at "
               "arbitrary angles, and sweeps at signed margins 0, 1e-13 ... 1 around d=r, d=r1+r2, d=|r1-r2| for radius "
               "ratios 1..1e5 under random rotation and translation. Every reported point must be within 1e-7 of both "
               "primitives (distance to a line computed from its definition, not from the library's normalised "
               "coefficients); the kind is asserted only at margin 0, |margin|<=1e-10 or |margin|>=1e-8 (gray in between). Since the seeded rounds 3-4 also: lines given by nearly-unit coefficient normals, very large against very small circles near tangency (which uncovered the defect repaired by 01362a5), nearly equal radii at inner tangency, lines cutting a circle next to its centre. Since the seeded rounds 5-6 also: axis-aligned configurations, crossings next to lattice points, line pairs within 1e-9 rad of perpendicular far from the origin, the intersection results consumed from both ends (double-ended iterator scripts). Since the seeded round 7 also: directions on and within a few 1e-6 rad of the axes and diagonals with margins of a few 1e-6 of the radius (real and lattice), crossing circles whose radii agree to a relative 1e-9. Since the seeded round 8 also: configurations almost but not exactly axis-aligned (one component of every direction 1e-9 .. 3e-5 of the other).",
    level_note="Trusted: the harness's exact integer classification and f64 margins (error ~1e-13 for magnitudes <= 1e3, two "
               "orders below the guard band). Circle::position is asserted only where the absolute and the relative reading "
               "of the tolerance agree. Coordinates of reported points stay within +-1e3.",
    runs=[
        dict(engine="geomon", profile="release", args=["--mode", "lattice"], group="lattice", tiers=("quick",)),
        dict(engine="geomon", profile="release", args=["--mode", "real"], group="real", tiers=("quick",)),
        dict(engine="geomon", profile="release", args=["--mode", "lattice", "--cases", "300000000"], group="lattice", tiers=("thorough",)),
        dict(engine="geomon", profile="release", args=["--mode", "real", "--cases", "300000000"], group="real", tiers=("thorough",)),
        dict(engine="geomon", profile="dev", args=["--mode", "real", "--cases", "200000"], group="real", label="geomon/dev/real"),
    ],
    floor=dict(quick=3_000_000, thorough=50_000_000),
    counter_floors=dict(quick=dict(exact_tangencies=200_000, points_checked=2_000_000, cc_want_Two=200_000, cc_want_TangentOut=100_000,
                                   cc_want_TangentIn=100_000, cl_want_Tangent=200_000, sweep_margins_cc=200, sweep_margins_cl=25)),
    rule="one evaluation = one configuration handed to an intersection / classification routine and judged; "
         "distinct_nontrivial = distinct case seeds (each seed builds one configuration family member); the counters "
         "cl_want_* / cc_want_* / position_want_* / *_gray show how many configurations fell in each asserted class or in the gray band.",
    assumptions=["coordinates up to 1e3, radii in [1e-2, 1e3], defining points of a line at least 1 apart, real-valued line pairs at an angle >= 1e-3 rad"],
)

prop(
    "C14",
    level="exploration",
    technique="adversarial-input and statistical runtime monitors: chosen raw generator outputs fed through the public "
              "gen_from_u64 (membership, reachability), determinism of seeded streams and copies, permutation census of "
              "shuffle over seed families with a chi-square bound, exact-period and serial-pair tests of small-range draws",
    level_text="Exploration with an exhaustive sub-space: every (start, end) pair of u8 and i8 in all five range forms under "
               "~700 adversarial raw outputs each (0..2*len, multiples of len next to 2^64, 2^64-1-k, 2^53+-k, random) for "
               "membership and reachability of every value of ranges up to 256 values; boundary ranges (length 1, 2^k, MAX, "
               "full width, start at MIN, end at MAX) for the eight wider types; half-open float ranges (unit, negative, "
               "one-ulp, subnormal, +-1e308, whole finite line, random bit patterns) under raw outputs up to 8192 below "
               "2^64; equal seeds and copies give equal streams; shuffle keeps the multiset and, over 2*10^5 seeds from "
               "five seed families, reaches all n! arrangements of 2..6 elements with chi-square below the 1-1e-12 "
               "quantile; draws from ranges of 2..256 values have no exact period <= 2048 and pass a serial-pair chi-square. Since the seeded rounds 3-4 also: shuffle census over five element types, seeds driving the state through 0 / 2^k / 2^k-1, serial tests through ten range forms and for every length 2..=2048. Since the seeded rounds 5-6 also: generator clones, ulp-wide float ranges, draws from ranges of related lengths in direct succession (L > 2^32 values, then L mod 2^32, L mod 2^16, L >> 32), the same slice shuffled twice by one generator inside the census. Since the seeded round 7 also: empty and one-element shuffles.",
    level_note="Trusted: the harness PRNG (never rlib_rand) and the Wilson-Hilferty quantile (z = 7.2, +10). Statistical checks "
               "fail a correct generator with probability ~1e-12 per run. Seed families are sequential, offset, scrambled, "
               "timestamp-like and strided; families that differ only in the high half of the seed are not demanded "
               "(the property does not fix the seed distribution). For ..end on signed types only x < end is required.",
    runs=[
        dict(engine="randmon", profile="release", args=["--mode", "ranges"], group="ranges"),
        dict(engine="randmon", profile="release", args=["--mode", "floats"], group="floats"),
        dict(engine="randmon", profile="release", args=["--mode", "streams"], group="streams"),
        dict(engine="randmon", profile="dev", args=["--mode", "ranges"], group="ranges", label="randmon/dev/ranges (overflow checks on)"),
        dict(engine="randmon", profile="dev", args=["--mode", "floats"], group="floats", label="randmon/dev/floats"),
    ],
    floor=dict(quick=140_000, thorough=140_000),
    counter_floors=dict(quick=dict(draws_checked=200_000_000, reachability_checks=400_000, shuffles=4_000_000, serial_draws=400_000,
                                   float_range_families=16)),
    rule="one evaluation = one (type, start, end) checked in every applicable range form, one float range, one seed "
         "(determinism), one shuffle census (n, seed family) or one serial test (range length, seed); distinct_nontrivial = "
         "distinct non-empty (start<end) integer ranges, float ranges, seeds, censuses and serial tests.",
    assumptions=["finite float bounds with start < end", "ranges handed to the library are non-empty"],
)

prop(
    "C09",
    level="fault_enumeration",
    technique="fault-injecting Write sink + conservation hook: scripted partial writes and ErrorKind::Interrupted, expected "
              "stream = concatenation of std renderings, prefix / exact-after-flush-and-drop / conservation (sink + pending "
              "= expected, through the hook) monitors; read-back through the real Reader",
    level_text="Fault enumeration: every buffer fill level BUF-k, k = 0..=64, x 14 kinds of piece (1-byte to 2*BUF+3 bytes, "
               "every integer width at its longest rendering, tuples, vectors, macros) x 8 sink behaviours (full, 1-byte, "
               "7-byte, BUF/3, all-but-one accepts, Interrupted densities up to 50 %); every value of the 8- and 16-bit "
               "integer types and the 10^k / 2^k / MIN / MAX neighbourhoods of the wider ones against std formatting; "
               "strings around BUF; random sequences of 50-400 pieces against hostile sinks; drop without flush; and the "
               "produced text read back with the real Reader. Run in release (buffered path) and dev (flush-per-write path). Since the seeded rounds 3-4 also: digit-group boundary values anchored at every width's maximum, several writers alive at once, writers dropped by unwinding, sinks with a native write_vectored. Since the seeded rounds 5-6 also: interrupt bursts up to 65536, vectors of 65535..131073 elements, macro arguments with side effects (each argument expression evaluated exactly once), items that render to no bytes inside vectors and tuples. Since the seeded round 7 also: a writer that changes places with another one between writes (mem::swap), a sink that renders integers with a second Writer while it handles a call. Since the seeded round 8 also: values entering through the public trait method Writable::write(&value, &mut writer) followed by write_char, more than 2^32 bytes through one writer against a pattern-checking sink (both profiles).",
    level_note="Trusted: the scripted sink (never accepts 0 bytes of a non-empty buffer), std Display as the rendering "
               "reference, the pending-byte hook. The read-back avoids Interrupted and lone CR (C08's subject).",
    runs=[
        dict(engine="writemon", profile="release", args=[], group="all"),
        dict(engine="writemon", profile="dev", args=[], group="all", label="writemon/dev (flush-per-write path)"),
        dict(engine="writemon", profile="release", args=["--mode", "volume"], group="volume",
             label="writemon/release/volume (more than 2^32 bytes through one writer, pattern-checking sink)"),
        dict(engine="writemon", profile="dev", args=["--mode", "volume"], group="volume", label="writemon/dev/volume"),
        dict(engine="readmon", profile="release", args=["--mode", "interleaved-writers"], group="interleaved",
             label="readmon(interleaved-writers)/release: 2-3 writers alive at once, writes interleaved, partial + interrupted sink"),
        dict(engine="readmon", profile="dev", args=["--mode", "interleaved-writers", "--cases", "8000"], group="interleaved",
             label="readmon(interleaved-writers)/dev"),
    ],
    floor=dict(quick=14_000, thorough=300_000),
    counter_floors=dict(quick=dict(writes=1_400_000, partial_accepts=50_000_000, interrupted_calls=1_000_000, roundtrip_values=2_000_000,
                                   fill_levels_at_write_start=70)),
    rule="one evaluation = one writer lifetime (a sequence of writes against one scripted sink, monitors after every action, "
         "exact comparison after every flush and after drop); distinct_nontrivial = distinct cases in which the writer handed "
         "data to the sink during a write call and the sink answered at least one call with a partial accept or Interrupted.",
    assumptions=["ASCII strings and chars", "the sink never returns Ok(0) for a non-empty buffer and reports no error other than Interrupted"],
)

prop(
    "C04",
    level="exploration",
    technique="differential runtime monitor with a history twin: FFT results compared coefficient by coefficient with exact "
              "integer convolution (schoolbook / two-prime NTT + CRT), long-lived object versus fresh object per call, "
              "pre-filled destinations for the *_into variants",
    level_text="Exploration: all 40x40 length pairs, lengths 2^k-1 / 2^k / 2^k+1 and sums straddling the transform-size "
               "switch (k<=14 quick, <=20 thorough), ten value patterns (+-M constant, alternating, random, near-maximum, "
               "sparse spikes, one-hot, zeros) at the envelope's maximum, half and small magnitudes, every admissible corner "
               "cell of the crate's published table, both argument orders, f64 and f32; history twins (one object fed 5-30 "
               "calls of growing, shrinking, growing sizes incl. fft / fft_inv / *_into / clone / update_n versus a fresh "
               "object per call); *_into additivity into pre-filled longer / exact / shorter destinations; fft -> pointwise "
               "product -> fft_inv equals multiply; empty and single-element operands. Since the seeded rounds 3-4 also: operands that are two views of one allocation (b a prefix of a), the same vector transformed again at another size, clone_from, histories longer than 2^16 calls, three more octaves of 2^k x {1,2,3,17} products. Since the seeded rounds 5-6 also: zero-padded operands, operands with skewed signs (large negative next to small positive coefficients), large transforms followed by transforms of half / twice the size on one object. Since the seeded round 7 also: a transformer of the other precision used first on a fresh thread, then products at the edge of the envelope.",
    level_note="Trusted: the engine's schoolbook convolution and its NTT+CRT (self-checked against schoolbook at start-up; failure "
               "is inconclusive). The explored envelope is the INTERSECTION of the quantifier formula "
               "max(|a|,|b|)^2*min(la,lb) <= 1e12 (1e3 for f32) and the crate's own table (rlib_fft::precision, read at run "
               "time): strongly unbalanced lengths satisfy the formula alone but lie outside what the crate publishes, and "
               "are never judged. Sampling only - exactness for all vectors in the envelope is a numerical-analysis claim.",
    runs=[
        dict(engine="fftmon", profile="release", args=[], group="all", timeout=dict(quick=900, thorough=7200)),
        dict(engine="fftmon", profile="dev", args=["--light"], group="all", label="fftmon/dev/light (debug assertions on)"),
    ],
    floor=dict(quick=200_000, thorough=900_000),
    counter_floors=dict(quick=dict(coefficients_compared=100_000_000, history_twin_sequences=2_000, into_calls=30_000, roundtrip_calls=5_000,
                                   transform_sizes=14, margin_at_max=100_000)),
    rule="one evaluation = one library result (multiply / multiply_into / fft-product-fft_inv / fft_into / fft_inv_into) compared "
         "with the exact oracle; distinct_nontrivial = distinct inputs with both lengths >= 2 and magnitude >= 2.",
    assumptions=["inputs lie inside the intersection envelope described in level_note"],
)


prop(
    "C17",
    level="exploration",
    engines=["racemon"],
    setup_runs=[dict(engine="racemon", profile="release")],
    technique="sanitizers + history checker: the same share-nothing thread workload observed by Miri's data-race detector "
              "(many seeds), by ThreadSanitizer (nightly, -Zbuild-std, real threads) and by a native priority-stream "
              "history checker calibrated against a sequential reference stream",
    level_text="Exploration of schedules: (1) Miri, whose happens-before race detector reports the unsynchronised access "
               "whenever two threads touch shared state without synchronisation, over 16 (quick) / 128 (thorough) seeded "
               "schedules of 3-5 threads creating nodes through TreapNode::new, Treap::from_item and insert_at and "
               "splitting/merging their own treaps; (2) ThreadSanitizer over 3-5 runs of 9 real threads x 10^5 creations; "
               "(3) natively, 8 threads x 6*10^5 creations x 2 rounds with staggered starts: every thread's treap results "
               "must equal the same operations run alone, and its recorded priority stream must be the one a sequential "
               "execution produces (per-thread model) or all streams together must partition the sequential stream with "
               "no draw lost or duplicated (process-global model) - the model is decided by a sequential calibration phase "
               "against a reference stream drawn in a fresh process. Since the seeded rounds 3-4 also: coincidence schedule, first-use race over 240 (1500) fresh processes, node creation in thread-local destructors, 12 threads operating on 90 000-deep treaps at once. Since the seeded rounds 5-6 also: simultaneous first creations in an unoptimised child (the two-step read-advance race only shows without optimisation), 400 rounds x 16 threads, in-order walks of 90 000-deep treaps on 12 threads at once. Since the seeded round 7 also: workers named main / mixed names, the child confined to one CPU.",
    level_note="Trusted: Miri and TSan themselves; the calibration (if the reference stream is not reproducible or matches "
               "neither model the history sub-check declares itself not applicable and the verdict rests on the two "
               "sanitizers). Schedules are sampled, not enumerated; Miri workloads are small.",
    custom=custom.c17_custom,
    setup=custom.c17_setup,
    replay=custom.c17_replay,
    floor=dict(quick=20, thorough=100),
    counter_floors=dict(quick=dict(miri_runs_completed_clean=16, tsan_runs_clean=3, node_creations=9_000_000,
                                   overlapping_thread_pairs=40)),
    rule="one evaluation = one completed clean execution observed by a race detector (one Miri seed, one TSan run) or one "
         "contention round of the native history checker; distinct_nontrivial = distinct Miri seeds + TSan runs + rounds "
         "(every execution has at least two threads creating nodes at overlapping times; overlapping_thread_pairs is measured).",
    assumptions=["threads share no treap"],
)

prop(
    "C18",
    level="exploration",
    engines=["f80mon"],
    setup_runs=[dict(engine="f80mon", profile="release")],
    technique="offline checker over a recorded event log + online x87 state monitor: every real f80 operation is logged with "
              "operand and result bit patterns and replayed with exact integer/rational arithmetic (round-to-nearest-even "
              "to 64 bits, x87 exponent range, IEEE special cases); tag word / control word checked around every call",
    level_text="Exploration with an exhaustive sub-space: all ordered pairs of a boundary set of 178 f64 bit patterns (zeros, "
               "min/max subnormal, min normal, powers of two and both neighbours, 2^53+-1, long carry chains, 1/3-like "
               "patterns, huge/tiny exponents, infinities, NaN) under + - * / and their assigning forms, min, max, "
               "all six relations and partial_cmp; negation, abs and both conversions for every element; 25 000 random "
               "bit-pattern pairs and 20 000 chains of depth 2-4 whose intermediates need all 64 significand bits "
               "(x10 in thorough). Natively only: Miri cannot execute inline assembly and valgrind emulates x87 with 64-bit doubles. Since the seeded rounds 3-4 also: single doublings across the overflow / underflow thresholds, sums with exponent gaps 60..68 around every half-ulp boundary. Since the seeded rounds 5-6 also: aliased operands, the integers -130..1030, relations on operands handed by value to non-inlined functions, f80_init() executed first with the x87 control word compared before and after. Since the seeded round 7 also: first conversions of fresh threads (sentinel-like bit patterns, NaN payloads), round-trip conversions on eight threads at once. Since the seeded round 8 also: runs of six operations with one and the same divisor / factor / addend, integer operands around 2^31, 2^32 and sqrt(2^63) with their products.",
    level_note="Trusted: the Python oracle (exact big-integer arithmetic) and the assumption, checked at start-up, that the x87 "
               "control word selects extended precision and round-to-nearest. Zero results of + - * / and negation must carry "
               "the IEEE sign. Not judged because the property speaks about values there: the sign of a zero returned by "
               "abs/min/max, the NaN encoding, and which operand min/max return when one is NaN.",
    custom=custom.c18_custom,
    replay=custom.c18_replay,
    floor=dict(quick=700_000, thorough=5_000_000),
    counter_floors=dict(quick=dict(x87_state_checks=1_000_000, op_rel=70_000, op_div=50_000, relations_with_nan=500, relations_signed_zeros=4,
                                   results_subnormal=100, operand_class_combinations=140)),
    rule="one evaluation = one logged event (operation + operand bit patterns + result) replayed by the oracle; "
         "distinct_nontrivial = distinct (operation, operand class, operand class) combinations over the classes zero / "
         "subnormal / normal / inf / nan observed in the log.",
    assumptions=["x87 control word 0x037f (extended precision, round to nearest), verified at start-up"],
)

prop(
    "C20",
    level="exploration",
    engines=["lambdagen"],
    exhaustive_all=True,
    setup_runs=[dict(engine="lambdagen", profile="release")],
    technique="generated programs + trace comparison: a generator emits one function per macro shape containing the "
              "rec_lambda! closure and the equivalent hand-written recursion; the crate is compiled against the working "
              "tree and each pair is compared on return value, final capture state and recursion trace",
    level_text="Exhaustive over the shape grid: every sequence of 0..=4 captures over {&T, &mut T} (31 patterns, every order "
               "and interleaving) x 1..=4 arguments x {return type, none} x {f!(a,b), f!(a,b,)} = 496 shapes, each with six "
               "body variants (linear recursion, two recursive calls in one expression, non-integer capture types, mixed "
               "argument types with nested calls, reference-typed arguments &[u64] / &mut Vec<u64> with the closure called "
               "several times on borrows of different lifetimes, call name equal to a capture's or an argument's name) plus a "
               "28-shape sub-grid recursing 1.3 million frames deep = 2988 generated functions, compiled with the real macro "
               "twice (debug assertions off and on in the expanding crate) and executed on 6 inputs each; a compile error is mapped back to the shape it points into and reported as a violation of "
               "'compiles'. Since the seeded rounds 5-6 also: literal recursive-call arguments, 4.5 million early returns, capture types that are unsized ([u64] and str, also behind &mut), Cell behind a shared capture and Rc. Since the seeded round 7 also: the capture type Vec<&str> (a lifetime hidden in the type), a return type &u64 borrowed from the single shared capture. Since the seeded round 8 also: items declared inside the function that contains the invocation (const, fn, struct) used by the body.",
    level_note="Trusted: the generator's hand-written twin (same body text with the macro call replaced by a direct call "
               "passing the captures along). A compile failure that cannot be mapped into a generated shape is "
               "inconclusive. Shapes beyond 4 captures / 4 arguments and capture types with lifetimes are not generated.",
    custom=custom.c20_custom,
    setup=custom.c20_setup,
    floor=dict(quick=30_000, thorough=30_000),
    counter_floors=dict(quick=dict(shapes_executed=5976, capture_patterns=31, grid_cells=496, body_variants=7, generated_crate_profiles=2)),
    rule="one evaluation = one (shape, input) comparison of the macro closure with its hand-written twin; "
         "distinct_nontrivial = distinct shapes with >= 2 captures or >= 3 arguments or trailing-comma call syntax (the "
         "shapes the pinned tests never expand).",
    assumptions=["supported invocation space: captures ident: &T / ident: &mut T, at least one argument, optional return type"],
)
