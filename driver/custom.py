"""Property-specific drivers: C17 (Miri + ThreadSanitizer + native history checker), C18 (event log +
offline exact-arithmetic oracle), C20 setup."""
import json
import os
import re
import subprocess
import sys
import time
from concurrent.futures import ThreadPoolExecutor

from util import cargo_build, engine_path, run_watchdog, log

NIGHTLY = "nightly"


def _res(label, run, status, why="", result=None, wall=0.0, cmd="", tail=""):
    return dict(label=label, run=run, status=status, why=why, result=result, wall_s=wall, cmd=cmd, output_tail=tail)


def _empty_result(engine):
    return dict(engine=engine, counters={}, maxima={}, distinct={}, samples=[], violations_total=0, violations=[],
                inconclusive=[], extra={})


# =============================================================================================
# C17

MIRI_SHAPES_QUICK = [(2, 40), (3, 30)]
MIRI_SHAPES_THOROUGH = [(2, 60), (3, 40), (4, 30), (2, 120)]


def _miri_env(ctx, seeds):
    env = dict(ctx.env)
    env["MIRIFLAGS"] = "-Zmiri-many-seeds=%d..%d" % seeds
    return env


def c17_miri(ctx, tier, seed, workers, creations, nseeds):
    run = dict(engine="racemon", kind="miri", args=["--mode", "sanitizer", "--workers", str(workers), "--creations", str(creations)])
    label = "racemon/miri/%d workers x %d creations/%d seeds" % (workers, creations, nseeds)
    lo = (seed % 1000) * 1000
    seeds = (lo, lo + nseeds)
    cmd = ["cargo", "+" + NIGHTLY, "miri", "run", "-q", "-p", "racemon", "--", "--mode", "sanitizer", "--workers", str(workers),
           "--creations", str(creations)]
    rc, out, wall = run_watchdog(cmd, ctx.harness, _miri_env(ctx, seeds), 1800 if tier == "quick" else 7200)
    res = _empty_result("racemon(miri)")
    ok_runs = len(re.findall(r"WORKLOAD-OK", out))
    tried = len(re.findall(r"Trying seed:", out))
    if rc == 0 and "error" not in out and "WORKLOAD-MISMATCH" not in out:
        # -Zmiri-many-seeds exits non-zero if any seed fails; the seeds' stdout may interleave mid-line, so an exit
        # status of 0 without any error text means that every seed completed cleanly
        ok_runs = max(ok_runs, nseeds)
        tried = max(tried, nseeds)
    res["counters"] = dict(evaluations=ok_runs, miri_seeds_tried=tried, miri_runs_completed_clean=ok_runs)
    res["distinct"] = dict(nontrivial=ok_runs, miri_schedules=tried)
    res["extra"] = dict(miri_seed_range="%d..%d" % seeds, workers=workers + 1, creations_per_thread=creations)
    m = re.search(r"WORKLOAD-OK.*", out)
    if m:
        res["samples"] = [dict(miri_workload=m.group(0), seeds="%d..%d" % seeds)]
    races = re.findall(r"error: Undefined Behavior: (.*)", out)
    cmdline = "MIRIFLAGS=-Zmiri-many-seeds=%d..%d %s" % (seeds[0], seeds[1], " ".join(cmd))
    if races:
        first = races[0]
        in_repo = ("rlib_" in out) or ("/repo/rlib" in out)
        kind = "data_race" if "Data race" in first else "undefined_behaviour"
        frames = re.findall(r"^\s+\d+: (rlib_[\w:<>]+)", out, re.M)
        where = frames[0] if frames else "?"
        if in_repo:
            res["violations_total"] = len(races)
            res["violations"] = [dict(signature="miri:%s:%s" % (kind, where),
                                      detail=dict(what="Miri reports undefined behaviour while threads that share no treap create nodes",
                                                  report=first, first_library_frame=where, seeds_failed=len(races), command=cmdline,
                                                  excerpt=out[out.find("error: Undefined Behavior"):][:2500]),
                                      replay=["miri", str(workers), str(creations), str(seeds[0]), str(seeds[1])])]
            return _res(label, run, "violated", result=res, wall=wall, cmd=cmdline, tail=out[-2000:])
        return _res(label, run, "inconclusive", why="Miri reports UB outside the library: " + first, result=res, wall=wall, cmd=cmdline)
    if "WORKLOAD-MISMATCH" in out:
        res["violations_total"] = 1
        res["violations"] = [dict(signature="miri:treap_results_differ_under_concurrency", detail=dict(command=cmdline), replay=[])]
        return _res(label, run, "violated", result=res, wall=wall, cmd=cmdline)
    if rc is None:
        return _res(label, run, "inconclusive", why="Miri watchdog fired", result=res, wall=wall, cmd=cmdline)
    if rc != 0 or ok_runs < nseeds:
        return _res(label, run, "inconclusive", why="Miri did not complete cleanly (rc=%s, %d/%d seeds ok): %s" % (rc, ok_runs, nseeds, out[-1500:]),
                    result=res, wall=wall, cmd=cmdline)
    return _res(label, run, "held", result=res, wall=wall, cmd=cmdline)


def tsan_build(ctx):
    env = dict(ctx.env)
    env["RUSTFLAGS"] = "-Zsanitizer=thread"
    cmd = ["cargo", "+" + NIGHTLY, "build", "--offline", "-Zbuild-std", "--target", "x86_64-unknown-linux-gnu", "--release", "-p", "racemon",
           "--target-dir", os.path.join(ctx.target, "tsan")]
    t0 = time.time()
    r = subprocess.run(cmd, cwd=ctx.harness, env=env, stdout=subprocess.PIPE, stderr=subprocess.STDOUT, text=True)
    log("[build] racemon (ThreadSanitizer, -Zbuild-std) rc=%d %.1fs" % (r.returncode, time.time() - t0))
    return r.returncode == 0, r.stdout


def c17_tsan(ctx, tier, seed, reps, workers, creations):
    run = dict(engine="racemon", kind="tsan", args=["--mode", "sanitizer", "--workers", str(workers), "--creations", str(creations)])
    label = "racemon/tsan/%d x (%d workers x %d creations)" % (reps, workers, creations)
    ok, out = tsan_build(ctx)
    if not ok:
        return _res(label, run, "inconclusive", why="ThreadSanitizer build failed:\n" + out[-3000:])
    exe = os.path.join(ctx.target, "tsan", "x86_64-unknown-linux-gnu", "release", "racemon")
    env = dict(ctx.env)
    env["TSAN_OPTIONS"] = "halt_on_error=0 exitcode=66 second_deadlock_stack=1"
    res = _empty_result("racemon(tsan)")
    total_reports = 0
    dedup = {}
    clean = 0
    wall_all = 0.0
    outs = []
    for k in range(reps):
        cmd = [exe, "--mode", "sanitizer", "--workers", str(workers), "--creations", str(creations)]
        rc, o, wall = run_watchdog(cmd, ctx.harness, env, 900)
        wall_all += wall
        outs.append(o)
        reports = o.split("WARNING: ThreadSanitizer: data race")[1:]
        total_reports += len(reports)
        for rep in reports:
            loc = re.search(r"Location is global '([^']+)'", rep)
            frames = re.findall(r"#\d+ <?(rlib_[\w:]+)", rep)
            key = (loc.group(1) if loc else "?", frames[0] if frames else "?")
            dedup.setdefault(key, rep[:2500])
        if rc == 0 and "WORKLOAD-OK" in o and not reports:
            clean += 1
        elif rc is None:
            return _res(label, run, "inconclusive", why="TSan run watchdog fired", result=res, wall=wall_all)
        elif not reports and rc != 0:
            return _res(label, run, "inconclusive", why="TSan binary failed without a race report rc=%s: %s" % (rc, o[-1500:]), result=res, wall=wall_all)
    res["counters"] = dict(evaluations=clean, tsan_runs=reps, tsan_runs_clean=clean, tsan_race_reports=total_reports)
    res["distinct"] = dict(nontrivial=clean, tsan_distinct_reports=len(dedup))
    m = re.search(r"WORKLOAD-OK.*", outs[0]) if outs else None
    if m:
        res["samples"] = [dict(tsan_workload=m.group(0))]
    if dedup:
        in_repo = [(k, v) for k, v in dedup.items() if "rlib_" in k[0] or "rlib_" in k[1] or "rlib_" in v]
        if in_repo:
            res["violations_total"] = total_reports
            res["violations"] = [dict(signature="tsan:data_race:%s" % k[0],
                                      detail=dict(what="ThreadSanitizer reports a data race while threads that share no treap create nodes",
                                                  location=k[0], first_library_frame=k[1], reports=total_reports, excerpt=v),
                                      replay=["tsan", str(workers), str(creations)]) for k, v in in_repo[:5]]
            return _res(label, run, "violated", result=res, wall=wall_all, cmd=exe)
        return _res(label, run, "inconclusive", why="TSan reports outside the library: %s" % list(dedup)[:3], result=res, wall=wall_all)
    return _res(label, run, "held", result=res, wall=wall_all, cmd=exe + " --mode sanitizer ...")


def c17_stress(ctx, tier, seed, run_engine):
    """native behavioural history checker with a calibrated sequential reference stream"""
    ok, out = cargo_build(ctx, ["racemon"], "release")
    run = dict(engine="racemon", profile="release", args=["--mode", "stress"], group="stress")
    label = "racemon/release/stress (priority-stream history checker)"
    if not ok:
        return _res(label, run, "inconclusive", why="harness build failed:\n" + out[-3000:])
    exe = engine_path(ctx, "racemon", "release")
    # the child processes of the first-use / simultaneous-rounds phases run the UNOPTIMISED build (what `cargo test` runs):
    # the windows of lock-free code are widest there
    ok_u, out_u = cargo_build(ctx, ["racemon"], "unopt")
    if not ok_u:
        return _res(label, run, "inconclusive", why="harness build (profile unopt) failed:\n" + out_u[-3000:])
    exe_unopt = engine_path(ctx, "racemon", "unopt")
    os.makedirs(ctx.work, exist_ok=True)
    workers = 8
    per = 3_000_000 if tier == "thorough" else 600_000
    rounds = 5 if tier == "thorough" else 2
    # sequential reference execution in a fresh process (twice, to see whether it is reproducible): the main thread and
    # then 1 + workers*rounds threads, one after another, draw `draws` priorities each
    # (+ 96 short-lived threads of the long-lived-thread phase + 2 threads of the coincidence phase + 2 of the teardown phase)
    ref_threads = 1 + workers * rounds + 96 + 2 + 2
    draws = per + 256
    refs = []
    for k in range(2):
        p = os.path.join(ctx.work, "reference-%d-%d.bin" % (os.getpid(), k))
        rc, o, _ = run_watchdog([exe, "--mode", "reference-seq", "--ref-threads", str(ref_threads), "--draws", str(draws), "--ref-out", p],
                                ctx.harness, ctx.env, 900)
        if rc != 0:
            return _res(label, run, "inconclusive", why="reference stream process failed rc=%s: %s" % (rc, o[-1000:]))
        refs.append(p)
    same = open(refs[0], "rb").read() == open(refs[1], "rb").read()
    run = dict(run)
    run["args"] = ["--mode", "stress", "--reference", refs[0], "--ref-threads", str(ref_threads), "--reference-stable", "yes" if same else "no",
                   "--workers", str(workers), "--creations", str(per), "--rounds", str(rounds), "--child-exe", exe_unopt]
    r = run_engine(ctx, run, tier, seed, label=label)
    for p in refs:
        try:
            os.remove(p)
        except OSError:
            pass
    return r


def c17_custom(ctx, spec, tier, seed, run_engine):
    results = []
    shapes = MIRI_SHAPES_THOROUGH if tier == "thorough" else MIRI_SHAPES_QUICK
    nseeds = 64 if tier == "thorough" else 8
    # Miri runs are single-threaded interpreters: run the shapes side by side
    with ThreadPoolExecutor(max_workers=4) as ex:
        futs = [ex.submit(c17_miri, ctx, tier, seed + i, w, c, nseeds) for i, (w, c) in enumerate(shapes)]
        stress = c17_stress(ctx, tier, seed, run_engine)
        for f in futs:
            results.append(f.result())
    results.append(stress)
    results.append(c17_tsan(ctx, tier, seed, 10 if tier == "thorough" else 3, 8, 300_000 if tier == "thorough" else 100_000))
    return results


def c17_setup(ctx, spec):
    # warm the Miri and ThreadSanitizer builds (both need the nightly toolchain, both work offline)
    cmd = ["cargo", "+" + NIGHTLY, "miri", "run", "-q", "-p", "racemon", "--", "--mode", "sanitizer", "--workers", "1", "--creations", "2"]
    rc, out, wall = run_watchdog(cmd, ctx.harness, dict(ctx.env), 1800)
    log("[setup] miri warm-up rc=%s %.1fs" % (rc, wall))
    if rc != 0:
        sys.stderr.write(out[-3000:])
        return 2
    ok, out = tsan_build(ctx)
    if not ok:
        sys.stderr.write(out[-3000:])
        return 2
    return 0


def c17_replay(ctx, spec, rec, run_engine):
    a = rec.get("args", [])
    if a and a[0] == "miri":
        r = c17_miri(ctx, "quick", 0, int(a[1]), int(a[2]), int(a[4]) - int(a[3]))
    elif a and a[0] == "tsan":
        r = c17_tsan(ctx, "quick", 0, 2, int(a[1]), int(a[2]))
    else:
        r = c17_stress(ctx, rec.get("tier", "quick"), rec.get("seed", 1), run_engine)
    sys.stderr.write((r.get("output_tail") or "")[-3000:] + "\n")
    if r["status"] == "violated":
        for v in r["result"]["violations"]:
            log("reproduced: %s" % v["signature"])
        print("VIOLATION property=C17 replay=%s" % rec.get("_path", "?"), flush=True)
        return 1
    return 0 if r["status"] == "held" else 2


# =============================================================================================
# C18

def c18_custom(ctx, spec, tier, seed, run_engine):
    os.makedirs(ctx.work, exist_ok=True)
    ev = os.path.join(ctx.work, "f80-events-%d.txt" % os.getpid())
    run = dict(engine="f80mon", profile="release", args=["--events", ev], group="events")
    r = run_engine(ctx, run, tier, seed, label="f80mon/release (event recorder + x87 state monitor)")
    results = [r]
    if r["status"] in ("inconclusive", "crashed") or not os.path.exists(ev):
        return results
    # offline oracle, sharded
    shards = 16
    oracle = os.path.join(ctx.here, "oracle", "f80_oracle.py")
    t0 = time.time()
    procs = []
    for i in range(shards):
        o = os.path.join(ctx.work, "f80-oracle-%d-%d.json" % (os.getpid(), i))
        p = subprocess.Popen([sys.executable, oracle, ev, "--shard", "%d/%d" % (i, shards), "--out", o], stdout=subprocess.PIPE,
                             stderr=subprocess.STDOUT, text=True)
        procs.append((p, o))
    res = _empty_result("f80_oracle.py")
    counters = {}
    classes = set()
    viol = {}
    total = 0
    zs = 0
    failed = []
    for p, o in procs:
        try:
            out, _ = p.communicate(timeout=3600)
        except subprocess.TimeoutExpired:
            p.kill()
            failed.append("oracle shard timed out")
            continue
        if p.returncode != 0 or not os.path.exists(o):
            failed.append("oracle shard failed rc=%s: %s" % (p.returncode, (out or "")[-800:]))
            continue
        d = json.load(open(o))
        os.remove(o)
        for k, v in d["counters"].items():
            counters[k] = counters.get(k, 0) + v
        classes.update(d["operand_classes"])
        total += d["violations_total"]
        zs += d["zero_sign_differences"]
        for v in d["violations"]:
            viol.setdefault(v["signature"], v["detail"])
        if d.get("samples") and len(res["samples"]) < 3:
            res["samples"].extend(d["samples"][:1])
    wall = time.time() - t0
    try:
        os.remove(ev)
    except OSError:
        pass
    counters["evaluations"] = counters.get("events_checked", 0)
    counters["zero_sign_differences"] = zs
    res["counters"] = counters
    res["distinct"] = dict(nontrivial=len(classes), operand_class_combinations=len(classes))
    res["extra"] = dict(operand_class_combinations=sorted(classes)[:400], oracle="exact integer/rational replay, round-to-nearest-even to 64 bits",
                        shards=shards)
    res["violations_total"] = total
    res["violations"] = [dict(signature=k, detail=v, replay=["event", v.get("event", "")]) for k, v in list(viol.items())[:40]]
    orun = dict(engine="f80mon", kind="pyoracle", args=[], group="oracle")
    label = "oracle/f80_oracle.py (%d shards)" % shards
    if failed:
        results.append(_res(label, orun, "inconclusive", why="; ".join(failed[:3]), result=res, wall=wall))
    elif total:
        results.append(_res(label, orun, "violated", result=res, wall=wall, cmd=oracle))
    else:
        results.append(_res(label, orun, "held", result=res, wall=wall, cmd=oracle))
    return results


def c18_replay(ctx, spec, rec, run_engine):
    a = rec.get("args", [])
    detail = rec.get("detail") or {}
    ev = detail.get("event") if isinstance(detail, dict) else None
    if not ev:
        log("replay file has no event")
        return 2
    log("recorded event: " + ev)
    log("re-running the full recorder and oracle (events are regenerated from the current tree)")
    rs = c18_custom(ctx, spec, rec.get("tier", "quick"), rec.get("seed", 1), run_engine)
    bad = [r for r in rs if r["status"] == "violated"]
    for r in bad:
        for v in r["result"]["violations"]:
            log("violation: %s %s" % (v["signature"], json.dumps(v["detail"])[:400]))
    if bad:
        print("VIOLATION property=C18 replay=%s" % rec.get("_path", "?"), flush=True)
        return 1
    return 0 if all(r["status"] == "held" for r in rs) else 2


# =============================================================================================
# C20

def c20_dir(ctx):
    return os.path.join(ctx.harness, "gen", "lambda_shapes")


def c20_custom(ctx, spec, tier, seed, run_engine):
    run = dict(engine="lambdagen", profile="release", args=["--run", c20_dir(ctx)], group="shapes",
               timeout=dict(quick=1500, thorough=3000))
    return [run_engine(ctx, run, tier, seed, label="lambdagen/release (generated crate: 2988 macro shapes vs hand-written recursion, debug assertions off and on)")]


def c20_setup(ctx, spec):
    ok, out = cargo_build(ctx, ["lambdagen"], "release")
    if not ok:
        sys.stderr.write(out[-3000:])
        return 2
    exe = engine_path(ctx, "lambdagen", "release")
    rc, out, wall = run_watchdog([exe, "--run", c20_dir(ctx)], ctx.harness, ctx.env, 1500)
    log("[setup] generated lambda crate built rc=%s %.1fs" % (rc, wall))
    return 0 if rc in (0, 1) else 2


# =============================================================================================
# C03: the engine's runs as listed in props.py, plus the same random histories under Miri (items that own heap memory -
# the aggregate of WordItem is a Vec - make a double drop, a use after free or a read of a moved-out item undefined
# behaviour that the interpreter reports with a stack trace; natively they are at best a crash of the engine, which is
# inconclusive)


def c03_miri(ctx, tier, seed, cases, shard):
    run = dict(engine="treapmon", kind="miri", args=["--mode", "seq", "--cases", str(cases), "--threads", "1"])
    label = "treapmon/miri/seq %d histories (shard %d)" % (cases, shard)
    os.makedirs(ctx.work, exist_ok=True)
    outfile = os.path.join(ctx.work, "res-%d-treapmon-miri-%d.json" % (os.getpid(), shard))
    if os.path.exists(outfile):
        os.remove(outfile)
    cmd = ["cargo", "+" + NIGHTLY, "miri", "run", "--offline", "-q", "-p", "treapmon", "--", "--mode", "seq", "--cases", str(cases), "--threads", "1",
           "--tier", tier, "--seed", str(seed * 131 + shard), "--out", outfile]
    env = dict(ctx.env)
    env["MIRIFLAGS"] = "-Zmiri-disable-isolation -Zmiri-ignore-leaks"
    rc, out, wall = run_watchdog(cmd, ctx.harness, env, 1800 if tier == "quick" else 7200)
    cmdline = "MIRIFLAGS='%s' %s" % (env["MIRIFLAGS"], " ".join(cmd))
    res = None
    if os.path.exists(outfile):
        try:
            res = json.load(open(outfile))
        except Exception:
            res = None
        os.remove(outfile)
    ub = re.findall(r"error: Undefined Behavior: (.*)", out)
    if ub:
        r0 = _empty_result("treapmon(miri)")
        in_repo = ("rlib_treap" in out) or ("/repo/rlib" in out)
        frames = re.findall(r"^\s+\d+: (rlib_[\w:<>]+)", out, re.M)
        where = frames[0] if frames else "?"
        if in_repo:
            r0["violations_total"] = 1
            r0["violations"] = [dict(signature="miri:undefined_behaviour:%s" % where,
                                     detail=dict(what="Miri reports undefined behaviour inside the treap while a random history runs on items that own heap memory",
                                                 report=ub[0], first_library_frame=where, command=cmdline,
                                                 excerpt=out[out.find("error: Undefined Behavior"):][:2500]),
                                     replay=[])]
            return _res(label, run, "violated", result=r0, wall=wall, cmd=cmdline, tail=out[-2000:])
        return _res(label, run, "inconclusive", why="Miri reports UB outside the library: " + ub[0], result=r0, wall=wall, cmd=cmdline)
    if rc is None:
        return _res(label, run, "inconclusive", why="Miri watchdog fired", result=res, wall=wall, cmd=cmdline)
    if res is None or rc not in (0, 1, 2):
        return _res(label, run, "inconclusive", why="Miri run did not complete (rc=%s): %s" % (rc, out[-1500:]), result=res, wall=wall, cmd=cmdline)
    res.setdefault("counters", {})["miri_histories_completed"] = res.get("counters", {}).get("evaluations", 0)
    if res.get("violations_total", 0) > 0:
        return _res(label, run, "violated", result=res, wall=wall, cmd=cmdline)
    if res.get("inconclusive"):
        return _res(label, run, "inconclusive", why="; ".join(res["inconclusive"]), result=res, wall=wall, cmd=cmdline)
    return _res(label, run, "held", result=res, wall=wall, cmd=cmdline)


def c03_custom(ctx, spec, tier, seed, run_engine):
    results = []
    for run in spec["runs"]:
        if tier not in run.get("tiers", ("quick", "thorough")):
            continue
        results.append(run_engine(ctx, run, tier, seed))
    if tier == "quick":
        results.append(c03_miri(ctx, tier, seed, 14, 0))
    else:
        from concurrent.futures import ThreadPoolExecutor
        with ThreadPoolExecutor(max_workers=6) as ex:
            futs = [ex.submit(c03_miri, ctx, tier, seed, 40, k) for k in range(6)]
            results.extend(f.result() for f in futs)
    return results
