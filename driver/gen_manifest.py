#!/usr/bin/env python3
"""Regenerates /verif/MANIFEST.json from driver/props.py (single source of truth)."""
import json
import os
import subprocess
import sys

HERE = os.path.dirname(os.path.abspath(__file__))
ROOT = os.path.dirname(HERE)
sys.path.insert(0, HERE)
from props import PROPS, ORDER  # noqa: E402

ALL = ["C%02d" % i for i in range(1, 21)]

hook_commits = []
try:
    out = subprocess.run(["git", "-C", "/repo", "log", "--format=%H %s"], stdout=subprocess.PIPE, text=True).stdout
    for line in out.splitlines():
        h, s = line.split(" ", 1)
        if s.startswith("verif hook:"):
            hook_commits.append(h)
except Exception:
    pass

checks = []
engines = {}
for pid in ORDER:
    p = PROPS[pid]
    names = []
    for r in p.get("runs", []) + p.get("setup_runs", []):
        if r["engine"] not in names:
            names.append(r["engine"])
    for n in p.get("engines", []):
        if n not in names:
            names.append(n)
    for n in names:
        engines.setdefault(n, []).append(pid)
    checks.append(dict(
        property_id=pid,
        quick_cmd="./check %s --tier quick" % pid,
        thorough_cmd="./check %s --tier thorough" % pid,
        evidence_file="/verif/evidence/%s.json" % pid,
        replay_cmd_template="./check %s --replay {path}" % pid,
        engine="+".join(names),
        level_claimed=dict(category=p["level"], text=p["level_text"], design_ref=p.get("design_ref", "DESIGN.md section 4, " + pid)),
        level_note=p["level_note"],
        technique=p["technique"],
    ))

na = []
reasons = {}
try:
    reasons = json.load(open(os.path.join(HERE, "not_applicable.json")))
except Exception:
    pass
for pid in ALL:
    if pid not in PROPS:
        na.append(dict(property_id=pid, reason=reasons.get(pid, "monitor not implemented yet in this commit; not claimed")))

manifest = dict(
    version=1,
    setup_cmd="./check --setup",
    hooks=dict(
        guard="cargo feature `verif` (off by default) in rlib_segtree, rlib_dsu, rlib_io",
        enable="engine crates under /verif/harness depend on /repo/rlib/<crate> by path with features = [\"verif\"]",
        baseline_off_cmd="cd /repo && cargo test --workspace --no-fail-fast --offline",
        source_commits=list(reversed(hook_commits)),
        add_only=True,
    ),
    engines=[dict(name=n, path="/verif/harness/" + n, serves_properties=v,
                  kind_free_text="runtime monitor: real rlib code driven by a generated workload, judged by an independent oracle")
             for n, v in sorted(engines.items())],
    checks=checks,
    not_applicable=na,
    notes="Technique family: runtime monitoring and sanitizers. Exit 0 = held on everything observed, 1 = violation "
          "(VIOLATION line + replay file), 2 = inconclusive (never a VIOLATION line). VERIF_SEED / VERIF_TIER honoured. "
          "Known findings: /verif/KNOWN_FINDINGS.txt.",
)
with open(os.path.join(ROOT, "MANIFEST.json"), "w") as f:
    json.dump(manifest, f, indent=1)
    f.write("\n")
print("MANIFEST.json: %d checks, %d not claimed" % (len(checks), len(na)))
