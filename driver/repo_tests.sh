#!/bin/bash
# Runs the repository's own suite (guard off) and prints a pass/fail summary: "<passed> passed, <failed> failed".
cd /repo || exit 2
out=$(CARGO_NET_OFFLINE=true cargo test --workspace --no-fail-fast --offline "$@" 2>&1)
p=$(echo "$out" | grep -E "^test result" | sed -E 's/.* ([0-9]+) passed.*/\1/' | paste -sd+ | bc)
f=$(echo "$out" | grep -E "^test result" | sed -E 's/.* ([0-9]+) failed.*/\1/' | paste -sd+ | bc)
echo "$p passed, $f failed"
echo "$out" | grep -E "FAILED|panicked|^error" | head -20
[ "$f" = "0" ] && [ -n "$p" ]
