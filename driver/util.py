"""Shared helpers of the driver: logging, cargo builds, watchdog."""
import json
import os
import signal
import subprocess
import sys
import time

REPO = "/repo"


def log(*a):
    print(*a, file=sys.stderr, flush=True)


class Ctx:
    def __init__(self, here):
        self.here = here
        self.harness = os.path.join(here, "harness")
        self.target = os.path.join(self.harness, "target")
        self.evidence = os.path.join(here, "evidence")
        self.replays = os.path.join(here, "replays")
        self.work = os.path.join(self.target, "work")
        self.env = dict(os.environ)
        self.env["CARGO_NET_OFFLINE"] = "true"
        self.env.setdefault("CARGO_TERM_COLOR", "never")
        # a sanitizer/RUSTFLAGS setting inherited from the caller must not leak into normal builds
        for k in ("RUSTFLAGS", "CARGO_ENCODED_RUSTFLAGS", "MIRIFLAGS", "CARGO_BUILD_TARGET", "CARGO_TARGET_DIR"):
            self.env.pop(k, None)


# ---------------------------------------------------------------------------------------------
# building

_built = set()


def cargo_build(ctx, packages, profile, extra_env=None, extra_args=None, toolchain=None, timeout=1800):
    """Returns (ok, output)."""
    key = (tuple(sorted(packages)), profile, json.dumps(extra_env, sort_keys=True), tuple(extra_args or ()), toolchain)
    if key in _built:
        return True, ""
    cmd = ["cargo"]
    if toolchain:
        cmd.append("+" + toolchain)
    cmd += ["build", "--offline"]
    if profile == "release":
        cmd.append("--release")
    elif profile not in ("dev", "debug"):
        cmd += ["--profile", profile]
    for p in packages:
        cmd += ["-p", p]
    cmd += list(extra_args or ())
    env = dict(ctx.env)
    env.update(extra_env or {})
    t0 = time.time()
    try:
        r = subprocess.run(cmd, cwd=ctx.harness, env=env, stdout=subprocess.PIPE, stderr=subprocess.STDOUT,
                           text=True, timeout=timeout)
    except subprocess.TimeoutExpired as e:
        return False, "cargo build timed out after %ds\n%s" % (timeout, (e.stdout or ""))
    log("[build] %s profile=%s rc=%d %.1fs" % (" ".join(packages), profile, r.returncode, time.time() - t0))
    if r.returncode == 0:
        _built.add(key)
    return r.returncode == 0, r.stdout


def engine_path(ctx, engine, profile):
    sub = "release" if profile == "release" else ("debug" if profile in ("dev", "debug") else profile)
    return os.path.join(ctx.target, sub, engine)


# ---------------------------------------------------------------------------------------------
# running

def run_watchdog(cmd, cwd, env, timeout, stdout_path=None):
    """Runs cmd in its own process group; returns (rc or None on timeout, stdout+stderr text, wall)."""
    t0 = time.time()
    p = subprocess.Popen(cmd, cwd=cwd, env=env, stdout=subprocess.PIPE, stderr=subprocess.STDOUT, text=True,
                         start_new_session=True, errors="replace")
    try:
        out, _ = p.communicate(timeout=timeout)
        rc = p.returncode
    except subprocess.TimeoutExpired:
        try:
            os.killpg(p.pid, signal.SIGKILL)
        except ProcessLookupError:
            pass
        out, _ = p.communicate()
        rc = None
    return rc, out, time.time() - t0


