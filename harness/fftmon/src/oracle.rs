//! Exact integer convolution, independent of the code under test: schoolbook for small products of
//! lengths, two-prime NTT + CRT beyond. Harness code: a failure of its self-check is `inconclusive`.

use common::Rng;

pub const P1: u64 = 998_244_353; // 119 * 2^23 + 1, primitive root 3
pub const P2: u64 = 469_762_049; // 7 * 2^26 + 1, primitive root 3
pub const SCHOOLBOOK_LIMIT: u64 = 20_000_000;

pub fn schoolbook(a: &[i32], b: &[i32]) -> Vec<i64> {
    if a.is_empty() || b.is_empty() {
        return vec![];
    }
    // iterate the shorter operand outside
    let (s, l) = if a.len() <= b.len() { (a, b) } else { (b, a) };
    let mut c = vec![0i64; a.len() + b.len() - 1];
    for (i, &x) in s.iter().enumerate() {
        if x == 0 {
            continue;
        }
        let x = x as i64;
        let row = &mut c[i..i + l.len()];
        for (r, &y) in row.iter_mut().zip(l.iter()) {
            *r += x * y as i64;
        }
    }
    c
}

fn pw(mut b: u64, mut e: u64, p: u64) -> u64 {
    let mut r = 1u64;
    b %= p;
    while e > 0 {
        if e & 1 == 1 {
            r = r * b % p;
        }
        b = b * b % p;
        e >>= 1;
    }
    r
}

fn ntt(v: &mut [u64], inverse: bool, p: u64) {
    let n = v.len();
    assert!(n.is_power_of_two() && (p - 1) % n as u64 == 0, "NTT size not supported by the prime");
    let mut j = 0usize;
    for i in 1..n {
        let mut bit = n >> 1;
        while j & bit != 0 {
            j ^= bit;
            bit >>= 1;
        }
        j ^= bit;
        if i < j {
            v.swap(i, j);
        }
    }
    let mut len = 2;
    while len <= n {
        let mut w = pw(3, (p - 1) / len as u64, p);
        if inverse {
            w = pw(w, p - 2, p);
        }
        let half = len / 2;
        let mut ws = Vec::with_capacity(half);
        let mut cur = 1u64;
        for _ in 0..half {
            ws.push(cur);
            cur = cur * w % p;
        }
        for chunk in v.chunks_mut(len) {
            let (lo, hi) = chunk.split_at_mut(half);
            for k in 0..half {
                let x = lo[k];
                let y = hi[k] * ws[k] % p;
                lo[k] = if x + y >= p { x + y - p } else { x + y };
                hi[k] = if x >= y { x - y } else { x + p - y };
            }
        }
        len <<= 1;
    }
    if inverse {
        let ninv = pw(n as u64, p - 2, p);
        for x in v.iter_mut() {
            *x = *x * ninv % p;
        }
    }
}

fn conv_mod(a: &[i32], b: &[i32], n: usize, p: u64) -> Vec<u64> {
    let lift = |x: i32| -> u64 { (x as i64).rem_euclid(p as i64) as u64 };
    let mut fa = vec![0u64; n];
    let mut fb = vec![0u64; n];
    for (d, &x) in fa.iter_mut().zip(a) {
        *d = lift(x);
    }
    for (d, &x) in fb.iter_mut().zip(b) {
        *d = lift(x);
    }
    ntt(&mut fa, false, p);
    ntt(&mut fb, false, p);
    for (x, y) in fa.iter_mut().zip(&fb) {
        *x = *x * *y % p;
    }
    drop(fb);
    ntt(&mut fa, true, p);
    fa
}

/// exact as long as every |c_k| < P1*P2/2 (about 2.3e17)
pub fn conv_ntt(a: &[i32], b: &[i32]) -> Vec<i64> {
    if a.is_empty() || b.is_empty() {
        return vec![];
    }
    let m = a.len() + b.len() - 1;
    let mut n = 1;
    while n < m {
        n <<= 1;
    }
    let r1 = conv_mod(a, b, n, P1);
    let r2 = conv_mod(a, b, n, P2);
    let inv = pw(P1 % P2, P2 - 2, P2);
    let big = P1 * P2; // < 2^59
    let mut out = Vec::with_capacity(m);
    for k in 0..m {
        let (x1, x2) = (r1[k], r2[k]);
        let d = (x2 + P2 - x1 % P2) % P2;
        let t = d * inv % P2;
        let x = x1 + P1 * t; // in [0, P1*P2)
        out.push(if x > big / 2 { x as i64 - big as i64 } else { x as i64 });
    }
    out
}

pub fn conv(a: &[i32], b: &[i32]) -> Vec<i64> {
    if (a.len() as u64) * (b.len() as u64) <= SCHOOLBOOK_LIMIT {
        schoolbook(a, b)
    } else {
        conv_ntt(a, b)
    }
}

/// Start-up self-check of the NTT path against schoolbook. Err(text) = the harness oracle is broken.
pub fn self_check(seed: u64) -> Result<u64, String> {
    let mut rng = Rng::new(common::mix(&[seed, 0x0A11CE]));
    let mut checked = 0u64;
    for t in 0..200u64 {
        let cap = match t % 10 {
            0..=4 => 40,
            5..=7 => 400,
            8 => 1500,
            _ => 3000,
        };
        let la = rng.range_usize(1, cap);
        let lb = rng.range_usize(1, cap);
        let m: i64 = *rng.pick(&[1, 7, 1000, 31_622, 1_000_000]);
        let style = rng.below(4);
        let gen = |rng: &mut Rng, len: usize| -> Vec<i32> {
            (0..len)
                .map(|i| match style {
                    0 => m as i32,
                    1 => -(m as i32),
                    2 => {
                        if i % 2 == 0 {
                            m as i32
                        } else {
                            -(m as i32)
                        }
                    }
                    _ => rng.range_i64(-m, m) as i32,
                })
                .collect()
        };
        let a = gen(&mut rng, la);
        let b = gen(&mut rng, lb);
        let want = schoolbook(&a, &b);
        let got = conv_ntt(&a, &b);
        if want != got {
            let k = (0..want.len().min(got.len())).find(|&k| want[k] != got[k]);
            return Err(format!(
                "oracle self-check failed: NTT+CRT convolution differs from schoolbook (la={}, lb={}, M={}, style={}, first index {:?}, lens {} vs {})",
                la,
                lb,
                m,
                style,
                k,
                got.len(),
                want.len()
            ));
        }
        checked += 1;
    }
    // commutativity + a hand-computed literal
    if schoolbook(&[1, -2, 3], &[4, 5]) != vec![4, -3, 2, 15] || conv_ntt(&[4, 5], &[1, -2, 3]) != vec![4, -3, 2, 15] {
        return Err("oracle self-check failed on the literal (1-2x+3x^2)(4+5x)".into());
    }
    Ok(checked)
}
