//! Case context, evidence bookkeeping, input construction inside the envelope, the judge.

use crate::envelope::*;
use common::{hash_of, Json, Report, Rng};
use rlib_num_traits::Float;

pub trait MonF: Float + Send + Sync + 'static {
    const PREC: Prec;
    fn f(self) -> f64;
    fn of(x: f64) -> Self;
}
impl MonF for f64 {
    const PREC: Prec = Prec::F64;
    fn f(self) -> f64 {
        self
    }
    fn of(x: f64) -> Self {
        x
    }
}
impl MonF for f32 {
    const PREC: Prec = Prec::F32;
    fn f(self) -> f64 {
        self as f64
    }
    fn of(x: f64) -> Self {
        x as f32
    }
}

pub struct Cx<'a> {
    pub rep: &'a mut Report,
    pub prec: Prec,
    pub workload: &'static str,
    pub replay: Vec<String>,
    pub verbose: bool,
    /// library function being called (for "panic:<fn>")
    pub cur_fn: &'static str,
    /// previous operations of a history case
    pub history: Vec<String>,
}

/// library call with attribution of panics to the function named
#[macro_export]
macro_rules! call {
    ($cx:expr, $name:expr, $e:expr) => {{
        $cx.cur_fn = $name;
        let r = common::lib!($e);
        $cx.cur_fn = "";
        r
    }};
}

impl Cx<'_> {
    pub fn violation(&mut self, sig: String, d: Json) {
        let mut d = d.set("precision", self.prec.name()).set("workload", self.workload);
        if !self.history.is_empty() {
            let tail: Vec<String> = if self.history.len() > 40 { self.history[self.history.len() - 40..].to_vec() } else { self.history.clone() };
            d = d.set("previous_operations", Json::from(tail));
        }
        if self.verbose {
            eprintln!("  VIOLATION {}: {}", sig, d.dump());
        }
        self.rep.violation(sig, d, self.replay.clone());
    }
    pub fn say(&self, s: impl FnOnce() -> String) {
        if self.verbose {
            eprintln!("  {}", s());
        }
    }
}

#[derive(Clone, Copy, Debug, PartialEq)]
pub enum MagMode {
    AtMax,
    Half,
    Small,
    Asym,
    Rand,
}

impl MagMode {
    pub fn name(self) -> &'static str {
        match self {
            MagMode::AtMax => "at_max",
            MagMode::Half => "half",
            MagMode::Small => "small",
            MagMode::Asym => "asym_max",
            MagMode::Rand => "rand",
        }
    }
}

#[derive(Clone)]
pub struct Pair {
    pub a: Vec<i32>,
    pub b: Vec<i32>,
    pub pa: usize,
    pub pb: usize,
    /// requested magnitudes
    pub ma: i64,
    pub mb: i64,
    pub mode: &'static str,
}

impl Pair {
    pub fn swapped(&self) -> Pair {
        Pair { a: self.b.clone(), b: self.a.clone(), pa: self.pb, pb: self.pa, ma: self.mb, mb: self.ma, mode: self.mode }
    }
    pub fn describe(&self) -> String {
        format!(
            "la={} lb={} a:{}(M={}) b:{}(M={}) mode={} |a|inf={} |b|inf={}",
            self.a.len(),
            self.b.len(),
            PATTERNS[self.pa],
            self.ma,
            PATTERNS[self.pb],
            self.mb,
            self.mode,
            mag(&self.a),
            mag(&self.b)
        )
    }
    pub fn json(&self, p: Prec) -> Json {
        let (la, lb) = (self.a.len(), self.b.len());
        let (am, bm) = (mag(&self.a), mag(&self.b));
        let mut j = Json::obj()
            .set("la", la)
            .set("lb", lb)
            .set("pattern_a", PATTERNS[self.pa])
            .set("pattern_b", PATTERNS[self.pb])
            .set("M_a", self.ma)
            .set("M_b", self.mb)
            .set("magnitude_mode", self.mode)
            .set("max_abs_a", am)
            .set("max_abs_b", bm)
            .set("formula_value", formula_value(la, lb, am, bm))
            .set("formula_bound", p.formula_bound())
            .set("table_bound_on_max_len", table_bound(p, am, bm));
        if la + lb <= 80 {
            j = j.set("a", self.a.clone()).set("b", self.b.clone());
        }
        j
    }
}

pub fn loglen(rng: &mut Rng, lo: usize, hi: usize) -> usize {
    let x = rng.f64_range((lo as f64).ln(), ((hi + 1) as f64).ln()).exp() as usize;
    x.clamp(lo, hi)
}

/// Build (a, b) of the given lengths inside the envelope by construction; None if no magnitude is admissible for
/// these lengths (counted, never judged).
pub fn build_pair(cx: &mut Cx, rng: &mut Rng, la: usize, lb: usize, pa: usize, pb: usize, mode: MagMode) -> Option<Pair> {
    let p = cx.prec;
    let mm = match max_mag(p, la, lb) {
        Some(m) => m,
        None => {
            cx.rep.inc("skipped_no_admissible_magnitude");
            return None;
        }
    };
    let (mut ma, mut mb) = match mode {
        MagMode::AtMax => (mm, mm),
        MagMode::Half => ((mm / 2).max(1), (mm / 2).max(1)),
        MagMode::Small => (mm.min(1 + rng.below(10) as i64), mm.min(1 + rng.below(10) as i64)),
        MagMode::Rand => {
            let r = |rng: &mut Rng| (rng.f64_range(0.0, ((mm + 1) as f64).ln()).exp() as i64).clamp(1, mm);
            (r(rng), r(rng))
        }
        MagMode::Asym => {
            // one operand small (a grid value or a random value), the other as large as the intersection allows
            let small = if rng.chance(1, 2) {
                let cands: Vec<i64> = grid().iter().map(|&g| g as i64).filter(|&g| g <= mm).collect();
                if cands.is_empty() {
                    1
                } else {
                    *rng.pick(&cands)
                }
            } else {
                rng.range_i64(1, mm)
            };
            let big = max_b_given_a(p, la, lb, small).unwrap_or(mm).max(small);
            if rng.chance(1, 2) {
                (small, big)
            } else {
                (big, small)
            }
        }
    };
    if !inside(p, la, lb, ma, mb) {
        // possible only for a non-monotone table; fall back to the symmetric maximum
        ma = mm;
        mb = mm;
    }
    let a = gen_vec(rng, la, ma, pa);
    let b = gen_vec(rng, lb, mb, pb);
    if !inside(p, la, lb, mag(&a), mag(&b)) {
        cx.rep.inc("skipped_outside_envelope");
        return None;
    }
    Some(Pair { a, b, pa, pb, ma, mb, mode: mode.name() })
}

fn length_classes(len: usize) -> Vec<&'static str> {
    let mut v = Vec::new();
    if len >= 1 && len.is_power_of_two() {
        v.push("2^k");
    }
    if (len + 1).is_power_of_two() && len >= 1 {
        v.push("2^k-1");
    }
    if len >= 2 && (len - 1).is_power_of_two() {
        v.push("2^k+1");
    }
    if v.is_empty() {
        v.push("other");
    }
    v
}

pub fn transform_log2(la: usize, lb: usize) -> u32 {
    let mut n = 2usize;
    let mut k = 1;
    while n < la + lb - 1 {
        n *= 2;
        k += 1;
    }
    k
}

/// evidence of one judged multiplication
fn note_mult(cx: &mut Cx, pr: &Pair) {
    let p = cx.prec;
    let (la, lb) = (pr.a.len(), pr.b.len());
    let (am, bm) = (mag(&pr.a), mag(&pr.b));
    cx.rep.inc("evaluations");
    cx.rep.inc(if p == Prec::F64 { "multiplications_f64" } else { "multiplications_f32" });
    cx.rep.see_str("transform_sizes", &format!("{}", transform_log2(la, lb)));
    cx.rep.see_str("transform_sizes_by_precision", &format!("{}:{}", p.name(), transform_log2(la, lb)));
    for l in [la, lb] {
        for c in length_classes(l) {
            cx.rep.see_str("length_classes", c);
        }
    }
    cx.rep.see_str("patterns", PATTERNS[pr.pa]);
    cx.rep.see_str("patterns", PATTERNS[pr.pb]);
    cx.rep.see_str("pattern_pairs", &format!("{}|{}|{}", p.name(), pr.pa, pr.pb));
    let margin = match max_mag(p, la, lb) {
        Some(mm) if am.max(bm) >= mm => "at_max",
        Some(mm) if am.max(bm) * 2 >= mm => "half",
        _ => "small",
    };
    cx.rep.see_str("envelope_margin", margin);
    cx.rep.inc(&format!("margin_{}", margin));
    if (la.max(lb) as f64) >= table_bound(p, am, bm) {
        cx.rep.inc("at_table_length_bound");
    }
    cx.rep.max("max_len", la.max(lb) as i64);
    cx.rep.max(if p == Prec::F64 { "max_len_f64" } else { "max_len_f32" }, la.max(lb) as i64);
    cx.rep.max("max_magnitude", am.max(bm));
    cx.rep.max(if p == Prec::F64 { "max_magnitude_f64" } else { "max_magnitude_f32" }, am.max(bm));
    if la >= 2 && lb >= 2 && am >= 1 && bm >= 1 && am.max(bm) >= 2 {
        cx.rep.see("nontrivial", hash_of(&(p.id(), &pr.a, &pr.b)));
    }
}

/// Compare one library result with the exact convolution. `sig_override`: signature for coefficient mismatches
/// (default "multiply:<prec>:<workload>").
pub fn judge(cx: &mut Cx, what: &str, pr: &Pair, got: &[i64], want: &[i64], sig_override: Option<&str>) -> bool {
    let p = cx.prec;
    let (la, lb) = (pr.a.len(), pr.b.len());
    // sanity of the harness: never judge outside the intersection envelope
    assert!(inside(p, la, lb, mag(&pr.a), mag(&pr.b)), "harness: judged input outside the envelope: {}", pr.describe());
    note_mult(cx, pr);
    cx.rep.count("coefficients_compared", want.len() as u64);
    if got.len() != want.len() {
        let d = pr.json(p).set("what", what).set("got_len", got.len()).set("want_len", want.len());
        cx.violation(format!("length:{}:{}", p.name(), cx.workload), d);
        return false;
    }
    let mut first = None;
    let mut ndiff = 0u64;
    let mut maxerr: i128 = 0;
    for k in 0..want.len() {
        if got[k] != want[k] {
            ndiff += 1;
            if first.is_none() {
                first = Some(k);
            }
            let e = (got[k] as i128 - want[k] as i128).abs();
            if e > maxerr {
                maxerr = e;
            }
        }
    }
    if let Some(k) = first {
        let d = pr
            .json(p)
            .set("what", what)
            .set("first_differing_index", k)
            .set("got", got[k])
            .set("want", want[k])
            .set("differing_coefficients", ndiff)
            .set("coefficients", want.len())
            .set("max_abs_error", maxerr);
        let sig = match sig_override {
            Some(s) => s.to_string(),
            None => format!("multiply:{}:{}", p.name(), cx.workload),
        };
        cx.violation(sig, d);
        return false;
    }
    cx.say(|| format!("ok {:<28} {}", what, pr.describe()));
    true
}
