//! Workloads that judge plain `multiply`: pairs40, pow2_edges, pattern (random + envelope corners), empty.

use crate::call;
use crate::core::*;
use crate::envelope::*;
use crate::oracle;
use common::{mix, Json, Rng};
use rlib_fft::FFT;

pub fn case_rng(seed: u64, tag: u64, p: Prec, idx: u64) -> Rng {
    Rng::new(mix(&[seed, tag, p.id(), idx]))
}

/// multiply(a,b) and multiply(b,a), each on a fresh object, against the oracle
pub fn mult_both_orders<F: MonF>(cx: &mut Cx, pr: &Pair, want: &[i64]) {
    let got = {
        let mut f = call!(cx, "new", FFT::<F>::new());
        call!(cx, "multiply", f.multiply(&pr.a, &pr.b))
    };
    let ok1 = judge(cx, "multiply(a,b)", pr, &got, want, None);
    // the crate's table is not symmetric in (A, B): the swapped order is judged only if it is inside as well
    if !inside(cx.prec, pr.b.len(), pr.a.len(), mag(&pr.b), mag(&pr.a)) {
        cx.rep.inc("swapped_order_outside_envelope_not_judged");
        return;
    }
    let sw = pr.swapped();
    let got2 = {
        let mut f = call!(cx, "new", FFT::<F>::new());
        call!(cx, "multiply", f.multiply(&sw.a, &sw.b))
    };
    let ok2 = judge(cx, "multiply(b,a)", &sw, &got2, want, None);
    // operands that are two views of one allocation (b is a prefix of a, or the same slice): the call must not care
    if pr.b.len() <= pr.a.len() && pr.b[..] == pr.a[..pr.b.len()] {
        let lb = pr.b.len();
        let got3 = {
            let mut f = call!(cx, "new", FFT::<F>::new());
            call!(cx, "multiply", f.multiply(&pr.a[..], &pr.a[..lb]))
        };
        cx.rep.inc("aliased_operand_calls");
        judge(cx, "multiply(a, prefix of the same allocation)", pr, &got3, want, None);
        let got4 = {
            let mut f = call!(cx, "new", FFT::<F>::new());
            call!(cx, "multiply", f.multiply(&pr.a[..lb], &pr.a[..]))
        };
        judge(cx, "multiply(prefix of the same allocation, a)", &sw, &got4, want, None);
    }
    if ok1 && ok2 && cx.rep.wants_sample() && pr.a.len() + pr.b.len() <= 10 && pr.a.len() >= 2 && pr.b.len() >= 2 {
        let s = Json::obj()
            .set("workload", cx.workload)
            .set("precision", cx.prec.name())
            .set("a", pr.a.clone())
            .set("b", pr.b.clone())
            .set("multiply", got)
            .set("exact_convolution", want.to_vec());
        cx.rep.sample(s);
    }
}

// ------------------------------------------------------------------------------------------------
// (a) all length pairs 1..=40 x 1..=40, several value patterns each

pub const P40_VARIANTS: &[(usize, usize, MagMode)] = &[
    (0, 0, MagMode::AtMax),
    (1, 1, MagMode::AtMax),
    (0, 1, MagMode::AtMax),
    (2, 2, MagMode::AtMax),
    (2, 0, MagMode::AtMax),
    (3, 1, MagMode::AtMax),
    (4, 4, MagMode::AtMax),
    (6, 6, MagMode::AtMax),
    (5, 5, MagMode::AtMax),
    (4, 4, MagMode::Half),
    (4, 4, MagMode::Small),
    (7, 4, MagMode::AtMax),
    (8, 6, MagMode::AtMax),
    (9, 4, MagMode::AtMax),
    (6, 4, MagMode::Asym),
];
pub const P40_N: u64 = 40;

pub fn pairs40_total() -> u64 {
    P40_N * P40_N * P40_VARIANTS.len() as u64
}

pub fn pairs40<F: MonF>(cx: &mut Cx, idx: u64, seed: u64) {
    let nv = P40_VARIANTS.len() as u64;
    let (lp, v) = (idx / nv, (idx % nv) as usize);
    let (la, lb) = ((lp / P40_N) as usize + 1, (lp % P40_N) as usize + 1);
    let (pa, pb, mode) = P40_VARIANTS[v];
    let mut rng = case_rng(seed, 0xA40, cx.prec, idx);
    cx.rep.see("pairs40_length_pairs", mix(&[cx.prec.id(), la as u64, lb as u64]));
    if let Some(mut pr) = build_pair(cx, &mut rng, la, lb, pa, pb, mode) {
        make_prefix_pair(cx, &mut pr, idx);
        zero_pad(&mut pr, idx);
        sign_skew(&mut pr, idx);
        let want = oracle::conv(&pr.a, &pr.b);
        mult_both_orders::<F>(cx, &pr, &want);
    }
}

/// every eleventh case: one operand keeps its length but only a leading part of it is non-zero (zero-padded to a longer
/// stored length, as callers do who allocate to a power of two), or only a trailing part; magnitudes are unchanged or
/// smaller, so the pair stays inside the envelope
fn zero_pad(pr: &mut Pair, idx: u64) {
    if idx % 11 != 5 {
        return;
    }
    let which_a = idx % 2 == 0;
    let v = if which_a { &mut pr.a } else { &mut pr.b };
    let n = v.len();
    if n < 4 {
        return;
    }
    let keep = match (idx / 11) % 4 {
        0 => n / 4,
        1 => n / 2 - 1,
        2 => n / 3 + 1,
        _ => 1,
    }
    .max(1);
    if (idx / 44) % 3 == 0 {
        for x in v[..n - keep].iter_mut() {
            *x = 0;
        }
    } else {
        for x in v[keep..].iter_mut() {
            *x = 0;
        }
    }
}

/// every thirteenth case: one operand becomes sign-skewed - all of its large coefficients negative (or all positive),
/// the few of the other sign tiny - magnitudes unchanged, so the pair stays inside the envelope
fn sign_skew(pr: &mut Pair, idx: u64) {
    if idx % 13 != 7 {
        return;
    }
    let v = if idx % 2 == 0 { &mut pr.a } else { &mut pr.b };
    let neg = (idx / 13) % 2 == 0;
    for (i, x) in v.iter_mut().enumerate() {
        let big = if neg { -x.abs() } else { x.abs() };
        *x = if i % 9 == 4 { if neg { 1 } else { -1 } } else { big };
    }
}

/// every eighth case: b becomes a prefix of a (content-wise), so that the aliased calls of `mult_both_orders` apply;
/// kept only if the pair is still inside the envelope
fn make_prefix_pair(cx: &mut Cx, pr: &mut Pair, idx: u64) {
    if idx % 8 != 3 || pr.b.len() > pr.a.len() || pr.b.is_empty() {
        return;
    }
    let nb: Vec<i32> = pr.a[..pr.b.len()].to_vec();
    if inside(cx.prec, pr.a.len(), nb.len(), mag(&pr.a), mag(&nb)) && inside(cx.prec, nb.len(), pr.a.len(), mag(&nb), mag(&pr.a)) {
        pr.b = nb;
        pr.mb = pr.ma;
        pr.pb = pr.pa;
    }
}

// ------------------------------------------------------------------------------------------------
// (b) lengths 2^k-1, 2^k, 2^k+1 and pairs whose la+lb-1 straddles a power of two

pub const EDGE_SHAPES: u64 = 30;
pub const EDGE_REPS: u64 = 4;
pub const EDGE_KMAX: u64 = 20;

pub fn edges_decode(idx: u64) -> (u32, u64, u64) {
    let k = idx / (EDGE_SHAPES * EDGE_REPS) + 1;
    let shape = (idx / EDGE_REPS) % EDGE_SHAPES;
    let rep = idx % EDGE_REPS;
    (k as u32, shape, rep)
}
pub fn edges_encode(k: u32, shape: u64, rep: u64) -> u64 {
    ((k as u64 - 1) * EDGE_SHAPES + shape) * EDGE_REPS + rep
}

pub fn edges<F: MonF>(cx: &mut Cx, idx: u64, seed: u64) {
    let (k, shape, rep) = edges_decode(idx);
    let mut rng = case_rng(seed, 0xB0E, cx.prec, idx);
    let pw = 1usize << k;
    let (mut la, mut lb);
    if shape < 9 {
        la = pw + (shape / 3) as usize - 1;
        lb = pw + (shape % 3) as usize - 1;
    } else if shape < 21 {
        let t = shape - 9;
        la = pw + (t / 4) as usize - 1;
        lb = [1usize, 2, 3, 17][(t % 4) as usize];
        if rep % 2 == 1 {
            std::mem::swap(&mut la, &mut lb);
        }
    } else {
        let t = shape - 21;
        let total = pw + (t / 3) as usize; // la + lb, so la+lb-1 is 2^k-1, 2^k, 2^k+1
        la = match t % 3 {
            0 => total / 2,
            1 => rng.range_usize(1, total - 1),
            _ => rng.range_usize(1, 8.min(total - 1)),
        };
        lb = total - la;
        if rng.chance(1, 2) {
            std::mem::swap(&mut la, &mut lb);
        }
    }
    let hard = [0usize, 1, 2, 3, 6];
    let (pa, pb, mode) = if rep == 0 {
        (*rng.pick(&hard), *rng.pick(&hard), MagMode::AtMax)
    } else {
        let pat = |rng: &mut Rng| rng.weighted(&[3, 3, 3, 2, 4, 3, 4, 2, 2, 1]);
        let mode = *rng.pick(&[MagMode::AtMax, MagMode::AtMax, MagMode::Half, MagMode::Asym, MagMode::Rand]);
        (pat(&mut rng), pat(&mut rng), mode)
    };
    if let Some(mut pr) = build_pair(cx, &mut rng, la, lb, pa, pb, mode) {
        zero_pad(&mut pr, idx);
        cx.rep.see_str("edge_k_judged", &format!("{}:{}", cx.prec.name(), k));
        let want = oracle::conv(&pr.a, &pr.b);
        mult_both_orders::<F>(cx, &pr, &want);
    }
}

// ------------------------------------------------------------------------------------------------
// (c) random lengths, all pattern pairs, all magnitude modes

pub const PATTERN_CLASS_LMAX: [usize; 16] = [300, 300, 300, 300, 300, 300, 300, 300, 300, 5000, 5000, 5000, 5000, 40, 60_000, 400_000];

pub fn pattern<F: MonF>(cx: &mut Cx, idx: u64, seed: u64) {
    let class = (idx % 16) as usize;
    let lmax = PATTERN_CLASS_LMAX[class];
    let pa = ((idx / 16) % 10) as usize;
    let pb = ((idx / 160) % 10) as usize;
    let mut rng = case_rng(seed, 0xC0A, cx.prec, idx);
    let mode = [MagMode::AtMax, MagMode::Half, MagMode::Small, MagMode::Asym, MagMode::Rand][rng.weighted(&[8, 2, 2, 4, 3])];
    for _attempt in 0..12 {
        let la = loglen(&mut rng, 1, lmax);
        let lb = match rng.below(4) {
            0 => (la as i64 + rng.range_i64(-2, 2)).max(1) as usize,
            _ => loglen(&mut rng, 1, lmax),
        };
        if max_mag(cx.prec, la, lb).is_none() {
            continue;
        }
        if let Some(mut pr) = build_pair(cx, &mut rng, la, lb, pa, pb, mode) {
            make_prefix_pair(cx, &mut pr, idx / 16);
            zero_pad(&mut pr, idx / 16);
            sign_skew(&mut pr, idx / 16);
            let want = oracle::conv(&pr.a, &pr.b);
            mult_both_orders::<F>(cx, &pr, &want);
        }
        return;
    }
    cx.rep.inc("skipped_no_admissible_magnitude");
}

// ------------------------------------------------------------------------------------------------
// corners of the intersection: for every cell (A, B) of the crate's table, max(la,lb) = table bound (capped) and
// min(la,lb) = the largest value the formula admits, magnitudes exactly the grid values

pub const CORNER_PATS: &[(usize, usize)] = &[(0, 0), (1, 1), (0, 1), (2, 2), (6, 6), (4, 4), (5, 5), (2, 3)];
pub const CORNER_CAPS: [usize; 3] = [2_000, 20_000, 1_100_000];

pub fn corner_cells() -> u64 {
    (grid().len() * grid().len()) as u64
}
pub fn corner_encode(capclass: u64, cellpair: u64, orient: u64, patv: u64) -> u64 {
    let npc = CORNER_PATS.len() as u64;
    ((capclass * corner_cells() + cellpair) * 2 + orient) * npc + patv
}
pub fn corner_decode(idx: u64) -> (usize, usize, usize, u64, usize) {
    let npc = CORNER_PATS.len() as u64;
    let patv = (idx % npc) as usize;
    let orient = (idx / npc) % 2;
    let rest = idx / npc / 2;
    let cellpair = rest % corner_cells();
    let capclass = (rest / corner_cells()) as usize;
    let g = grid().len() as u64;
    (capclass, (cellpair / g) as usize, (cellpair % g) as usize, orient, patv)
}
/// lengths of the corner case; None when the cell is outside the intersection altogether
pub fn corner_lengths(p: Prec, capclass: usize, ca: usize, cb: usize, orient: u64) -> Option<(usize, usize, bool)> {
    let l = p.table()[ca][cb];
    if !(l >= 1.0) {
        return None;
    }
    let (am, bm) = (grid()[ca] as i64, grid()[cb] as i64);
    let mx = am.max(bm) as u128;
    let fmin = p.formula_bound() / (mx * mx);
    if fmin == 0 {
        return None;
    }
    let cap = CORNER_CAPS[capclass];
    let capped = l > cap as f64;
    let maxlen = if capped { cap } else { l as usize };
    let minlen = (fmin.min(maxlen as u128)) as usize;
    // orient 0: a (magnitude A) is the long operand
    Some(if orient == 0 { (maxlen, minlen, capped) } else { (minlen, maxlen, capped) })
}

pub fn corners<F: MonF>(cx: &mut Cx, idx: u64, seed: u64) {
    let p = cx.prec;
    let (capclass, ca, cb, orient, patv) = corner_decode(idx);
    let (la, lb, capped) = match corner_lengths(p, capclass, ca, cb, orient) {
        Some(x) => x,
        None => return,
    };
    let (am, bm) = (grid()[ca] as i64, grid()[cb] as i64);
    let (pa, pb) = CORNER_PATS[patv];
    let mut rng = case_rng(seed, 0xC0C, p, idx);
    let a = gen_vec(&mut rng, la, am, pa);
    let b = gen_vec(&mut rng, lb, bm, pb);
    if !inside(p, la, lb, mag(&a), mag(&b)) {
        cx.rep.inc("skipped_outside_envelope");
        return;
    }
    cx.rep.inc(if capped { "corner_cases_length_capped" } else { "corner_cases_exact_corner" });
    cx.rep.see("corner_cells_visited", mix(&[p.id(), ca as u64, cb as u64]));
    let pr = Pair { a, b, pa, pb, ma: am, mb: bm, mode: "table_corner" };
    let want = oracle::conv(&pr.a, &pr.b);
    mult_both_orders::<F>(cx, &pr, &want);
}

// ------------------------------------------------------------------------------------------------
// (g) empty and single-element operands

pub const EMPTY_CLASS_LMAX: [usize; 8] = [40, 40, 300, 300, 5000, 5000, 100_000, 1_000_000];

pub fn empty<F: MonF>(cx: &mut Cx, idx: u64, seed: u64) {
    let p = cx.prec;
    let mut rng = case_rng(seed, 0xE0E, p, idx);
    let lmax = EMPTY_CLASS_LMAX[(idx % 8) as usize];
    // L admissible for a 1 x L product at some magnitude
    let mut l = loglen(&mut rng, 1, lmax);
    while max_mag(p, 1, l).is_none() && l > 1 {
        l /= 2;
    }
    let pat = rng.weighted(&[3, 3, 3, 2, 4, 3, 4, 2, 2, 1]);
    let mode = *rng.pick(&[MagMode::AtMax, MagMode::AtMax, MagMode::Half, MagMode::Rand]);
    // --- empty operands -----------------------------------------------------------------------
    let mm = max_mag(p, 1, l).unwrap_or(1);
    let x = gen_vec(&mut rng, l, mm, pat);
    let e: Vec<i32> = vec![];
    let mut f = call!(cx, "new", FFT::<F>::new());
    if rng.chance(1, 2) {
        // a used object
        let _ = call!(cx, "multiply", f.multiply(&[1, 2, 3], &[4, 5]));
    }
    let checks: [(&str, &[i32], &[i32]); 3] = [("multiply([], x)", &e, &x), ("multiply(x, [])", &x, &e), ("multiply([], [])", &e, &e)];
    for (what, u, v) in checks {
        let got = call!(cx, "multiply", f.multiply(u, v));
        cx.rep.inc("evaluations");
        cx.rep.inc("empty_calls");
        if !got.is_empty() {
            let d = Json::obj().set("what", what).set("len_x", l).set("got_len", got.len()).set("want_len", 0);
            cx.violation(format!("length:{}:{}", p.name(), cx.workload), d);
        }
    }
    // multiply_into with an empty operand leaves the destination untouched
    for (what, u, v) in [("multiply_into([], x, res)", &e[..], &x[..]), ("multiply_into(x, [], res)", &x[..], &e[..]), ("multiply_into([], [], res)", &e[..], &e[..])] {
        let dl = match rng.below(4) {
            0 => 0,
            1 => l,
            _ => rng.range_usize(1, 2 * l + 3),
        };
        let pre: Vec<i64> = (0..dl).map(|_| rng.range_i64(-1_000_000_000_000_000, 1_000_000_000_000_000)).collect();
        let mut res = pre.clone();
        call!(cx, "multiply_into", f.multiply_into(u, v, &mut res));
        cx.rep.inc("evaluations");
        cx.rep.inc("empty_calls");
        cx.rep.inc("into_calls");
        if res != pre {
            let k = (0..dl).find(|&k| res[k] != pre[k]).unwrap();
            let d = Json::obj().set("what", what).set("len_x", l).set("dest_len", dl).set("first_changed_index", k).set("before", pre[k]).set("after", res[k]);
            cx.violation("into_untouched".to_string(), d);
        }
    }
    // the object is still sound after the empty calls
    let after = call!(cx, "multiply", f.multiply(&[1, -2, 3], &[4, 5]));
    let lit = Pair { a: vec![1, -2, 3], b: vec![4, 5], pa: 4, pb: 4, ma: 3, mb: 5, mode: "literal" };
    judge(cx, "multiply after empty calls", &lit, &after, &[4, -3, 2, 15], None);
    // --- single-element operands: 1x1, 1xL, Lx1 inside the intersection --------------------------
    let pat1 = rng.weighted(&[3, 3, 0, 0, 3, 1, 3, 0, 0, 1]);
    if let Some(pr) = build_pair(cx, &mut rng, 1, 1, pat1, pat, MagMode::AtMax) {
        let want = oracle::conv(&pr.a, &pr.b);
        cx.rep.inc("single_element_cases");
        mult_both_orders::<F>(cx, &pr, &want);
    }
    if let Some(pr) = build_pair(cx, &mut rng, 1, l, pat1, pat, mode) {
        let want = oracle::conv(&pr.a, &pr.b);
        cx.rep.inc("single_element_cases");
        mult_both_orders::<F>(cx, &pr, &want);
    }
}
