//! Workloads on the object's state and the secondary entry points: history twin, *_into variants,
//! fft -> pointwise product -> fft_inv.

use crate::call;
use crate::core::*;
use crate::envelope::*;
use crate::oracle;
use crate::work_mul::case_rng;
use common::{Json, Rng};
use rlib_fft::{Complex, FFT};

const PREFILL: i64 = 1_000_000_000_000_000;

fn tol<F: MonF>() -> f64 {
    match F::PREC {
        Prec::F64 => 1e-9,
        Prec::F32 => 1e-4,
    }
}

fn pow2_at_least(x: usize, min: usize) -> usize {
    let mut n = min;
    while n < x {
        n <<= 1;
    }
    n
}

/// run `f` on the given long-lived object, or on a fresh `FFT::new()` when there is none
fn on<F: MonF, R>(obj: &mut Option<&mut FFT<F>>, f: impl FnOnce(&mut FFT<F>) -> R) -> R {
    match obj {
        Some(o) => f(o),
        None => {
            let mut o = FFT::<F>::new();
            f(&mut o)
        }
    }
}

fn rand_pat(rng: &mut Rng) -> usize {
    rng.weighted(&[3, 3, 3, 2, 5, 3, 4, 2, 2, 1])
}
fn rand_mode(rng: &mut Rng) -> MagMode {
    [MagMode::AtMax, MagMode::Half, MagMode::Small, MagMode::Asym, MagMode::Rand][rng.weighted(&[8, 2, 2, 3, 3])]
}

/// lengths around a target scale for which some magnitude is admissible
fn pick_lengths(p: Prec, rng: &mut Rng, scale: usize) -> (usize, usize) {
    for _ in 0..12 {
        let la = match rng.below(3) {
            0 => loglen(rng, 1, scale),
            _ => ((scale as f64 * rng.f64_range(0.5, 1.0)) as usize).max(1),
        };
        let lb = match rng.below(3) {
            0 => la,
            1 => ((scale as f64 * rng.f64_range(0.5, 1.0)) as usize).max(1),
            _ => loglen(rng, 1, scale),
        };
        let (la, lb) = if rng.chance(1, 2) { (la, lb) } else { (lb, la) };
        if max_mag(p, la, lb).is_some() {
            return (la, lb);
        }
    }
    (1, 1)
}

fn random_pair(cx: &mut Cx, rng: &mut Rng, scale: usize) -> Option<Pair> {
    let (la, lb) = pick_lengths(cx.prec, rng, scale);
    let (pa, pb, mode) = (rand_pat(rng), rand_pat(rng), rand_mode(rng));
    build_pair(cx, rng, la, lb, pa, pb, mode)
}

// ------------------------------------------------------------------------------------------------
// (f) fft(a, n), fft(b, n), pointwise product, fft_inv

pub struct Trip<F: MonF> {
    pub fa: Vec<Complex<F>>,
    pub fb: Vec<Complex<F>>,
    pub prod: Vec<Complex<F>>,
    pub inv: Vec<i64>,
}

fn cdiff<F: MonF>(x: &[Complex<F>], y: &[Complex<F>]) -> Option<usize> {
    let scale = y.iter().map(|c| c.x.f().abs().max(c.y.f().abs())).fold(1.0f64, f64::max);
    if x.len() != y.len() {
        return Some(x.len().min(y.len()));
    }
    (0..x.len()).find(|&i| !((x[i].x.f() - y[i].x.f()).abs() <= tol::<F>() * scale && (x[i].y.f() - y[i].y.f()).abs() <= tol::<F>() * scale))
}

/// fft(a, n), fft(b, n), pointwise product, fft_inv - all on `obj`; the first la+lb-1 coefficients are judged against
/// the exact convolution, the remaining ones must be 0.
pub fn roundtrip<F: MonF>(cx: &mut Cx, obj: &mut FFT<F>, pr: &Pair, n: usize, want: &[i64], what: &str) -> Option<Trip<F>> {
    let p = cx.prec;
    let m = pr.a.len() + pr.b.len() - 1;
    assert!(n >= m && n.is_power_of_two());
    cx.rep.inc("roundtrip_calls");
    let fa = call!(cx, "fft", obj.fft(&pr.a, n));
    let fb = call!(cx, "fft", obj.fft(&pr.b, n));
    if fa.len() != n || fb.len() != n {
        let d = pr.json(p).set("what", format!("{}: fft(v, n) does not have n entries", what)).set("n", n).set("len_fft_a", fa.len()).set("len_fft_b", fb.len());
        cx.violation(format!("length:{}:{}", p.name(), cx.workload), d);
        return None;
    }
    let prod: Vec<Complex<F>> = fa.iter().zip(fb.iter()).map(|(&x, &y)| common::lib!(x * y)).collect();
    let inv = call!(cx, "fft_inv", obj.fft_inv(&prod));
    if inv.len() != n {
        let d = pr.json(p).set("what", format!("{}: fft_inv(v) does not have v.len() entries", what)).set("n", n).set("got_len", inv.len());
        cx.violation(format!("length:{}:{}", p.name(), cx.workload), d);
        return None;
    }
    judge(cx, what, pr, &inv[..m], want, None);
    if let Some(k) = (m..n).find(|&k| inv[k] != 0) {
        let nz = (m..n).filter(|&k| inv[k] != 0).count();
        let d = pr
            .json(p)
            .set("what", format!("{}: coefficient beyond la+lb-1 is not 0", what))
            .set("n", n)
            .set("first_differing_index", k)
            .set("got", inv[k])
            .set("want", 0)
            .set("differing_coefficients", nz);
        cx.violation(format!("multiply:{}:{}", p.name(), cx.workload), d);
    }
    Some(Trip { fa, fb, prod, inv })
}

/// The twin of a roundtrip: every call repeated on a FRESH `FFT::new()`. Same inputs (for fft_inv: the very same
/// spectrum), so the outputs must agree with those of the object that ran the whole roundtrip.
pub fn fresh_twin_of_roundtrip<F: MonF>(cx: &mut Cx, pr: &Pair, n: usize, t: &Trip<F>, want: &[i64]) {
    let p = cx.prec;
    cx.rep.inc("fresh_twin_calls");
    for (name, v, used) in [("a", &pr.a, &t.fa), ("b", &pr.b, &t.fb)] {
        let fresh = {
            let mut o = call!(cx, "new", FFT::<F>::new());
            call!(cx, "fft", o.fft(v, n))
        };
        if let Some(i) = cdiff(&fresh, used) {
            let d = pr
                .json(p)
                .set("what", format!("fft({}, n) on a fresh object differs from fft({}, n) on the used object", name, name))
                .set("n", n)
                .set("index", i)
                .set("fresh", format!("{:?}", fresh.get(i)))
                .set("used", format!("{:?}", used.get(i)));
            cx.violation("history_dependence:fft".to_string(), d);
        }
    }
    let inv = {
        let mut o = call!(cx, "new", FFT::<F>::new());
        call!(cx, "fft_inv", o.fft_inv(&t.prod))
    };
    if inv != t.inv {
        let k = (0..inv.len().min(t.inv.len())).find(|&k| inv[k] != t.inv[k]).unwrap_or(0);
        let nd = (0..inv.len().min(t.inv.len())).filter(|&k| inv[k] != t.inv[k]).count();
        let d = pr
            .json(p)
            .set("what", "fft_inv(spectrum) on a fresh FFT::new() differs from fft_inv of the SAME spectrum on the object that computed it (which had grown its tables to n)")
            .set("n", n)
            .set("first_differing_index", k)
            .set("fresh", inv.get(k).cloned())
            .set("used", t.inv.get(k).cloned())
            .set("want", if k < want.len() { want[k] } else { 0 })
            .set("differing_coefficients", nd)
            .set("note", "reading of fft.rs: fft_inv_into takes max_n = reversed.len() and step = max_n / n BEFORE any update_n; tables only grow inside fft_internal(n/2). On an object whose tables are shorter than n, step is 0 and every twiddle is w[start]");
        cx.violation("history_dependence:fft_inv".to_string(), d);
    }
}

/// n = 0 means auto size: smallest power of two >= len
pub fn check_auto_size<F: MonF>(cx: &mut Cx, mut obj: Option<&mut FFT<F>>, v: &[i32]) {
    let p = cx.prec;
    let want_n = pow2_at_least(v.len(), 1);
    let got = call!(cx, "fft", on(&mut obj, |o| o.fft(v, 0)));
    cx.rep.inc("auto_size_checks");
    if got.len() != want_n {
        let d = Json::obj().set("what", "fft(v, 0) must have the smallest power of two >= v.len() entries").set("len_v", v.len()).set("got_len", got.len()).set("want_len", want_n);
        cx.violation(format!("length:{}:{}", p.name(), cx.workload), d);
        return;
    }
    // same values as with the size given explicitly (fresh object)
    let reference = {
        let mut o = call!(cx, "new", FFT::<F>::new());
        call!(cx, "fft", o.fft(v, want_n))
    };
    let scale = reference.iter().map(|c| c.x.f().abs().max(c.y.f().abs())).fold(1.0f64, f64::max);
    if let Some(i) = (0..want_n).find(|&i| !((got[i].x.f() - reference[i].x.f()).abs() <= tol::<F>() * scale && (got[i].y.f() - reference[i].y.f()).abs() <= tol::<F>() * scale)) {
        let d = Json::obj()
            .set("what", "fft(v, 0) differs from fft(v, n) with n given explicitly on a fresh object")
            .set("len_v", v.len())
            .set("index", i)
            .set("got", format!("{:?}", got[i]))
            .set("fresh", format!("{:?}", reference[i]));
        cx.violation("history_dependence:fft".to_string(), d);
    }
}

/// smallest literal roundtrip whose inverse transform (n = 8) is larger than the tables of a fresh object
pub fn literal_case<F: MonF>(cx: &mut Cx, idx: u64) {
    let lits: [(&[i32], &[i32]); 3] = [(&[1, 1, 1], &[1, 1, 1]), (&[1, -2, 3], &[4, 5]), (&[3, 0, -1, 2, 5], &[-2, 7, 1, 1])];
    let (a, b) = lits[(idx % 3) as usize];
    let pr = Pair { a: a.to_vec(), b: b.to_vec(), pa: 4, pb: 4, ma: mag(a), mb: mag(b), mode: "literal" };
    let want = oracle::schoolbook(a, b);
    let n = pow2_at_least(want.len(), 1);
    let direct = {
        let mut f = call!(cx, "new", FFT::<F>::new());
        call!(cx, "multiply", f.multiply(a, b))
    };
    judge(cx, "multiply(a,b)", &pr, &direct, &want, None);
    let mut one = call!(cx, "new", FFT::<F>::new());
    if let Some(t) = roundtrip::<F>(cx, &mut one, &pr, n, &want, "fft,fft,product,fft_inv (one object)") {
        fresh_twin_of_roundtrip::<F>(cx, &pr, n, &t, &want);
        let s = Json::obj().set("workload", "literal roundtrip").set("precision", cx.prec.name()).set("a", a.to_vec()).set("b", b.to_vec()).set("n", n).set("fft_inv_of_product_of_ffts", t.inv.clone()).set("multiply", direct).set("exact_convolution", want.clone());
        cx.rep.sample(s);
    }
}

pub fn roundtrip_case<F: MonF>(cx: &mut Cx, idx: u64, seed: u64) {
    let p = cx.prec;
    let mut rng = case_rng(seed, 0xF0F, p, idx);
    let scale = [40usize, 40, 300, 300, 300, 300, 3000, 30_000][(idx % 8) as usize];
    let pr = match random_pair(cx, &mut rng, scale) {
        Some(x) => x,
        None => return,
    };
    let want = oracle::conv(&pr.a, &pr.b);
    let m = want.len();
    let nmin = pow2_at_least(m, 1);
    // a larger transform only if two operands of length n/2 with these magnitudes are inside the envelope as well
    let mut n = nmin;
    let grow = rng.below(3);
    for _ in 0..grow {
        if inside(p, n, n, mag(&pr.a), mag(&pr.b)) {
            n *= 2;
        }
    }
    cx.rep.see_str("roundtrip_oversize", if n == nmin { "n_minimal" } else { "n_larger" });
    let direct = {
        let mut f = call!(cx, "new", FFT::<F>::new());
        call!(cx, "multiply", f.multiply(&pr.a, &pr.b))
    };
    judge(cx, "multiply(a,b)", &pr, &direct, &want, None);
    // one object for all three calls (judged), then the fresh-object-per-call twin
    let mut one = call!(cx, "new", FFT::<F>::new());
    if let Some(t) = roundtrip::<F>(cx, &mut one, &pr, n, &want, "fft,fft,product,fft_inv (one object)") {
        if t.inv[..m] != direct[..] && direct.len() == m {
            // both were compared with the oracle above; this is the property's own wording
            cx.rep.inc("roundtrip_differs_from_multiply");
        }
        fresh_twin_of_roundtrip::<F>(cx, &pr, n, &t, &want);
    }
    check_auto_size::<F>(cx, None, &pr.a);
    check_auto_size::<F>(cx, Some(&mut one), &pr.b);
    if idx % 16 == 0 {
        check_auto_size::<F>(cx, Some(&mut one), &[]);
    }
}

// ------------------------------------------------------------------------------------------------
// (e) accumulate-into variants

/// variant: 0 longer destination, 1 exact, 2 shorter, 3 two calls into the same destination
pub fn check_multiply_into<F: MonF>(cx: &mut Cx, obj: &mut FFT<F>, pr: &Pair, want: &[i64], rng: &mut Rng, variant: u64) {
    let m = want.len();
    let dl = match variant {
        0 => m + if rng.chance(1, 3) { rng.range_usize(1, 4 * m + 8) } else { rng.range_usize(1, 20) },
        1 | 3 => m,
        _ => rng.range_usize(0, m - 1),
    };
    let pre: Vec<i64> = (0..dl).map(|_| rng.range_i64(-PREFILL, PREFILL)).collect();
    let mut res = pre.clone();
    let times: i64 = if variant == 3 { 2 } else { 1 };
    for _ in 0..times {
        cx.rep.inc("into_calls");
        call!(cx, "multiply_into", obj.multiply_into(&pr.a, &pr.b, &mut res));
    }
    cx.rep.see_str("into_variants", ["multiply_into:longer", "multiply_into:exact", "multiply_into:shorter", "multiply_into:twice"][variant as usize]);
    let q = dl.min(m);
    let diff: Vec<i64> = (0..q).map(|k| res[k] - pre[k]).collect();
    let w: Vec<i64> = want[..q].iter().map(|&x| x * times).collect();
    let what = format!("multiply_into: res - prefill (dest len {}, result len {}, {} call(s))", dl, m, times);
    judge(cx, &what, pr, &diff, &w, Some("into_additive"));
    if let Some(k) = (q..dl).find(|&k| res[k] != pre[k]) {
        let d = pr.json(cx.prec).set("what", "multiply_into changed a destination cell beyond la+lb-1").set("dest_len", dl).set("index", k).set("before", pre[k]).set("after", res[k]);
        cx.violation("into_untouched".to_string(), d);
    }
}

pub fn check_fft_into<F: MonF>(cx: &mut Cx, obj: &mut FFT<F>, v: &[i32], n_arg: usize, rng: &mut Rng) {
    let p = cx.prec;
    let n_eff = if n_arg == 0 { pow2_at_least(v.len(), 1) } else { n_arg };
    assert!(v.len() <= n_eff && n_eff.is_power_of_two());
    let reference = {
        let mut o = call!(cx, "new", FFT::<F>::new());
        call!(cx, "fft", o.fft(v, n_arg))
    };
    if reference.len() != n_eff {
        let d = Json::obj().set("what", "fft(v, n) length").set("len_v", v.len()).set("n_arg", n_arg).set("got_len", reference.len()).set("want_len", n_eff);
        cx.violation(format!("length:{}:{}", p.name(), cx.workload), d);
        return;
    }
    let dl = match rng.below(5) {
        0 => n_eff + 3,
        1 => n_eff / 2,
        _ => n_eff,
    };
    let pre: Vec<Complex<F>> = (0..dl).map(|_| Complex::new(F::of(rng.f64_range(-1000.0, 1000.0)), F::of(rng.f64_range(-1000.0, 1000.0)))).collect();
    let mut res = pre.clone();
    cx.rep.inc("into_calls");
    cx.rep.see_str("into_variants", if dl > n_eff { "fft_into:longer" } else if dl < n_eff { "fft_into:shorter" } else { "fft_into:exact" });
    call!(cx, "fft_into", obj.fft_into(v, n_arg, &mut res));
    let scale = reference.iter().map(|c| c.x.f().abs().max(c.y.f().abs())).fold(1000.0f64, f64::max);
    let q = dl.min(n_eff);
    let bad = (0..q).find(|&i| {
        let ex = pre[i].x.f() + reference[i].x.f();
        let ey = pre[i].y.f() + reference[i].y.f();
        !((res[i].x.f() - ex).abs() <= tol::<F>() * scale && (res[i].y.f() - ey).abs() <= tol::<F>() * scale)
    });
    if let Some(i) = bad {
        let d = Json::obj()
            .set("what", "fft_into: res[i] != prefill[i] + fft(v, n)[i]")
            .set("len_v", v.len())
            .set("n_arg", n_arg)
            .set("dest_len", dl)
            .set("index", i)
            .set("prefill", format!("{:?}", pre[i]))
            .set("fft", format!("{:?}", reference[i]))
            .set("got", format!("{:?}", res[i]))
            .set("tolerance", tol::<F>() * scale);
        cx.violation("into_additive".to_string(), d);
    }
    if let Some(i) = (q..dl).find(|&i| res[i] != pre[i]) {
        let d = Json::obj().set("what", "fft_into changed a destination cell beyond n").set("n", n_eff).set("dest_len", dl).set("index", i).set("before", format!("{:?}", pre[i])).set("after", format!("{:?}", res[i]));
        cx.violation("into_untouched".to_string(), d);
    }
}

pub fn check_fft_inv_into<F: MonF>(cx: &mut Cx, obj: &mut FFT<F>, pr: &Pair, want: &[i64], rng: &mut Rng) {
    let p = cx.prec;
    let m = want.len();
    let n = pow2_at_least(m, 1);
    // the spectrum comes from another object (which thereby has grown its tables to n)
    let mut grown = call!(cx, "new", FFT::<F>::new());
    let (fa, fb) = (call!(cx, "fft", grown.fft(&pr.a, n)), call!(cx, "fft", grown.fft(&pr.b, n)));
    if fa.len() != n || fb.len() != n {
        return; // reported by the roundtrip / fft_into checks
    }
    let prod: Vec<Complex<F>> = fa.iter().zip(fb.iter()).map(|(&x, &y)| common::lib!(x * y)).collect();
    let dl = match rng.below(5) {
        0 => n + rng.range_usize(1, 9),
        1 => m,
        2 => rng.range_usize(0, n),
        _ => n,
    };
    let pre: Vec<i64> = (0..dl).map(|_| rng.range_i64(-PREFILL, PREFILL)).collect();
    let mut res = pre.clone();
    let before = call!(cx, "clone", obj.clone());
    cx.rep.inc("into_calls");
    cx.rep.see_str("into_variants", if dl > n { "fft_inv_into:longer" } else if dl < n { "fft_inv_into:shorter" } else { "fft_inv_into:exact" });
    call!(cx, "fft_inv_into", obj.fft_inv_into(&prod, &mut res));
    let q = dl.min(n);
    let diff: Vec<i64> = (0..q).map(|k| res[k] - pre[k]).collect();
    let w: Vec<i64> = (0..q).map(|k| if k < m { want[k] } else { 0 }).collect();
    let what = format!("fft_inv_into: res - prefill (dest len {}, n {})", dl, n);
    if diff == w {
        judge(cx, &what, pr, &diff, &w, Some("into_additive"));
    } else {
        // classify: (1) not additive: differs from the plain fft_inv of an object in the same state;
        // (2) additive but the value depends on the object's history: the object that computed the spectrum is right;
        // (3) neither: precision failure of the transform path itself
        let mut same_state = before;
        let plain = call!(cx, "fft_inv", same_state.fft_inv(&prod));
        let reference = call!(cx, "fft_inv", grown.fft_inv(&prod));
        let wfull: Vec<i64> = (0..n).map(|k| if k < m { want[k] } else { 0 }).collect();
        if plain.len() < q || plain[..q] != diff[..] {
            judge(cx, &what, pr, &diff, &w, Some("into_additive"));
        } else if reference == wfull {
            cx.rep.inc("evaluations");
            let k = (0..q).find(|&k| diff[k] != w[k]).unwrap();
            let nd = (0..q).filter(|&k| diff[k] != w[k]).count();
            let d = pr
                .json(p)
                .set("what", "fft_inv_into(spectrum) on this object is additive but wrong, while fft_inv of the SAME spectrum on the object that computed it (tables grown to n) is exact")
                .set("n", n)
                .set("first_differing_index", k)
                .set("got", diff[k])
                .set("want", w[k])
                .set("differing_coefficients", nd);
            cx.violation("history_dependence:fft_inv".to_string(), d);
        } else {
            let sig = format!("multiply:{}:{}", p.name(), cx.workload);
            judge(cx, &what, pr, &diff, &w, Some(&sig));
        }
    }
    if let Some(k) = (q..dl).find(|&k| res[k] != pre[k]) {
        let d = pr.json(cx.prec).set("what", "fft_inv_into changed a destination cell beyond n").set("n", n).set("dest_len", dl).set("index", k).set("before", pre[k]).set("after", res[k]);
        cx.violation("into_untouched".to_string(), d);
    }
}

pub fn into_case<F: MonF>(cx: &mut Cx, idx: u64, seed: u64) {
    let p = cx.prec;
    let mut rng = case_rng(seed, 0xE1E, p, idx);
    let scale = [40usize, 40, 40, 300, 300, 300, 300, 300, 300, 5000][(idx % 10) as usize];
    let pr = match random_pair(cx, &mut rng, scale) {
        Some(x) => x,
        None => return,
    };
    let want = oracle::conv(&pr.a, &pr.b);
    let direct = {
        let mut f = call!(cx, "new", FFT::<F>::new());
        call!(cx, "multiply", f.multiply(&pr.a, &pr.b))
    };
    judge(cx, "multiply(a,b)", &pr, &direct, &want, None);
    for variant in 0..4u64 {
        if variant == 2 && want.len() < 1 {
            continue;
        }
        let mut f = call!(cx, "new", FFT::<F>::new());
        check_multiply_into::<F>(cx, &mut f, &pr, &want, &mut rng, variant);
    }
    {
        let mut f = call!(cx, "new", FFT::<F>::new());
        let nmin = pow2_at_least(pr.a.len(), 1);
        let n_arg = match rng.below(3) {
            0 => 0,
            1 => nmin,
            _ => nmin << rng.range_usize(1, 2),
        };
        check_fft_into::<F>(cx, &mut f, &pr.a, n_arg, &mut rng);
        // second call on the same object, other operand, auto size
        check_fft_into::<F>(cx, &mut f, &pr.b, 0, &mut rng);
    }
    {
        let mut f = call!(cx, "new", FFT::<F>::new());
        check_fft_inv_into::<F>(cx, &mut f, &pr, &want, &mut rng);
    }
    if cx.rep.wants_sample() && pr.a.len() + pr.b.len() <= 8 && pr.a.len() >= 2 && pr.b.len() >= 2 {
        let pre = vec![1000i64; want.len() + 2];
        let mut res = pre.clone();
        let mut f = call!(cx, "new", FFT::<F>::new());
        call!(cx, "multiply_into", f.multiply_into(&pr.a, &pr.b, &mut res));
        let s = Json::obj().set("workload", "into").set("precision", p.name()).set("a", pr.a.clone()).set("b", pr.b.clone()).set("prefill", pre).set("after_multiply_into", res).set("exact_convolution", want.clone());
        cx.rep.sample(s);
    }
}

// ------------------------------------------------------------------------------------------------
// (d) history twin

pub const HIST_CLASS_LMAX: [usize; 8] = [64, 64, 300, 300, 300, 2000, 2000, 60_000];

fn lived_vs_fresh(cx: &mut Cx, what: &str, pr: &Pair, lived: &[i64], fresh: &[i64], want: &[i64]) {
    if lived != fresh {
        let k = (0..lived.len().min(fresh.len())).find(|&k| lived[k] != fresh[k]);
        let nd = (0..lived.len().min(fresh.len())).filter(|&k| lived[k] != fresh[k]).count();
        let mut d = pr.json(cx.prec).set("what", format!("{}: the long-lived object and a fresh object return different results", what)).set("len_lived", lived.len()).set("len_fresh", fresh.len()).set("differing_coefficients", nd);
        if let Some(k) = k {
            d = d.set("first_differing_index", k).set("lived", lived[k]).set("fresh", fresh[k]).set("want", want.get(k).cloned());
        }
        cx.violation("history_dependence:multiply".to_string(), d);
    }
}

pub fn history_case<F: MonF>(cx: &mut Cx, idx: u64, seed: u64) {
    let p = cx.prec;
    let mut rng = case_rng(seed, 0xD0D, p, idx);
    let class = (idx % 8) as usize;
    let lmax = HIST_CLASS_LMAX[class];
    // now and then a very long history of tiny products on one object: a call counter or a generation stamp kept in a
    // 16-bit integer wraps on the way
    // now and then a history of large transforms whose size halves and doubles between consecutive calls (a table or
    // cache shared by the forward and the inverse transform of one size is reused by the other direction exactly then)
    if class == 2 && (idx / 8) % 24 == 3 {
        cx.rep.inc("history_twin_sequences_halving_large");
        let mut lived = call!(cx, "new", FFT::<F>::new());
        let top = if rng.chance(1, 2) { 1usize << 16 } else { 1usize << 15 };
        for (step, n) in [top, top / 2, top / 4, top / 2, top, top / 2].iter().enumerate() {
            // product length in (n/2, n]: la + lb - 1 = n - r
            let total = n - rng.usize_below(n / 8) + 1;
            let la = (total / 2 + rng.usize_below(total / 4)).max(1);
            let lb = (total - la).max(1);
            let m = match max_mag(p, la, lb) {
                Some(m) => m.min(100),
                None => continue,
            };
            let a = gen_vec(&mut rng, la, m, 4);
            let b = gen_vec(&mut rng, lb, m, 4);
            if !inside(p, la, lb, mag(&a), mag(&b)) {
                continue;
            }
            let pr = Pair { a, b, pa: 4, pb: 4, ma: m, mb: m, mode: "halving" };
            let want = oracle::conv(&pr.a, &pr.b);
            let gl = call!(cx, "multiply", lived.multiply(&pr.a, &pr.b));
            let gf = {
                let mut f = call!(cx, "new", FFT::<F>::new());
                call!(cx, "multiply", f.multiply(&pr.a, &pr.b))
            };
            judge(cx, "multiply on the long-lived object (halving / doubling sizes)", &pr, &gl, &want, None);
            lived_vs_fresh(cx, "multiply", &pr, &gl, &gf, &want);
            cx.history.push(format!("step {}: multiply {}x{} (n={})", step, la, lb, n));
        }
        return;
    }
    // now and then on a thread that has never transformed anything: first a transformer of the OTHER precision grows its
    // tables (whatever the crate shares between transformers of a thread - twiddles, scratch - is then of the other
    // precision's making), then products at the edge of the envelope in this precision, each on a fresh and on a
    // long-lived object
    if class == 3 && (idx / 8) % 10 == 5 {
        cx.rep.inc("histories_after_the_other_precision_on_a_fresh_thread");
        let warm_log = rng.range_usize(7, 14);
        let seed2 = rng.next_u64();
        let joined = std::thread::scope(|sc| {
            let h = sc.spawn(|| common::catch(|| {
                let mut rng = Rng::new(seed2);
                let wa: Vec<i32> = (0..(1usize << warm_log) / 2).map(|i| (i % 7) as i32 - 3).collect();
                match p {
                    Prec::F64 => {
                        let mut o = common::lib!(FFT::<f32>::new());
                        let _ = common::lib!(o.multiply(&wa, &wa));
                    }
                    Prec::F32 => {
                        let mut o = common::lib!(FFT::<f64>::new());
                        let _ = common::lib!(o.multiply(&wa, &wa));
                    }
                }
                cx.history.push(format!("(fresh thread) the other precision multiplied two vectors of {} elements first", wa.len()));
                let mut lived = call!(cx, "new", FFT::<F>::new());
                for step in 0..8 {
                    let scale = [40usize, 150, 600, 2500, 9000][rng.usize_below(5)];
                    let pr = match random_pair(cx, &mut rng, scale) {
                        Some(pr) => pr,
                        None => continue,
                    };
                    let want = oracle::conv(&pr.a, &pr.b);
                    let gl = call!(cx, "multiply", lived.multiply(&pr.a, &pr.b));
                    let gf = {
                        let mut f = call!(cx, "new", FFT::<F>::new());
                        call!(cx, "multiply", f.multiply(&pr.a, &pr.b))
                    };
                    judge(cx, "multiply after a transformer of the other precision was used on this thread", &pr, &gf, &want, None);
                    lived_vs_fresh(cx, "multiply", &pr, &gl, &gf, &want);
                    cx.history.push(format!("step {}: multiply {}x{}", step, pr.a.len(), pr.b.len()));
                }
            }));
            h.join()
        });
        {
            match joined {
                Ok(Ok(())) => {}
                Ok(Err(p)) => {
                    if p.in_lib {
                        let d = Json::obj().set("what", "the library panicked on a lawful input inside the envelope (fresh thread, other precision used first)").set("panic", p.msg.as_str()).set("at", format!("{}:{}", p.file, p.line));
                        cx.violation("panic:multiply".to_string(), d);
                    } else {
                        cx.rep.inconclusive(format!("harness panic at {}:{}: {}", p.file, p.line, p.msg));
                    }
                }
                Err(e) => std::panic::resume_unwind(e),
            }
        }
        return;
    }
    let long = class == 1 && (idx / 8) % 16 == 1;
    let steps = if long {
        rng.range_usize(65_540, 65_700)
    } else if class == 7 {
        rng.range_usize(5, 8)
    } else {
        rng.range_usize(5, 30)
    };
    if long {
        cx.rep.inc("history_twin_sequences_longer_than_2^16");
    }
    cx.rep.inc("history_twin_sequences");
    let ctor = rng.below(4);
    let mut lived: FFT<F> = match ctor {
        0 => {
            cx.history.push("FFT::new()".into());
            call!(cx, "new", FFT::<F>::new())
        }
        1 => {
            cx.history.push("Default::default()".into());
            call!(cx, "default", <FFT<F> as Default>::default())
        }
        2 => {
            let r = rng.range_usize(0, (4 * lmax).ilog2() as usize + 1);
            cx.history.push(format!("FFT::new(); update_n(2^{})", r));
            let mut f = call!(cx, "new", FFT::<F>::new());
            call!(cx, "update_n", f.update_n(1usize << r));
            f
        }
        _ => {
            cx.history.push("FFT::new(); multiply 3x2; clone()".into());
            let mut f = call!(cx, "new", FFT::<F>::new());
            let _ = call!(cx, "multiply", f.multiply(&[1, 2, 3], &[4, 5]));
            call!(cx, "clone", f.clone())
        }
    };
    cx.rep.see_str("history_constructors", ["new", "default", "new+update_n", "clone_of_used"][ctor as usize]);
    let mut prev_n = 0usize;
    for t in 0..steps {
        // grow, shrink, grow again (with noise), sometimes a fully random size
        let x = 3.0 * t as f64 / steps as f64;
        let mut u = if x < 1.0 {
            0.1 + 0.9 * x
        } else if x < 2.0 {
            1.0 - 0.95 * (x - 1.0)
        } else {
            0.05 + 0.95 * (x - 2.0)
        };
        u = (u + rng.f64_range(-0.15, 0.15)).clamp(0.0, 1.0);
        if rng.chance(1, 4) {
            u = rng.f64_unit();
        }
        let scale = ((lmax as f64).powf(u) as usize).clamp(1, lmax);
        let op = rng.weighted(&[45, 10, 10, 6, 6, 6, 5, 5, 3]);
        cx.rep.see_str("history_ops", ["multiply", "multiply_into", "roundtrip", "fft_into", "fft_inv_into", "clone", "update_n", "fft_auto", "empty"][op]);
        if op == 6 {
            let r = rng.range_usize(0, (4 * lmax).ilog2() as usize + 1);
            cx.history.push(format!("update_n(2^{})", r));
            call!(cx, "update_n", lived.update_n(1usize << r));
            continue;
        }
        if op == 8 {
            cx.history.push("multiply([], [..])".into());
            let got = call!(cx, "multiply", lived.multiply(&[], &[1, 2, 3]));
            cx.rep.inc("evaluations");
            cx.rep.inc("empty_calls");
            if !got.is_empty() {
                let d = Json::obj().set("what", "multiply([], x) on a used object").set("got_len", got.len()).set("want_len", 0);
                cx.violation(format!("length:{}:{}", p.name(), cx.workload), d);
            }
            continue;
        }
        let pr = match random_pair(cx, &mut rng, scale) {
            Some(x) => x,
            None => continue,
        };
        let want = oracle::conv(&pr.a, &pr.b);
        let (la, lb) = (pr.a.len(), pr.b.len());
        let n = pow2_at_least(la + lb - 1, 2);
        cx.rep.see_str("history_transitions", if prev_n == 0 { "first" } else if n > prev_n { "grow" } else if n < prev_n { "shrink" } else { "same" });
        prev_n = n;
        let entry = |name: &str| format!("{} {}x{} (n={})", name, la, lb, n);
        if cx.history.len() > 400 {
            let drop_n = cx.history.len() - 200;
            cx.history.drain(1..drop_n);
            cx.history.insert(1, "... (earlier steps omitted) ...".into());
        }
        match op {
            0 => {
                let gl = call!(cx, "multiply", lived.multiply(&pr.a, &pr.b));
                let gf = {
                    let mut f = call!(cx, "new", FFT::<F>::new());
                    call!(cx, "multiply", f.multiply(&pr.a, &pr.b))
                };
                judge(cx, "multiply on the long-lived object", &pr, &gl, &want, None);
                judge(cx, "multiply on a fresh object", &pr, &gf, &want, None);
                lived_vs_fresh(cx, "multiply", &pr, &gl, &gf, &want);
                cx.history.push(entry("multiply"));
            }
            1 => {
                let variant = rng.below(4);
                check_multiply_into::<F>(cx, &mut lived, &pr, &want, &mut rng, variant);
                cx.history.push(entry("multiply_into"));
            }
            2 => {
                let nn = pow2_at_least(la + lb - 1, 1);
                if let Some(t) = roundtrip::<F>(cx, &mut lived, &pr, nn, &want, "fft,fft,product,fft_inv on the long-lived object") {
                    fresh_twin_of_roundtrip::<F>(cx, &pr, nn, &t, &want);
                }
                cx.history.push(entry("fft,fft,fft_inv"));
            }
            3 => {
                let nmin = pow2_at_least(la, 1);
                let n_arg = match rng.below(3) {
                    0 => 0,
                    1 => nmin,
                    _ => nmin * 2,
                };
                check_fft_into::<F>(cx, &mut lived, &pr.a, n_arg, &mut rng);
                cx.history.push(format!("fft_into len {} n_arg {}", la, n_arg));
                if rng.chance(1, 2) {
                    // the very same vector again, straight away, at another transform size (and back)
                    let n_eff = if n_arg == 0 { nmin } else { n_arg };
                    let n2 = if n_eff / 2 >= la.max(1) && rng.chance(1, 2) { n_eff / 2 } else { n_eff * 2 };
                    check_fft_into::<F>(cx, &mut lived, &pr.a, n2, &mut rng);
                    cx.history.push(format!("fft_into same vector n_arg {}", n2));
                    cx.rep.inc("same_vector_at_two_sizes");
                    if rng.chance(1, 2) {
                        check_fft_into::<F>(cx, &mut lived, &pr.a, n_eff, &mut rng);
                        cx.history.push(format!("fft_into same vector n_arg {}", n_eff));
                    }
                }
            }
            4 => {
                check_fft_inv_into::<F>(cx, &mut lived, &pr, &want, &mut rng);
                cx.history.push(entry("fft_inv_into"));
            }
            5 => {
                let mut c = if rng.chance(1, 2) {
                    call!(cx, "clone", lived.clone())
                } else {
                    // Clone::clone_from into another object that has a history of its own
                    let mut o = call!(cx, "new", FFT::<F>::new());
                    let r = rng.range_usize(0, (4 * lmax).ilog2() as usize + 1);
                    call!(cx, "update_n", o.update_n(1usize << r));
                    let _ = call!(cx, "multiply", o.multiply(&[1, -2, 3], &[4, 5]));
                    call!(cx, "clone_from", o.clone_from(&lived));
                    cx.rep.inc("clone_from_calls");
                    o
                };
                let gc = call!(cx, "multiply", c.multiply(&pr.a, &pr.b));
                let gf = {
                    let mut f = call!(cx, "new", FFT::<F>::new());
                    call!(cx, "multiply", f.multiply(&pr.a, &pr.b))
                };
                judge(cx, "multiply on a clone of the long-lived object", &pr, &gc, &want, None);
                judge(cx, "multiply on a fresh object", &pr, &gf, &want, None);
                lived_vs_fresh(cx, "multiply on clone", &pr, &gc, &gf, &want);
                cx.rep.inc("clones");
                if rng.chance(1, 2) {
                    lived = c;
                    cx.history.push(entry("clone(); continue with the clone; multiply"));
                } else {
                    cx.history.push(entry("clone(); multiply on the clone (dropped)"));
                }
            }
            _ => {
                check_auto_size::<F>(cx, Some(&mut lived), &pr.a);
                cx.history.push(format!("fft(v, 0) len {}", la));
            }
        }
    }
    cx.rep.max("max_history_steps", steps as i64);
    if cx.verbose {
        for h in &cx.history {
            eprintln!("  history: {}", h);
        }
    }
}
