//! fftmon - runtime monitor for the FFT polynomial multiplication (C04).
//!
//! Oracle: exact integer convolution (schoolbook; two-prime NTT + CRT for long operands, self-checked at start-up).
//! Envelope: an input is judged only if BOTH max(A,B)^2*min(la,lb) <= 1e12 (f64; 1e3 for f32) AND
//! max(la,lb) <= CORRECT_F{64,32}_BOUNDS[cell(A)][cell(B)], the table being read from rlib_fft::precision at run time.
//!
//!   --mode all (default) | pairs40 | pow2_edges | pattern | corners | history_twin | into | fft_roundtrip | empty
//!   --tier quick|thorough   --light (dev profile: short vectors only)   --prec f64|f32|both
//! Replay: --mode <m> --case <prec>:<index>:<seed>   (a case is a pure function of these)

mod core;
mod envelope;
mod oracle;
mod work_hist;
mod work_mul;

use crate::core::{Cx, MonF};
use common::{catch, mix, Engine, Json, Report, WorkQueue};
use envelope::*;

#[derive(Clone, Copy, PartialEq, Debug)]
enum W {
    Pairs40,
    Edges,
    Pattern,
    Corners,
    History,
    Into,
    Roundtrip,
    Empty,
    Literal,
}

const ALL: [W; 8] = [W::Pairs40, W::Edges, W::Pattern, W::Corners, W::History, W::Into, W::Roundtrip, W::Empty];

impl W {
    fn mode(self) -> &'static str {
        match self {
            W::Pairs40 => "pairs40",
            W::Edges => "pow2_edges",
            W::Pattern => "pattern",
            W::Corners => "corners",
            W::History => "history_twin",
            W::Into => "into",
            W::Roundtrip => "fft_roundtrip",
            W::Empty => "empty",
            W::Literal => "literal",
        }
    }
    /// name used in signatures
    fn workload(self) -> &'static str {
        match self {
            W::Corners => "pattern",
            W::Literal => "fft_roundtrip",
            w => w.mode(),
        }
    }
    fn parse(s: &str) -> Option<W> {
        ALL.iter().cloned().chain([W::Literal]).find(|w| w.mode() == s)
    }
}

#[derive(Clone, Copy)]
struct Task {
    w: W,
    prec: Prec,
    idx: u64,
    cost: u64,
}

fn run_body<F: MonF>(w: W, cx: &mut Cx, idx: u64, seed: u64) {
    match w {
        W::Pairs40 => work_mul::pairs40::<F>(cx, idx, seed),
        W::Edges => work_mul::edges::<F>(cx, idx, seed),
        W::Pattern => work_mul::pattern::<F>(cx, idx, seed),
        W::Corners => work_mul::corners::<F>(cx, idx, seed),
        W::Empty => work_mul::empty::<F>(cx, idx, seed),
        W::History => work_hist::history_case::<F>(cx, idx, seed),
        W::Into => work_hist::into_case::<F>(cx, idx, seed),
        W::Roundtrip => work_hist::roundtrip_case::<F>(cx, idx, seed),
        W::Literal => work_hist::literal_case::<F>(cx, idx),
    }
}

fn run_case(w: W, prec: Prec, idx: u64, seed: u64, rep: &mut Report, verbose: bool) {
    let replay = vec!["--mode".to_string(), w.mode().to_string(), "--case".to_string(), format!("{}:{}:{}", prec.name(), idx, seed)];
    let mut cx = Cx { rep, prec, workload: w.workload(), replay, verbose, cur_fn: "", history: Vec::new() };
    cx.rep.inc("cases");
    cx.rep.inc(&format!("cases_{}", w.mode()));
    let r = catch(|| match prec {
        Prec::F64 => run_body::<f64>(w, &mut cx, idx, seed),
        Prec::F32 => run_body::<f32>(w, &mut cx, idx, seed),
    });
    if let Err(p) = r {
        if p.in_lib {
            let f = if cx.cur_fn.is_empty() { "unknown" } else { cx.cur_fn };
            let d = Json::obj()
                .set("what", "the library panicked on a lawful input inside the envelope")
                .set("function", f)
                .set("panic", p.msg.as_str())
                .set("at", format!("{}:{}", p.file, p.line))
                .set("case", format!("{} {}:{}:{}", w.mode(), prec.name(), idx, seed));
            cx.violation(format!("panic:{}", f), d);
        } else {
            cx.rep.inconclusive(format!("harness panic at {}:{}: {} (case {} {}:{}:{})", p.file, p.line, p.msg, w.mode(), prec.name(), idx, seed));
        }
    }
}

#[derive(Clone, Copy)]
struct Tier {
    thorough: bool,
    light: bool,
}

fn plan(w: W, prec: Prec, t: Tier, seed: u64) -> Vec<Task> {
    let mut v = Vec::new();
    let mut push = |idx: u64, cost: u64| v.push(Task { w, prec, idx, cost });
    let pick = |light: u64, quick: u64, thorough: u64| if t.light { light } else if t.thorough { thorough } else { quick };
    match w {
        W::Pairs40 => {
            for idx in 0..work_mul::pairs40_total() {
                push(idx, 1);
            }
        }
        W::Edges => {
            let kmax = pick(10, 14, work_mul::EDGE_KMAX) as u32;
            for k in 1..=kmax {
                let reps = if !t.thorough {
                    2
                } else if k <= 16 {
                    4
                } else {
                    2
                };
                for shape in 0..work_mul::EDGE_SHAPES {
                    for rep in 0..reps {
                        push(work_mul::edges_encode(k, shape, rep), 1u64 << k);
                    }
                }
            }
            // extremely unbalanced products (2^k + {-1,0,1}) x {1,2,3,17} are cheap (one operand is tiny): three more
            // octaves of them in the quick tiers, where the transform is 10^4 times longer than the short operand
            if !t.thorough {
                for k in kmax + 1..=(kmax + 3).min(work_mul::EDGE_KMAX as u32) {
                    for shape in 9..21 {
                        for rep in 0..4 {
                            push(work_mul::edges_encode(k, shape, rep), 1u64 << k);
                        }
                    }
                }
            }
        }
        W::Pattern => {
            let n = pick(1500, 4000, 40_000);
            for idx in 0..n {
                let class = idx % 16;
                let keep = match class {
                    14 => t.thorough && !t.light,
                    15 => t.thorough && !t.light && (idx / 16) % 8 == 0,
                    _ => true,
                };
                if keep {
                    push(idx, work_mul::PATTERN_CLASS_LMAX[class as usize] as u64);
                }
            }
        }
        W::Corners => {
            let classes: &[u64] = if t.light {
                &[0]
            } else if t.thorough {
                &[1, 2]
            } else {
                &[1]
            };
            for &cc in classes {
                for cellpair in 0..work_mul::corner_cells() {
                    let g = grid().len() as u64;
                    let (ca, cb) = ((cellpair / g) as usize, (cellpair % g) as usize);
                    let h = mix(&[seed, 0xC0C, prec.id(), cellpair]);
                    for orient in 0..2u64 {
                        let (la, lb, _) = match work_mul::corner_lengths(prec, cc as usize, ca, cb, orient) {
                            Some(x) => x,
                            None => continue,
                        };
                        let npc = work_mul::CORNER_PATS.len() as u64;
                        for patv in 0..npc {
                            if cc == 2 {
                                // only the cells the smaller cap truncates; one pattern and one orientation each
                                if !(prec.table()[ca][cb] > work_mul::CORNER_CAPS[1] as f64) || patv != h % npc || orient != (h / 8) % 2 {
                                    continue;
                                }
                            }
                            if t.light && patv >= 4 {
                                continue;
                            }
                            push(work_mul::corner_encode(cc, cellpair, orient, patv), la.max(lb) as u64);
                        }
                    }
                }
            }
        }
        W::History => {
            let n = pick(300, 1500, 12_000);
            for idx in 0..n {
                let class = idx % 8;
                if class == 7 && !(t.thorough && !t.light && (idx / 8) % 16 == 0) {
                    continue;
                }
                push(idx, work_hist::HIST_CLASS_LMAX[class as usize] as u64 * 4);
            }
        }
        W::Into => {
            let n = pick(300, 1500, 10_000);
            for idx in 0..n {
                if t.light && idx % 10 == 9 {
                    continue;
                }
                push(idx, 300);
            }
        }
        W::Roundtrip => {
            let n = pick(300, 1500, 10_000);
            for idx in 0..n {
                if t.light && idx % 8 >= 6 {
                    continue;
                }
                push(idx, if idx % 8 == 7 { 30_000 } else { 300 });
            }
        }
        W::Literal => {
            for idx in 0..3 {
                push(idx, u64::MAX);
            }
        }
        W::Empty => {
            let n = pick(200, 600, 4000);
            for idx in 0..n {
                let class = idx % 8;
                let keep = match class {
                    0..=3 => true,
                    4 | 5 => !t.light,
                    6 => t.thorough && !t.light,
                    _ => t.thorough && !t.light && (idx / 8) % 8 == 0,
                };
                if keep {
                    push(idx, work_mul::EMPTY_CLASS_LMAX[class as usize] as u64);
                }
            }
        }
    }
    v
}

fn main() {
    let eng = Engine::start("fftmon");
    let a = &eng.args;
    let mode = a.str("mode", "all");
    let tier = Tier { thorough: a.thorough(), light: a.flag("light") };
    let seed = a.seed();
    let verbose = a.flag("verbose");
    let mut report = Report::new();
    report.extra("mode", mode.as_str());
    report.extra("tier", if tier.thorough { "thorough" } else { "quick" });
    report.extra("light", tier.light);
    report.extra("envelope", envelope_text());
    report.extra(
        "nontrivial_rule",
        "la >= 2 and lb >= 2, both operands non-zero, max coefficient magnitude >= 2; hash of (precision, a, b)",
    );
    // the unbalanced input measured in the design phase (a = [1e6], b = 1e5 coefficients of 1e6) must be outside
    report.extra("design_counterexample_1x100000_at_1e6_is_inside", inside(Prec::F64, 1, 100_000, 1_000_000, 1_000_000));

    // harness self-check first
    match oracle::self_check(seed) {
        Ok(n) => report.extra("oracle_self_check_cases", n),
        Err(e) => {
            report.inconclusive(e);
            eng.finish(report);
        }
    }

    if let Some(c) = a.opt("case") {
        let w = W::parse(&mode).unwrap_or_else(|| panic!("--case needs --mode <workload>, got {}", mode));
        let parts: Vec<&str> = c.split(':').collect();
        assert!(parts.len() == 3, "--case <prec>:<index>:<seed>");
        let prec = Prec::parse(parts[0]);
        let idx: u64 = parts[1].parse().expect("case index");
        let cseed: u64 = parts[2].parse().expect("case seed");
        eprintln!("[fftmon] replay {} {}:{}:{}", w.mode(), prec.name(), idx, cseed);
        let rep = common::run_big_stack(move || {
            let mut rep = Report::new();
            rep.sample_cap = 4;
            run_case(w, prec, idx, cseed, &mut rep, true);
            rep
        });
        report.merge(rep);
        eng.finish(report);
    }

    let ws: Vec<W> = if mode == "all" { ALL.to_vec() } else { vec![W::parse(&mode).unwrap_or_else(|| panic!("unknown mode {}", mode))] };
    let precs: Vec<Prec> = match a.str("prec", "both").as_str() {
        "both" => vec![Prec::F64, Prec::F32],
        s => vec![Prec::parse(s)],
    };
    let mut tasks: Vec<Task> = Vec::new();
    if mode == "all" {
        // literal cases first and on this thread, so that the smallest witness of a signature is the one kept
        for &p in &precs {
            for t in plan(W::Literal, p, tier, seed) {
                let mut rep = Report::new();
                run_case(t.w, t.prec, t.idx, seed, &mut rep, verbose);
                report.merge(rep);
            }
        }
    }
    for &w in &ws {
        for &p in &precs {
            tasks.extend(plan(w, p, tier, seed));
        }
    }
    // largest first, so that the few long cases do not form the tail of the run
    tasks.sort_by(|x, y| y.cost.cmp(&x.cost));
    let q = WorkQueue::new(tasks.len() as u64);
    let tasks = &tasks;
    let rep = common::run_sharded(a.threads(), |_s, rep| {
        rep.sample_cap = 1;
        while let Some(i) = q.take() {
            let t = tasks[i as usize];
            run_case(t.w, t.prec, t.idx, seed, rep, verbose);
        }
    });
    report.merge(rep);
    // sampling over coefficient vectors everywhere; only the set of length pairs of pairs40 is complete
    report.extra("exhaustive", false);
    if ws.contains(&W::Pairs40) {
        report.extra(
            "pairs40_scope",
            format!(
                "complete over the {} length pairs 1..=40 x 1..=40: {} value variants each, both argument orders, f64 and f32 (values sampled)",
                work_mul::P40_N * work_mul::P40_N,
                work_mul::P40_VARIANTS.len()
            ),
        );
    }
    report.extra("planned_cases", tasks.len());
    eng.finish(report);
}
