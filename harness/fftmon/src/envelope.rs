//! The explored envelope: intersection of the quantifier formula and the crate's published table, the table being
//! read from `rlib_fft::precision` at run time. Plus the input patterns.

use common::Rng;
use rlib_fft::precision::{CORRECT_F32_BOUNDS, CORRECT_F64_BOUNDS, VALS_TO_CHECK};

#[derive(Clone, Copy, PartialEq, Eq, Debug)]
pub enum Prec {
    F64,
    F32,
}

impl Prec {
    pub fn name(self) -> &'static str {
        match self {
            Prec::F64 => "f64",
            Prec::F32 => "f32",
        }
    }
    pub fn parse(s: &str) -> Prec {
        match s {
            "f64" => Prec::F64,
            "f32" => Prec::F32,
            _ => panic!("unknown precision {}", s),
        }
    }
    /// bound of the formula max(A,B)^2 * min(la,lb) <= bound
    pub fn formula_bound(self) -> u128 {
        match self {
            Prec::F64 => 1_000_000_000_000,
            Prec::F32 => 1_000,
        }
    }
    pub fn table(self) -> &'static [[f64; VALS_TO_CHECK.len()]; VALS_TO_CHECK.len()] {
        match self {
            Prec::F64 => &CORRECT_F64_BOUNDS,
            Prec::F32 => &CORRECT_F32_BOUNDS,
        }
    }
    pub fn id(self) -> u64 {
        match self {
            Prec::F64 => 64,
            Prec::F32 => 32,
        }
    }
}

pub fn grid() -> &'static [i32] {
    &VALS_TO_CHECK
}

/// index of the smallest grid value >= max(x, 1); None beyond the grid
pub fn cell(x: i64) -> Option<usize> {
    let x = x.max(1);
    VALS_TO_CHECK.iter().position(|&g| g as i64 >= x)
}

pub fn table_bound(p: Prec, a_mag: i64, b_mag: i64) -> f64 {
    match (cell(a_mag), cell(b_mag)) {
        (Some(i), Some(j)) => p.table()[i][j],
        _ => 0.0,
    }
}

pub fn formula_value(la: usize, lb: usize, a_mag: i64, b_mag: i64) -> u128 {
    let m = a_mag.max(b_mag).max(1) as u128;
    m * m * la.min(lb) as u128
}

/// THE rule. Empty operands are trivially inside (nothing is transformed).
pub fn inside(p: Prec, la: usize, lb: usize, a_mag: i64, b_mag: i64) -> bool {
    if la == 0 || lb == 0 {
        return true;
    }
    formula_value(la, lb, a_mag, b_mag) <= p.formula_bound() && (la.max(lb) as f64) <= table_bound(p, a_mag, b_mag)
}

pub fn isqrt(x: u128) -> u128 {
    let mut r = (x as f64).sqrt() as u128;
    while r * r > x {
        r -= 1;
    }
    while (r + 1) * (r + 1) <= x {
        r += 1;
    }
    r
}

/// largest B >= 1 such that inside(p, la, lb, a_mag, B); None if there is none.
/// Does not assume that the table is monotone: every cell is examined.
pub fn max_b_given_a(p: Prec, la: usize, lb: usize, a_mag: i64) -> Option<i64> {
    if la == 0 || lb == 0 {
        return Some(1);
    }
    let a_mag = a_mag.max(1);
    if !(formula_value(la, lb, a_mag, 1) <= p.formula_bound()) {
        return None;
    }
    let fmax = isqrt(p.formula_bound() / la.min(lb) as u128) as i64;
    let ca = cell(a_mag)?;
    let mut best = None;
    for (cb, &g) in VALS_TO_CHECK.iter().enumerate() {
        let lo = if cb == 0 { 1 } else { VALS_TO_CHECK[cb - 1] as i64 + 1 };
        let hi = (g as i64).min(fmax);
        if hi >= lo && (la.max(lb) as f64) <= p.table()[ca][cb] {
            best = Some(hi);
        }
    }
    best
}

/// largest M >= 1 with inside(p, la, lb, M, M)
pub fn max_mag(p: Prec, la: usize, lb: usize) -> Option<i64> {
    if la == 0 || lb == 0 {
        return Some(1);
    }
    let fmax = isqrt(p.formula_bound() / la.min(lb) as u128) as i64;
    let mut best = None;
    for (c, &g) in VALS_TO_CHECK.iter().enumerate() {
        let lo = if c == 0 { 1 } else { VALS_TO_CHECK[c - 1] as i64 + 1 };
        let hi = (g as i64).min(fmax);
        if hi >= lo && (la.max(lb) as f64) <= p.table()[c][c] {
            best = Some(hi);
        }
    }
    best
}

pub fn mag(v: &[i32]) -> i64 {
    v.iter().map(|&x| (x as i64).abs()).max().unwrap_or(0)
}

// ------------------------------------------------------------------------------------------------
// value patterns

pub const PATTERNS: &[&str] = &[
    "all+M",        // 0
    "all-M",        // 1
    "alt+-M",       // 2
    "alt-+M",       // 3
    "rand[-M,M]",   // 4
    "rand[0,M]",    // 5
    "near[M-1000,M]rs", // 6  values in [M-1000, M] with random signs
    "spikes",       // 7  few +-M among zeros
    "onehot",       // 8
    "zeros",        // 9
];

pub fn gen_vec(rng: &mut Rng, len: usize, m: i64, pat: usize) -> Vec<i32> {
    let m32 = m as i32;
    let mut v: Vec<i32> = match pat {
        0 => vec![m32; len],
        1 => vec![-m32; len],
        2 => (0..len).map(|i| if i % 2 == 0 { m32 } else { -m32 }).collect(),
        3 => (0..len).map(|i| if i % 2 == 0 { -m32 } else { m32 }).collect(),
        4 => (0..len).map(|_| rng.range_i64(-m, m) as i32).collect(),
        5 => (0..len).map(|_| rng.range_i64(0, m) as i32).collect(),
        6 => {
            let lo = (m - 1000).max(0);
            (0..len)
                .map(|_| {
                    let x = rng.range_i64(lo, m) as i32;
                    if rng.chance(1, 2) {
                        -x
                    } else {
                        x
                    }
                })
                .collect()
        }
        7 => {
            let mut v = vec![0i32; len];
            if len > 0 {
                let k = 1 + rng.usize_below(len.min(5));
                for _ in 0..k {
                    let i = rng.usize_below(len);
                    v[i] = if rng.chance(1, 2) { m32 } else { -m32 };
                }
            }
            v
        }
        8 => {
            let mut v = vec![0i32; len];
            if len > 0 {
                let i = match rng.below(3) {
                    0 => 0,
                    1 => len - 1,
                    _ => rng.usize_below(len),
                };
                v[i] = if rng.chance(1, 2) { m32 } else { -m32 };
            }
            v
        }
        9 => vec![0i32; len],
        _ => panic!("pattern index"),
    };
    // random patterns: half of the time pin one coefficient to exactly +-M, so that the magnitude really is M
    if (4..=6).contains(&pat) && len > 0 && rng.chance(1, 2) {
        let i = rng.usize_below(len);
        v[i] = if pat == 5 || rng.chance(1, 2) { m32 } else { -m32 };
    }
    v
}

pub fn envelope_text() -> String {
    format!(
        "judged inputs satisfy BOTH (i) max(A,B)^2*min(la,lb) <= 1e12 (f64) / 1e3 (f32) AND (ii) max(la,lb) <= CORRECT_F{{64,32}}_BOUNDS[cell(A)][cell(B)], \
         cell(x) = smallest VALS_TO_CHECK entry >= max(x,1); the table is read from rlib_fft::precision at run time \
         (grid of {} magnitudes, largest f64 bound {:e}, largest f32 bound {:e}); inputs outside this intersection are never judged",
        VALS_TO_CHECK.len(),
        CORRECT_F64_BOUNDS.iter().flatten().cloned().fold(0.0f64, f64::max),
        CORRECT_F32_BOUNDS.iter().flatten().cloned().fold(0.0f64, f64::max)
    )
}
