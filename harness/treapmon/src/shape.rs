//! C16: heap order and logarithmic height, priorities left exactly as the library draws them.
//! The walk is iterative (the harness never recurses along the tree), checkpoints are staged so that a
//! degenerate priority source is reported at a few hundred nodes - long before the library's recursive
//! split/merge could exhaust the stack - and a degenerate tree is leaked instead of dropped.

use common::{catch, lib, Json, Report, Rng};
use rlib_treap::{Treap, TreapItem, TreapItemSized, TreapNode};

#[derive(Default)]
pub struct KeyItem {
    pub key: u64,
    pub size: usize,
}

impl TreapItem for KeyItem {
    fn update(&mut self, l: Option<&Self>, r: Option<&Self>) {
        self.size = 1 + l.map(|x| x.size).unwrap_or(0) + r.map(|x| x.size).unwrap_or(0);
    }
}
impl TreapItemSized for KeyItem {
    fn size(&self) -> usize {
        self.size
    }
}

fn item(key: u64) -> KeyItem {
    KeyItem { key, size: 1 }
}

pub struct ShapeStats {
    pub nodes: usize,
    pub height: usize,
    pub edges: u64,
    pub ties: u64,
    pub up_edges: u64,   // parent priority < child priority (min-heap direction)
    pub down_edges: u64, // parent priority > child priority
}

/// iterative walk over the public node fields
pub fn measure(t: &Treap<KeyItem>) -> ShapeStats {
    let mut s = ShapeStats { nodes: 0, height: 0, edges: 0, ties: 0, up_edges: 0, down_edges: 0 };
    let mut stack: Vec<(&TreapNode<KeyItem>, usize)> = Vec::new();
    if let Some(r) = &t.root {
        stack.push((r, 1));
    }
    while let Some((n, d)) = stack.pop() {
        s.nodes += 1;
        if d > s.height {
            s.height = d;
        }
        for c in [&n.left, &n.right].into_iter().flatten() {
            s.edges += 1;
            if n.priority == c.priority {
                s.ties += 1;
            } else if n.priority < c.priority {
                s.up_edges += 1;
            } else {
                s.down_edges += 1;
            }
            stack.push((c, d + 1));
        }
    }
    s
}

/// height of the Cartesian tree (root = largest priority, or smallest if `min_root`) of a priority sequence; ties go to
/// the earlier element
pub fn cartesian_height(p: &[u32], min_root: bool) -> usize {
    let n = p.len();
    let above = |a: u32, b: u32| if min_root { a < b } else { a > b };
    let mut left = vec![usize::MAX; n];
    let mut right = vec![usize::MAX; n];
    let mut stack: Vec<usize> = Vec::new();
    for i in 0..n {
        let mut last = usize::MAX;
        while let Some(&top) = stack.last() {
            if above(p[i], p[top]) {
                last = top;
                stack.pop();
            } else {
                break;
            }
        }
        left[i] = last;
        if let Some(&top) = stack.last() {
            right[top] = i;
        }
        stack.push(i);
    }
    if n == 0 {
        return 0;
    }
    let root = stack[0];
    let mut best = 0usize;
    let mut st = vec![(root, 1usize)];
    while let Some((v, d)) = st.pop() {
        best = best.max(d);
        if left[v] != usize::MAX {
            st.push((left[v], d + 1));
        }
        if right[v] != usize::MAX {
            st.push((right[v], d + 1));
        }
    }
    best
}

pub fn height_bound(n: usize) -> f64 {
    5.0 * ((n + 1) as f64).log2() + 20.0
}

pub struct ShapeCtx<'a> {
    pub rep: &'a mut Report,
    pub workload: String,
    pub replay: Vec<String>,
    pub next_checkpoint: usize,
    pub failed: bool,
    pub direction: i32, // 0 unknown, +1 min-heap, -1 max-heap (must be consistent over the whole run)
    pub worst_ratio: f64,
}

impl ShapeCtx<'_> {
    /// returns false when the tree is broken (caller must stop and leak it)
    pub fn checkpoint(&mut self, t: &Treap<KeyItem>, expect_n: usize, why: &str) -> bool {
        let s = measure(t);
        self.rep.inc("checkpoints");
        self.rep.count("edges_checked", s.edges);
        self.rep.count("priority_ties_seen", s.ties);
        self.rep.max("max_height_seen", s.height as i64);
        self.rep.max("max_nodes_at_checkpoint", s.nodes as i64);
        self.rep.see_str("checkpoint_sizes", &format!("{}", (s.nodes as f64 + 1.0).log2().round() as i64));
        if s.nodes >= 64 {
            let ratio = s.height as f64 / ((s.nodes + 1) as f64).log2();
            if ratio > self.worst_ratio {
                self.worst_ratio = ratio;
            }
        }
        let mut ok = true;
        if s.up_edges > 0 && s.down_edges > 0 {
            ok = false;
            self.violation(
                "heap_order",
                Json::obj()
                    .set("what", "node priorities are not heap-ordered consistently in one direction")
                    .set("edges_parent_lt_child", s.up_edges)
                    .set("edges_parent_gt_child", s.down_edges)
                    .set("nodes", s.nodes)
                    .set("checkpoint", why),
            );
        } else {
            let dir = if s.up_edges > 0 {
                1
            } else if s.down_edges > 0 {
                -1
            } else {
                0
            };
            if dir != 0 {
                if self.direction == 0 {
                    self.direction = dir;
                } else if self.direction != dir {
                    ok = false;
                    self.violation(
                        "heap_direction_changed",
                        Json::obj().set("what", "the heap direction differs between checkpoints").set("nodes", s.nodes).set("checkpoint", why),
                    );
                }
            }
        }
        if s.nodes != expect_n {
            ok = false;
            self.violation(
                "node_count",
                Json::obj().set("what", "number of reachable nodes differs from the number of elements").set("nodes", s.nodes).set("want", expect_n).set("checkpoint", why),
            );
        }
        let sz = lib!(t.size());
        if sz != expect_n {
            ok = false;
            self.violation("size", Json::obj().set("size()", sz).set("want", expect_n).set("checkpoint", why));
        }
        if (s.height as f64) > height_bound(s.nodes) {
            ok = false;
            self.violation(
                "height",
                Json::obj()
                    .set("what", "height exceeds 5*log2(n+1)+20")
                    .set("height", s.height)
                    .set("nodes", s.nodes)
                    .set("bound", height_bound(s.nodes))
                    .set("checkpoint", why),
            );
        }
        if !ok {
            self.failed = true;
        }
        ok
    }

    pub fn violation(&mut self, kind: &str, d: Json) {
        let sig = format!("shape:{}", kind);
        let d = d.set("workload", self.workload.as_str());
        self.rep.violation(sig, d, self.replay.clone());
    }

    /// staged checkpoints at n = 64, 256, 1024, ...
    pub fn staged(&mut self, t: &Treap<KeyItem>, n: usize) -> bool {
        if n >= self.next_checkpoint {
            let ok = self.checkpoint(t, n, &format!("staged n={}", n));
            self.next_checkpoint = if self.next_checkpoint < 64 { 64 } else { self.next_checkpoint * 4 };
            return ok;
        }
        true
    }
}

pub const WORKLOADS: &[&str] = &[
    "sorted_append",
    "front_insert",
    "middle_insert",
    "alternating_ends",
    "split_swap_rotations",
    "remove_front_append",
    "sorted_split_by_increasing",
    "sorted_split_by_decreasing",
    "bulk_merge_singletons",
    "bulk_merge_pairwise",
    "random_mix",
    "grow_shrink_grow",
    "helper_treaps",
    "tie_storm",
    "cross_thread_merge_few",
    "cross_thread_merge_many",
    "cross_thread_merge_sequential",
    "stride_scan",
    "special_priority_values",
    "split_insert_gather",
    "one_node_per_fresh_thread",
];

/// Runs one workload to `n` elements. Returns the treap's final stats for the evidence.
pub fn run_workload(name: &str, n: usize, seed: u64, rep: &mut Report) {
    let replay = vec!["--mode".into(), "shape".into(), "--case".into(), format!("{}:{}", name, n)];
    rep.inc("evaluations");
    rep.see_str("nontrivial", &format!("{}:{}", name, n));
    let mut cx = ShapeCtx {
        rep,
        workload: name.to_string(),
        replay,
        next_checkpoint: 16,
        failed: false,
        direction: 0,
        worst_ratio: 0.0,
    };
    let mut rng = Rng::new(seed);
    let mut t: Treap<KeyItem> = Treap::new();
    let res = catch(|| {
        let mut len = 0usize;
        macro_rules! grow {
            ($pos:expr, $key:expr) => {{
                let pos = $pos;
                lib!(t.insert_at(pos, item($key)));
                len += 1;
                if !cx.staged(&t, len) {
                    return;
                }
            }};
        }
        match name {
            "sorted_append" => {
                for i in 0..n {
                    grow!(len, i as u64);
                }
            }
            "front_insert" => {
                for i in 0..n {
                    grow!(0, i as u64);
                }
            }
            "middle_insert" => {
                for i in 0..n {
                    grow!(len / 2, i as u64);
                }
            }
            "alternating_ends" => {
                for i in 0..n {
                    if i % 2 == 0 {
                        grow!(0, i as u64);
                    } else {
                        grow!(len, i as u64);
                    }
                }
            }
            "split_swap_rotations" => {
                let m = n / 4;
                for i in 0..m {
                    grow!(len, i as u64);
                }
                let rots = 100_000.min(n);
                for k in 0..rots {
                    let pos = if k % 3 == 0 { 1 } else if k % 3 == 1 { len - 1 } else { rng.usize_below(len) };
                    let old = std::mem::take(&mut t);
                    let (a, b) = lib!(old.split_at(pos));
                    t = lib!(Treap::merge(b, a));
                    if (k + 1) % (rots / 8).max(1) == 0 && !cx.checkpoint(&t, len, &format!("after {} rotations", k + 1)) {
                        return;
                    }
                }
            }
            "remove_front_append" => {
                let m = n / 4;
                for i in 0..m {
                    grow!(len, i as u64);
                }
                for k in 0..n {
                    let x = lib!(t.remove_at(0));
                    lib!(t.insert_at(len - 1, item(x.key + m as u64)));
                    if (k + 1) % (n / 8).max(1) == 0 && !cx.checkpoint(&t, len, &format!("after {} cycles", k + 1)) {
                        return;
                    }
                }
            }
            "sorted_split_by_increasing" | "sorted_split_by_decreasing" => {
                for i in 0..n {
                    let key = if name.ends_with("increasing") { i as u64 } else { (n - i) as u64 };
                    let old = std::mem::take(&mut t);
                    let (a, b) = lib!(old.split_by(|it: &KeyItem| it.key < key));
                    t = lib!(Treap::merge(Treap::merge(a, Treap::from_item(item(key))), b));
                    len += 1;
                    if !cx.staged(&t, len) {
                        return;
                    }
                }
            }
            "bulk_merge_singletons" => {
                for i in 0..n {
                    let old = std::mem::take(&mut t);
                    t = lib!(Treap::merge(old, Treap::from_item(item(i as u64))));
                    len += 1;
                    if !cx.staged(&t, len) {
                        return;
                    }
                }
            }
            "bulk_merge_pairwise" => {
                // many small treaps merged pairwise, level by level
                let mut level: Vec<(Treap<KeyItem>, usize)> = (0..n).map(|i| (lib!(Treap::from_item(item(i as u64))), 1)).collect();
                while level.len() > 1 {
                    let mut next = Vec::with_capacity(level.len() / 2 + 1);
                    let mut it = level.into_iter();
                    while let Some((a, na)) = it.next() {
                        if let Some((b, nb)) = it.next() {
                            let m = lib!(Treap::merge(a, b));
                            if na + nb >= 64 && (na + nb).is_power_of_two() && next.is_empty() && !cx.checkpoint(&m, na + nb, &format!("pairwise level size {}", na + nb)) {
                                std::mem::forget(m);
                                std::mem::forget(next);
                                std::mem::forget(it);
                                return;
                            }
                            next.push((m, na + nb));
                        } else {
                            next.push((a, na));
                        }
                    }
                    level = next;
                }
                let (tt, nn) = level.pop().unwrap();
                t = tt;
                len = nn;
            }
            "random_mix" => {
                let mut k = 0u64;
                while len < n {
                    if len > 0 && rng.chance(1, 3) {
                        lib!(t.remove_at(rng.usize_below(len)));
                        len -= 1;
                    } else {
                        // biased positions: ends and random
                        let pos = match rng.below(4) {
                            0 => 0,
                            1 => len,
                            _ => rng.range_usize(0, len),
                        };
                        k += 1;
                        grow!(pos, k);
                    }
                }
            }
            "grow_shrink_grow" => {
                for i in 0..n / 2 {
                    grow!(len, i as u64);
                }
                while len > n / 16 + 1 {
                    lib!(t.remove_at(if len % 2 == 0 { 0 } else { len - 1 }));
                    len -= 1;
                }
                if !cx.checkpoint(&t, len, "after shrink") {
                    return;
                }
                cx.next_checkpoint = 64;
                while cx.next_checkpoint <= len {
                    cx.next_checkpoint *= 4;
                }
                for i in 0..n / 2 {
                    grow!(if i % 2 == 0 { 0 } else { len }, i as u64);
                }
            }
            "helper_treaps" => {
                // every element goes through a short-lived helper treap that is created empty, filled and concatenated
                for i in 0..n {
                    let mut helper: Treap<KeyItem> = lib!(Treap::new());
                    lib!(helper.insert_at(0, item(i as u64)));
                    if i % 5 == 4 {
                        lib!(helper.insert_at(1, item(i as u64)));
                        len += 1;
                    }
                    let old = std::mem::take(&mut t);
                    t = if i % 3 == 0 { lib!(Treap::merge(helper, old)) } else { lib!(Treap::merge(old, helper)) };
                    len += 1;
                    if !cx.staged(&t, len) {
                        return;
                    }
                }
            }
            "one_node_per_fresh_thread" => {
                // tens of thousands of short-lived threads, one after the other; the very first thing each of them does
                // with the library is to create one node - through one of four entry points - and hand it back; the nodes
                // are appended in order. The first priority of every thread is what decides the shape.
                // five passes: every thread of a pass uses the same entry point (passes 0..3), or they alternate (pass 4)
                let per = (n / 8).clamp(150, 3000);
                let mixed = n.clamp(600, 40_000);
                let m = 4 * per + mixed;
                let pass_of = |k: usize| (k / per).min(4);
                for k in 0..m {
                    let pass = pass_of(k);
                    if k > 0 && pass_of(k - 1) != pass {
                        // a new pass starts with an empty treap
                        if !cx.checkpoint(&t, len, &format!("one node per fresh thread, entry point pass {}", pass - 1)) {
                            return;
                        }
                        t = lib!(Treap::new());
                        len = 0;
                    }
                    let entry = if pass < 4 { pass } else { k % 4 };
                    let part = std::thread::Builder::new()
                        .stack_size(256 << 10)
                        .spawn(move || -> Treap<KeyItem> {
                            match entry {
                                0 => {
                                    // (the node first, its wrapper afterwards; no struct literal, so that a treap type with
                                    // further fields still builds)
                                    let node = TreapNode::new(item(k as u64));
                                    let mut tr: Treap<KeyItem> = Treap::new();
                                    tr.root = Some(Box::new(node));
                                    tr
                                }
                                1 => Treap::from_item(item(k as u64)),
                                2 => {
                                    let mut tr: Treap<KeyItem> = Treap::default();
                                    tr.insert_at(0, item(k as u64));
                                    tr
                                }
                                _ => {
                                    let mut tr: Treap<KeyItem> = Treap::new();
                                    tr.insert_at(0, item(k as u64));
                                    tr
                                }
                            }
                        })
                        .expect("spawn")
                        .join();
                    let part = match part {
                        Ok(p) => p,
                        Err(_) => {
                            cx.violation("panic", Json::obj().set("what", "a thread creating its first node panicked"));
                            return;
                        }
                    };
                    let old = std::mem::take(&mut t);
                    t = lib!(Treap::merge(old, part));
                    len += 1;
                    if !cx.staged(&t, len) {
                        return;
                    }
                }
                cx.rep.count("threads_contributing_their_first_node", m as u64);
            }
            "split_insert_gather" => {
                // one treap is cut into many parts, every part receives new elements through insert_at, the parts are put
                // together again (first with the old elements removed, so that the new nodes are neighbours; then with both
                // kept; then cut by split_by): the priorities of nodes inserted into different parts of one former treap must
                // be as independent as any others
                let k = n.min(1500).max(64);
                for variant in 0..3 {
                    let mut whole: Treap<KeyItem> = lib!(Treap::new());
                    for i in 0..k {
                        lib!(whole.insert_at(i, item(i as u64)));
                    }
                    let mut parts: Vec<Treap<KeyItem>> = Vec::with_capacity(k);
                    let mut rest = whole;
                    for i in 0..k - 1 {
                        let (a, b) = if variant == 2 { lib!(rest.split_by(|it: &KeyItem| it.key <= i as u64)) } else { lib!(rest.split_at(1)) };
                        parts.push(a);
                        rest = b;
                    }
                    parts.push(rest);
                    let mut total = 0usize;
                    let mut gathered: Treap<KeyItem> = lib!(Treap::new());
                    for (i, mut part) in parts.into_iter().enumerate() {
                        lib!(part.insert_at(1, item(1_000_000 + i as u64)));
                        if variant == 0 {
                            lib!(part.remove_at(0));
                            total += 1;
                        } else {
                            if i % 3 == 0 {
                                lib!(part.insert_at(0, item(2_000_000 + i as u64)));
                                total += 1;
                            }
                            total += 2;
                        }
                        gathered = lib!(Treap::merge(gathered, part));
                    }
                    cx.rep.inc("split_insert_gather_rounds");
                    let ok = cx.checkpoint(&gathered, total, &format!("{} parts of one treap, an element inserted into each, gathered again (variant {})", k, variant));
                    if !ok {
                        std::mem::forget(gathered);
                        return;
                    }
                }
                len = 0;
            }
            "tie_storm" => {
                // priorities assigned through the public field from a tiny set, so almost every comparison is a tie: heap
                // order (ties allowed) must survive any split / merge history; the height bound does not apply to
                // caller-chosen priorities, so only order and node count are judged here
                let m = n.min(3000);
                let mut keep_checking = true;
                for i in 0..m {
                    let mut single = lib!(Treap::from_item(item(i as u64)));
                    single.root.as_mut().unwrap().priority = [7u32, 7, 8, 7, 9, 0, u32::MAX, u32::MAX - 1, 1][rng.usize_below(if i % 2 == 0 { 5 } else { 9 })];
                    let pos = rng.range_usize(0, len);
                    let old = std::mem::take(&mut t);
                    let (a, b) = lib!(old.split_at(pos));
                    t = lib!(Treap::merge(Treap::merge(a, single), b));
                    len += 1;
                    if i % 7 == 0 && len > 2 {
                        let k = rng.range_usize(1, len - 1);
                        let old = std::mem::take(&mut t);
                        let (a, b) = lib!(old.split_at(k));
                        t = lib!(Treap::merge(b, a));
                    }
                    if i % 64 == 63 {
                        let s = measure(&t);
                        cx.rep.inc("checkpoints");
                        cx.rep.count("edges_checked", s.edges);
                        cx.rep.count("priority_ties_seen", s.ties);
                        if (s.up_edges > 0 && s.down_edges > 0) || s.nodes != len {
                            keep_checking = false;
                            cx.failed = true;
                            cx.violation(
                                "heap_order",
                                Json::obj()
                                    .set("what", "with caller-assigned, mostly equal priorities the heap order is not kept consistently in one direction")
                                    .set("edges_parent_lt_child", s.up_edges)
                                    .set("edges_parent_gt_child", s.down_edges)
                                    .set("nodes", s.nodes)
                                    .set("want_nodes", len),
                            );
                            break;
                        }
                    }
                }
                // this workload ends here: no height judgement (degenerate by construction); leak the tree
                let _ = keep_checking;
                let tt = std::mem::take(&mut t);
                std::mem::forget(tt);
                return;
            }
            "cross_thread_merge_few" | "cross_thread_merge_many" => {
                // treaps built on different threads (each thread owns its treap while building it), then moved to this
                // thread and concatenated: a lawful history of insertions and merges. If the threads' priority sources
                // are correlated (e.g. identically seeded), the merged tree carries ties at every level
                let k = if name.ends_with("few") { 16 } else { 256.min(n / 64).max(2) };
                let per = (n / k).max(8);
                let handles: Vec<_> = (0..k)
                    .map(|t| {
                        std::thread::Builder::new()
                            .stack_size(64 << 20)
                            .spawn(move || {
                                let mut tr: Treap<KeyItem> = Treap::new();
                                for i in 0..per {
                                    // sorted appends on even threads, front insertion on odd ones
                                    if t % 2 == 0 {
                                        tr.insert_at(i, item((t * per + i) as u64));
                                    } else {
                                        tr.insert_at(0, item((t * per + i) as u64));
                                    }
                                }
                                tr
                            })
                            .expect("spawn")
                    })
                    .collect();
                for (j, h) in handles.into_iter().enumerate() {
                    let part = match h.join() {
                        Ok(p) => p,
                        Err(_) => {
                            cx.violation("panic", Json::obj().set("what", "a thread building its own treap panicked"));
                            return;
                        }
                    };
                    let old = std::mem::take(&mut t);
                    t = if j % 3 == 2 { lib!(Treap::merge(part, old)) } else { lib!(Treap::merge(old, part)) };
                    len += per;
                    if !cx.staged(&t, len) {
                        return;
                    }
                }
            }
            "cross_thread_merge_sequential" => {
                // the same, but every thread has finished before the next one starts (a later thread reuses the stack and
                // thread-local block of an earlier one: whatever per-thread state is derived from addresses or recycled
                // identifiers repeats)
                let k = 400.min(n / 64).max(2);
                let per = (n / k).clamp(8, 1500);
                for j in 0..k {
                    let part = std::thread::Builder::new()
                        .stack_size(64 << 20)
                        .spawn(move || {
                            let mut tr: Treap<KeyItem> = Treap::new();
                            for i in 0..per {
                                if j % 2 == 0 {
                                    tr.insert_at(i, item((j * per + i) as u64));
                                } else {
                                    tr.insert_at(0, item((j * per + i) as u64));
                                }
                            }
                            tr
                        })
                        .expect("spawn")
                        .join();
                    let part = match part {
                        Ok(p) => p,
                        Err(_) => {
                            cx.violation("panic", Json::obj().set("what", "a thread building its own treap panicked"));
                            return;
                        }
                    };
                    let old = std::mem::take(&mut t);
                    t = if j % 3 == 2 { lib!(Treap::merge(part, old)) } else { lib!(Treap::merge(old, part)) };
                    len += per;
                    if !cx.staged(&t, len) {
                        return;
                    }
                }
            }
            "special_priority_values" => {
                // A path that is only taken when a drawn priority has a special value (0, u32::MAX) is reached by chance
                // once in 2^32 node creations. The priority stream of a thread is a deterministic function of the order
                // in which threads first create a node, so the place where a special value is due can be computed: the
                // model (seed 42 + k * golden ratio, 64-bit LCG of rlib_rand, low word of the folded output) is compared
                // with a probe thread's first priorities; if it describes them, the nearest (thread, creation index) with
                // priority 0 or u32::MAX is searched, the threads before it are used up, and on that thread the special
                // node is created in the middle of 3000 sorted appends. Skipped (recorded) if the model does not apply.
                const G: u64 = 0x9E37_79B9_7F4A_7C15;
                const A: u64 = 6364136223846793005;
                const C: u64 = 1442695040888963407;
                let prio_at = |k: u64, upto: usize, out: &mut Vec<u32>| {
                    let mut st = 42u64.wrapping_add(k.wrapping_mul(G));
                    for _ in 0..upto {
                        st = st.wrapping_mul(A).wrapping_add(C);
                        out.push((st ^ (st >> 32)) as u32);
                    }
                };
                let probe: Vec<u32> = std::thread::spawn(|| (0..3).map(|i| TreapNode::new(item(i)).priority).collect()).join().unwrap_or_default();
                let mut k0: Option<u64> = None;
                for k in 0..200_000u64 {
                    let mut v = Vec::with_capacity(3);
                    prio_at(k, 3, &mut v);
                    if v == probe {
                        k0 = Some(k);
                        break;
                    }
                }
                let k0 = match k0 {
                    Some(k) => k,
                    None => {
                        cx.rep.extra("special_priority_values", "not applicable: a fresh thread's priorities are not the modelled stream (seed 42 + k*G, rlib_rand LCG)");
                        return;
                    }
                };
                // search the next 256 threads x 2^25 creations, 16 searchers
                let found: Vec<(u64, usize, u32)> = std::thread::scope(|sc| {
                    let hs: Vec<_> = (0..16u64)
                        .map(|w| {
                            sc.spawn(move || {
                                let mut best: Vec<(u64, usize, u32)> = Vec::new();
                                let mut t = k0 + 1 + w;
                                while t < k0 + 1 + 256 {
                                    let mut st = 42u64.wrapping_add(t.wrapping_mul(G));
                                    for j in 0..(1usize << 25) {
                                        st = st.wrapping_mul(A).wrapping_add(C);
                                        let p = (st ^ (st >> 32)) as u32;
                                        if (p == 0 || p == u32::MAX) && j >= 2000 {
                                            best.push((t, j, p));
                                            break;
                                        }
                                    }
                                    t += 16;
                                }
                                best
                            })
                        })
                        .collect();
                    hs.into_iter().flat_map(|h| h.join().unwrap_or_default()).collect()
                });
                cx.rep.count("special_priority_positions_found", found.len() as u64);
                // the cheapest position for each of the two values
                let mut next_thread = k0 + 1;
                for want in [0u32, u32::MAX] {
                    let mut cands: Vec<&(u64, usize, u32)> = found.iter().filter(|f| f.2 == want && f.0 >= next_thread).collect();
                    cands.sort_by_key(|f| f.1 + 20_000 * (f.0 - next_thread) as usize);
                    let &(tk, j, _) = match cands.first() {
                        Some(c) => *c,
                        None => continue,
                    };
                    // use up the generators of the threads in between
                    while next_thread < tk {
                        let _ = std::thread::spawn(|| TreapNode::new(item(0)).priority).join();
                        next_thread += 1;
                    }
                    next_thread = tk + 1;
                    let res = std::thread::Builder::new()
                        .stack_size(256 << 20)
                        .spawn(move || {
                            for i in 0..j - 1500 {
                                drop(TreapNode::new(item(i as u64)));
                            }
                            let mut tr: Treap<KeyItem> = Treap::new();
                            let mut special_seen = false;
                            for i in 0..3000usize {
                                tr.insert_at(i, item(i as u64));
                            }
                            // the node with the special value is the 1501st appended
                            fn find(n: &TreapNode<KeyItem>, want: u32) -> bool {
                                n.priority == want || n.left.as_ref().map(|l| find(l, want)).unwrap_or(false) || n.right.as_ref().map(|r| find(r, want)).unwrap_or(false)
                            }
                            if let Some(r) = &tr.root {
                                special_seen = find(r, want);
                            }
                            (tr, special_seen)
                        })
                        .expect("spawn")
                        .join();
                    match res {
                        Ok((tr, seen)) => {
                            cx.rep.inc("special_priority_treaps_built");
                            if seen {
                                cx.rep.inc("special_priority_values_observed_in_a_treap");
                            }
                            let ok = cx.checkpoint(&tr, 3000, &format!("3000 sorted appends around the creation that draws priority {:#x} (thread #{} of the process, its creation #{})", want, tk, j));
                            if !ok {
                                std::mem::forget(tr);
                                return;
                            }
                        }
                        Err(_) => {
                            cx.violation("panic", Json::obj().set("what", "building a treap around the creation that draws a special priority value panicked").set("priority", want as u64));
                            return;
                        }
                    }
                }
                len = 0;
            }
            "stride_scan" => {
                // A treap whose elements are every q-th created node (q - 1 scratch nodes are created and dropped between two
                // insertions) is a lawful history for every q. Screening: the priorities of the next M created nodes are
                // read, and for every stride q <= 4096 the height of the Cartesian tree of the subsequence p[0], p[q], ...
                // (that is the shape sorted appends give) is computed from the priorities alone. Verdict: the real treaps
                // for the worst strides are then built with sorted appends and judged by the usual checkpoint.
                let m = (8 * n).clamp(400_000, 4_000_000);
                let prios: Vec<u32> = (0..m).map(|i| lib!(TreapNode::new(item(i as u64))).priority).collect();
                cx.rep.count("priorities_sampled", m as u64);
                // does the stream repeat itself? Two equal consecutive priorities reappearing later (a 64-bit coincidence: not
                // by chance within a few million draws) give the lag of a cycle; that lag joins the strides below
                let mut lags: Vec<usize> = Vec::new();
                {
                    let mut seen: std::collections::HashMap<u64, u32> = std::collections::HashMap::with_capacity(m);
                    for i in 0..m - 2 {
                        let key = (prios[i] as u64) << 32 | prios[i + 1] as u64;
                        if let Some(&j) = seen.get(&key) {
                            if prios[j as usize + 2] == prios[i + 2] {
                                let lag = i - j as usize;
                                if !lags.contains(&lag) && lags.len() < 4 {
                                    lags.push(lag);
                                }
                                continue;
                            }
                        }
                        seen.insert(key, i as u32);
                    }
                }
                cx.rep.count("priority_stream_repetition_lags_found", lags.len() as u64);
                let mut scored: Vec<(f64, usize, usize, usize)> = Vec::new(); // (ratio, stride, len, height)
                // every stride up to 4096, then 2^k * {1, 3, 5, 7} as far as 64 elements remain (what survives "delete every
                // second element" r times is the stride 2^r)
                let mut strides: Vec<usize> = (1..=4096usize).collect();
                let mut pw = 8192usize;
                while pw <= m / 64 {
                    for odd in [1usize, 3, 5, 7] {
                        if pw / 2 * odd > 4096 && pw / 2 * odd <= m / 64 {
                            strides.push(pw / 2 * odd);
                        }
                    }
                    pw *= 2;
                }
                for &lag in &lags {
                    if lag >= 1 && lag <= m / 64 {
                        strides.push(lag);
                    }
                }
                strides.sort_unstable();
                strides.dedup();
                for q in strides {
                    let l = (m / q).min(3000);
                    if l < 64 {
                        break;
                    }
                    let sub: Vec<u32> = (0..l).map(|i| prios[i * q]).collect();
                    let h = cartesian_height(&sub, false).max(cartesian_height(&sub, true));
                    cx.rep.inc("strides_screened");
                    scored.push((h as f64 / height_bound(l), q, l, h));
                }
                scored.sort_by(|a, b| b.0.partial_cmp(&a.0).unwrap());
                cx.rep.max("stride_screen_worst_height_over_bound_x100", (scored[0].0 * 100.0) as i64);
                for &(ratio, q, l, h) in scored.iter().take(3) {
                    let mut tr: Treap<KeyItem> = Treap::new();
                    for i in 0..l {
                        lib!(tr.insert_at(i, item(i as u64)));
                        for _ in 1..q {
                            drop(lib!(TreapNode::new(item(0))));
                        }
                    }
                    cx.rep.inc("stride_treaps_built");
                    let ok = cx.checkpoint(&tr, l, &format!("every {}-th created node, {} sorted appends (screened height {}, {:.2} of the bound)", q, l, h, ratio));
                    if !ok {
                        std::mem::forget(tr);
                        return;
                    }
                }
                len = 0;
            }
            _ => panic!("unknown workload {}", name),
        }
        cx.checkpoint(&t, len, "final");
    });
    if let Err(p) = res {
        cx.failed = true;
        if p.in_lib {
            cx.violation("panic", Json::obj().set("panic", p.msg.as_str()).set("at", format!("{}:{}", p.file, p.line)));
        } else {
            cx.rep.inconclusive(format!("harness panic at {}:{}: {}", p.file, p.line, p.msg));
        }
    }
    let s = measure(&t);
    let ratio = if s.nodes > 1 { s.height as f64 / ((s.nodes + 1) as f64).log2() } else { 0.0 };
    let worst = cx.worst_ratio;
    let failed = cx.failed;
    rep.sample(
        Json::obj()
            .set("workload", name)
            .set("target_n", n)
            .set("final_nodes", s.nodes)
            .set("final_height", s.height)
            .set("height_bound", height_bound(s.nodes))
            .set("height_over_log2n", (ratio * 100.0).round() / 100.0)
            .set("worst_height_over_log2n_at_checkpoints", (worst * 100.0).round() / 100.0),
    );
    rep.max("worst_height_over_log2n_x100", (worst * 100.0) as i64);
    if failed {
        // a degenerate tree must not be dropped recursively
        std::mem::forget(t);
    }
}
