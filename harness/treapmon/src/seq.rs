//! C03: the treap as a sequence. A pool of live treaps, each shadowed by a Vec; every API result is
//! compared with the model, and after every operation a read-only walk over the public node fields
//! reconstructs each treap's effective sequence (pending modifications of ancestors applied, nearest
//! ancestor first) and checks the stored aggregate of every node - without perturbing pending state.

use crate::items::*;
use common::{catch, hash_of, lib, mix, Json, Report, Rng};
use rlib_treap::{Treap, TreapNode};

#[derive(Clone, Copy, Debug, PartialEq)]
pub enum Regime {
    Library,
    Uniform,
    Tiny,
    Increasing,
    Decreasing,
    Constant,
}

pub const REGIMES: [Regime; 6] =
    [Regime::Library, Regime::Uniform, Regime::Tiny, Regime::Increasing, Regime::Decreasing, Regime::Constant];

pub struct Live<I: MonItem> {
    pub treap: Treap<I>,
    pub model: Vec<(u32, I::Elem)>,
}

pub struct World<'a, I: MonItem> {
    pub pool: Vec<Live<I>>,
    pub next_id: u32,
    pub regime: Regime,
    pub prio_rng: Rng,
    pub prio_counter: u32,
    pub log: Vec<String>,
    pub rep: &'a mut Report,
    pub replay: Vec<String>,
    pub ops_done: usize,
}

fn walk<I: MonItem>(
    node: &TreapNode<I>,
    inherited: Option<&I::Mod>,
    out: &mut Vec<(u32, I::Elem)>,
    errs: &mut Vec<String>,
    depth: usize,
    maxdepth: &mut usize,
) {
    if depth > *maxdepth {
        *maxdepth = depth;
    }
    let child_inh: Option<I::Mod> = match (node.item.pend(), inherited) {
        (None, None) => None,
        (Some(p), None) => Some(p),
        (None, Some(q)) => Some(q.clone()),
        (Some(p), Some(q)) => Some(I::compose(&p, q)),
    };
    let start = out.len();
    if let Some(l) = &node.left {
        walk(l, child_inh.as_ref(), out, errs, depth + 1, maxdepth);
    }
    // (inherited modifications are relative to the first element of this subtree)
    let left_count = out.len() - start;
    let mut e = node.item.elem();
    if let Some(q) = inherited {
        I::apply_elem_at(&mut e, q, left_count);
    }
    out.push((node.item.id(), e));
    if let Some(r) = &node.right {
        let right_inh = child_inh.as_ref().map(|m| I::shift(m, left_count + 1));
        walk(r, right_inh.as_ref(), out, errs, depth + 1, maxdepth);
    }
    let elems: Vec<I::Elem> = out[start..].iter().map(|x| x.1.clone()).collect();
    let want = I::fold(&elems);
    let got = match inherited {
        Some(q) => I::apply_agg(&node.item.agg(), q),
        None => node.item.agg(),
    };
    if got != want && errs.len() < 3 {
        errs.push(format!(
            "node id {} (depth {}): stored aggregate (with ancestors' pending modifications applied) {:?}, fold of its subsequence {:?}",
            node.item.id(),
            depth,
            got,
            want
        ));
    }
    if node.item.size() != elems.len() && errs.len() < 3 {
        errs.push(format!("node id {}: size() {} but subtree has {} nodes", node.item.id(), node.item.size(), elems.len()));
    }
}

thread_local! {
    static AUX: std::cell::RefCell<Option<(Treap<AffItem>, Vec<u64>)>> = std::cell::RefCell::new(None);
    static AUX_ERR: std::cell::RefCell<Option<String>> = std::cell::RefCell::new(None);
}

/// one round of work on this thread's auxiliary treap (values sorted, so value predicates are lawful): split_by with a
/// predicate that (down to `depth`) does the same again, merge back, now and then insert / remove at the ends, collect.
/// Results are compared with the auxiliary model; the first mismatch is parked in AUX_ERR.
fn aux_exercise(x: u64, depth: u32) {
    let taken = AUX.with(|c| c.borrow_mut().take());
    let (t, mut model) = match taken {
        Some(p) => p,
        None => {
            let mut t: Treap<AffItem> = Treap::new();
            let mut model = Vec::new();
            for k in 0..24u64 {
                t.insert_at(k as usize, AffItem::make(1_000_000 + k as u32, &(10 * k + 5)));
                model.push(10 * k + 5);
            }
            (t, model)
        }
    };
    let len = model.len();
    let k = (x % (len as u64 + 1)) as usize;
    let thr = if k == len { u64::MAX } else { model[k] };
    let mut inner_calls = 0u64;
    let (l, r) = t.split_by(|it: &AffItem| {
        inner_calls += 1;
        if depth > 1 && inner_calls == 2 {
            // the auxiliary treap is taken out while this runs: the nested round builds a fresh one and drops it
            aux_exercise(x / 3 + 1, depth - 1);
            AUX.with(|c| *c.borrow_mut() = None);
        }
        it.val < thr
    });
    let mut err: Option<String> = None;
    if l.size() != k || r.size() != len - k {
        err = Some(format!("nested split_by at {} of {}: sizes {} and {}", k, len, l.size(), r.size()));
    }
    let mut t = Treap::merge(l, r);
    if x % 5 == 0 && len < 40 {
        let v = model.last().copied().unwrap_or(0) + 10;
        t.insert_at(len, AffItem::make(1_000_000 + (v / 10) as u32, &v));
        model.push(v);
    } else if x % 5 == 1 && len > 12 {
        let got = t.remove_at(len - 1);
        let want = model.pop().unwrap();
        if got.val != want {
            err = Some(format!("nested remove_at returned {} instead of {}", got.val, want));
        }
    }
    let got: Vec<u64> = t.collect().iter().map(|it| it.val).collect();
    if got != model {
        err = Some(format!("nested collect gave {:?}, want {:?}", got, model));
    }
    if let Some(e) = err {
        AUX_ERR.with(|c| {
            let mut c = c.borrow_mut();
            if c.is_none() {
                *c = Some(e);
            }
        });
    }
    AUX.with(|c| *c.borrow_mut() = Some((t, model)));
}

impl<'a, I: MonItem> World<'a, I> {
    pub fn new(regime: Regime, seed: u64, rep: &'a mut Report, replay: Vec<String>) -> Self {
        World {
            pool: Vec::new(),
            next_id: 0,
            regime,
            prio_rng: Rng::new(seed ^ 0x5151),
            prio_counter: 0,
            log: Vec::new(),
            rep,
            replay,
            ops_done: 0,
        }
    }

    pub fn violation(&mut self, kind: &str, detail: Json) {
        let sig = format!("seq:{}:{}", I::name(), kind).to_lowercase();
        let tail: Vec<String> = if self.log.len() > 80 { self.log[self.log.len() - 80..].to_vec() } else { self.log.clone() };
        let d = detail
            .set("item", I::name())
            .set("priority_regime", format!("{:?}", self.regime))
            .set("history", Json::from(tail));
        self.rep.violation(sig, d, self.replay.clone());
    }

    fn priority(&mut self) -> Option<u32> {
        self.prio_counter += 1;
        match self.regime {
            Regime::Library => None,
            Regime::Uniform => Some(self.prio_rng.next_u64() as u32),
            // many ties, including the two extreme values of the priority type
            Regime::Tiny => Some([0u32, 1, 2, u32::MAX][self.prio_rng.below(4) as usize]),
            Regime::Increasing => Some(self.prio_counter - 1),
            Regime::Decreasing => Some(u32::MAX - (self.prio_counter - 1)),
            Regime::Constant => Some(7),
        }
    }

    /// one-node treap with a priority according to the regime (priority is a public field)
    pub fn single(&mut self, e: &I::Elem) -> (Treap<I>, u32) {
        let id = self.next_id;
        self.next_id += 1;
        let mut t = lib!(Treap::from_item(I::make(id, e)));
        if let Some(p) = self.priority() {
            t.root.as_mut().unwrap().priority = p;
        }
        (t, id)
    }

    pub fn single_with_priority(&mut self, e: &I::Elem, p: u32) -> (Treap<I>, u32) {
        let id = self.next_id;
        self.next_id += 1;
        let mut t = lib!(Treap::from_item(I::make(id, e)));
        t.root.as_mut().unwrap().priority = p;
        (t, id)
    }

    /// read-only check of every live treap against its model
    pub fn check_all(&mut self, after: &str) {
        let mut found: Vec<(String, Json)> = Vec::new();
        for (k, live) in self.pool.iter().enumerate() {
            let mut out = Vec::new();
            let mut errs = Vec::new();
            let mut maxdepth = 0usize;
            if let Some(root) = &live.treap.root {
                walk(root, None, &mut out, &mut errs, 1, &mut maxdepth);
            }
            self.rep.count("nodes_walked", out.len() as u64);
            self.rep.max("max_depth_seen", maxdepth as i64);
            if out != live.model {
                found.push((
                    "walk_sequence".into(),
                    Json::obj()
                        .set("what", "the effective in-order sequence of a treap (pending modifications applied) differs from the model sequence")
                        .set("after", after)
                        .set("pool_index", k)
                        .set("got", format!("{:?}", out))
                        .set("want", format!("{:?}", live.model)),
                ));
            } else if !errs.is_empty() {
                found.push((
                    "walk_aggregate".into(),
                    Json::obj()
                        .set("what", "a stored subtree aggregate differs from the fold of exactly that subsequence")
                        .set("after", after)
                        .set("pool_index", k)
                        .set("errors", Json::from(errs)),
                ));
            }
        }
        self.rep.inc("walk_checks");
        for (k, d) in found {
            self.violation(&k, d);
        }
    }

    fn note_only(&mut self, s: String) {
        if self.log.len() < 600 {
            self.log.push(s);
        }
    }

    fn note(&mut self, s: String) {
        if self.log.len() < 600 {
            self.log.push(s);
        }
        self.ops_done += 1;
    }

    // ---- operations -------------------------------------------------------------------------

    pub fn op_create(&mut self, e: I::Elem) {
        self.note(format!("create {:?}", e));
        let (t, id) = self.single(&e);
        self.pool.push(Live { treap: t, model: vec![(id, e)] });
    }

    pub fn op_create_empty(&mut self) {
        self.note("create_empty".into());
        let t: Treap<I> = if self.ops_done % 2 == 0 { lib!(Treap::new()) } else { Treap::default() };
        self.pool.push(Live { treap: t, model: vec![] });
    }

    pub fn op_merge(&mut self, i: usize, j: usize) {
        self.note(format!("merge pool[{}] ++ pool[{}]", i, j));
        assert!(i != j);
        let (hi, lo) = if i > j { (i, j) } else { (j, i) };
        let a = self.pool.remove(hi);
        let b = self.pool.remove(lo);
        let (left, right) = if i > j { (a, b) } else { (b, a) };
        // left is pool[i], right is pool[j]
        let mut model = left.model;
        model.extend(right.model);
        let t = lib!(Treap::merge(left.treap, right.treap));
        self.pool.push(Live { treap: t, model });
    }

    pub fn op_split_at(&mut self, i: usize, pos: usize) {
        self.note(format!("split_at pool[{}] at {}", i, pos));
        let live = self.pool.remove(i);
        let (l, r) = lib!(live.treap.split_at(pos));
        let mut lm = live.model;
        let rm = lm.split_off(pos);
        self.pool.push(Live { treap: l, model: lm });
        self.pool.push(Live { treap: r, model: rm });
    }

    /// split by the prefix-monotone predicate "the element is one of the first k elements"; a re-entrant predicate works
    /// on another, independent treap of the same thread (splits it with a predicate of its own, merges it back, collects
    /// it) every other time it is asked
    pub fn op_split_by_prefix(&mut self, i: usize, k: usize, reentrant: bool) {
        self.note(format!("split_by pool[{}] pred = id in first {} elements{}", i, k, if reentrant { " (the predicate splits / merges / collects an independent treap while it runs)" } else { "" }));
        let live = self.pool.remove(i);
        let ids: std::collections::HashSet<u32> = live.model[..k].iter().map(|x| x.0).collect();
        let mut calls = 0u64;
        let mut aux_runs = 0u64;
        let (l, r) = lib!(live.treap.split_by(|it: &I| {
            calls += 1;
            if reentrant && calls % 2 == 1 {
                aux_runs += 1;
                aux_exercise(calls + k as u64 * 7, 2);
            }
            ids.contains(&it.id())
        }));
        self.rep.count("split_by_pred_calls", calls);
        self.rep.count("reentrant_predicate_runs_on_an_independent_treap", aux_runs);
        if let Some(e) = AUX_ERR.with(|c| c.borrow_mut().take()) {
            self.violation("reentrant_aux", Json::obj().set("what", "an independent treap used by a split_by predicate (while the outer split_by was running) gave a wrong result").set("error", e));
        }
        let mut lm = live.model;
        let rm = lm.split_off(k);
        self.pool.push(Live { treap: l, model: lm });
        self.pool.push(Live { treap: r, model: rm });
    }

    /// split by value threshold; only lawful when the model is sorted by key
    pub fn op_split_by_value(&mut self, i: usize, t: u64) {
        self.note(format!("split_by pool[{}] pred = key < {}", i, t));
        let live = self.pool.remove(i);
        let k = live.model.iter().filter(|x| I::key(&x.1) < t).count();
        let (l, r) = lib!(live.treap.split_by(|it: &I| I::key(&it.elem()) < t));
        let mut lm = live.model;
        let rm = lm.split_off(k);
        self.pool.push(Live { treap: l, model: lm });
        self.pool.push(Live { treap: r, model: rm });
    }

    pub fn op_insert_at(&mut self, i: usize, pos: usize, e: I::Elem, via_lib: bool) {
        self.note(format!("insert_at pool[{}] pos {} elem {:?} via_lib={}", i, pos, e, via_lib));
        if via_lib {
            let id = self.next_id;
            self.next_id += 1;
            lib!(self.pool[i].treap.insert_at(pos, I::make(id, &e)));
            self.pool[i].model.insert(pos, (id, e));
        } else {
            // same thing composed from split/merge, with a harness-chosen priority
            let (node, id) = self.single(&e);
            let live = self.pool.remove(i);
            let (l, r) = lib!(live.treap.split_at(pos));
            let t = lib!(Treap::merge(Treap::merge(l, node), r));
            let mut model = live.model;
            model.insert(pos, (id, e));
            self.pool.insert(i, Live { treap: t, model });
        }
    }

    /// insert_at of an item that still carries a pending modification of its own (it was the root of a one-element treap
    /// when the modification was attached): the modification belongs to that one element and to nothing it is joined with
    pub fn op_insert_pending(&mut self, i: usize, pos: usize, e: I::Elem, m: I::Mod) {
        self.note(format!("insert_at pool[{}] pos {} elem {:?} carrying the pending modification {:?}", i, pos, e, m));
        self.rep.inc("inserted_items_with_pending_modification");
        let id = self.next_id;
        self.next_id += 1;
        let mut single = lib!(Treap::from_item(I::make(id, &e)));
        single.root_mut().unwrap().attach(&m);
        // (taken out with mem::take, not by moving the field: that keeps compiling if the node type ever gets a Drop impl)
        let mut node = single.root.take().unwrap();
        let item = std::mem::take(&mut node.item);
        drop(node);
        let mut e2 = e;
        I::apply_elem_at(&mut e2, &m, 0);
        lib!(self.pool[i].treap.insert_at(pos, item));
        self.pool[i].model.insert(pos, (id, e2));
    }

    pub fn op_remove_at(&mut self, i: usize, pos: usize) {
        self.note(format!("remove_at pool[{}] pos {}", i, pos));
        let want = self.pool[i].model.remove(pos);
        let got = lib!(self.pool[i].treap.remove_at(pos));
        self.rep.inc("api_results_checked");
        // the removed item is a sequence of one element: its own aggregate and size must say so (it may be inserted
        // again as it is)
        if got.agg() != I::fold(std::slice::from_ref(&want.1)) || got.size() != 1 || got.pend().is_some() && false {
            self.violation(
                "remove_at_item_not_single",
                Json::obj()
                    .set("what", "the item returned by remove_at does not carry the aggregate / size of a single element")
                    .set("aggregate", format!("{:?}", got.agg()))
                    .set("size", got.size())
                    .set("want_aggregate", format!("{:?}", I::fold(std::slice::from_ref(&want.1)))),
            );
        }
        if got.id() != want.0 || got.elem() != want.1 {
            self.violation(
                "remove_at",
                Json::obj()
                    .set("what", "remove_at returned a different element (or one without its pending modifications applied)")
                    .set("got", format!("({}, {:?})", got.id(), got.elem()))
                    .set("want", format!("{:?}", want)),
            );
        }
    }

    /// remove an element and insert the very item that came back somewhere else (possibly into another treap)
    pub fn op_move(&mut self, i: usize, pos: usize, j: usize, pos2: usize) {
        self.note(format!("move: remove_at pool[{}] pos {} -> insert_at pool[{}] pos {}", i, pos, j, pos2));
        let want = self.pool[i].model.remove(pos);
        let got = lib!(self.pool[i].treap.remove_at(pos));
        self.rep.inc("api_results_checked");
        self.rep.inc("reinserted_removed_items");
        if got.id() != want.0 || got.elem() != want.1 {
            self.violation(
                "remove_at",
                Json::obj().set("got", format!("({}, {:?})", got.id(), got.elem())).set("want", format!("{:?}", want)),
            );
        }
        let pos2 = pos2.min(self.pool[j].model.len());
        lib!(self.pool[j].treap.insert_at(pos2, got));
        self.pool[j].model.insert(pos2, want);
    }

    pub fn op_first_last(&mut self, i: usize, first: bool) {
        self.note(format!("{} pool[{}]", if first { "first" } else { "last" }, i));
        let want = if first { self.pool[i].model.first().cloned() } else { self.pool[i].model.last().cloned() };
        let got = if first {
            lib!(self.pool[i].treap.first()).map(|it| (it.id(), it.elem()))
        } else {
            lib!(self.pool[i].treap.last()).map(|it| (it.id(), it.elem()))
        };
        self.rep.inc("api_results_checked");
        if got != want {
            self.violation(
                if first { "first" } else { "last" },
                Json::obj().set("got", format!("{:?}", got)).set("want", format!("{:?}", want)),
            );
        }
    }

    pub fn op_size_root(&mut self, i: usize) {
        self.note(format!("size/root/is_empty pool[{}]", i));
        let n = self.pool[i].model.len();
        let got = lib!(self.pool[i].treap.size());
        self.rep.inc("api_results_checked");
        if got != n {
            self.violation("size", Json::obj().set("got", got).set("want", n));
        }
        let e = lib!(self.pool[i].treap.is_empty());
        if e != (n == 0) {
            self.violation("is_empty", Json::obj().set("got", e).set("want", n == 0));
        }
        let elems: Vec<I::Elem> = self.pool[i].model.iter().map(|x| x.1.clone()).collect();
        let want = if n == 0 { None } else { Some(I::fold(&elems)) };
        let got = lib!(self.pool[i].treap.root()).map(|it| it.agg());
        if got != want {
            self.violation(
                "root_aggregate",
                Json::obj()
                    .set("what", "the aggregate at the root differs from the fold of the whole sequence")
                    .set("got", format!("{:?}", got))
                    .set("want", format!("{:?}", want)),
            );
        }
    }

    pub fn op_collect(&mut self, i: usize) {
        self.note(format!("collect pool[{}]", i));
        let got: Vec<(u32, I::Elem)> = lib!(self.pool[i].treap.collect()).iter().map(|it| (it.id(), it.elem())).collect();
        self.rep.inc("api_results_checked");
        if got != self.pool[i].model {
            let want = format!("{:?}", self.pool[i].model);
            self.violation("collect", Json::obj().set("got", format!("{:?}", got)).set("want", want));
        }
    }

    pub fn op_attach(&mut self, i: usize, m: I::Mod) {
        self.note(format!("attach at root of pool[{}]: {:?}", i, m));
        if let Some(root) = lib!(self.pool[i].treap.root_mut()) {
            root.attach(&m);
            for (idx, x) in self.pool[i].model.iter_mut().enumerate() {
                I::apply_elem_at(&mut x.1, &m, idx);
            }
            self.rep.inc("lazy_attachments");
        }
    }

    /// split out [l, r), attach at the root of the middle part; merge back or leave the pieces in the pool
    pub fn op_range_attach(&mut self, i: usize, l: usize, r: usize, m: I::Mod, merge_back: bool) {
        self.note(format!("range_attach pool[{}] [{}, {}) {:?} merge_back={}", i, l, r, m, merge_back));
        let live = self.pool.remove(i);
        let (a, bc) = lib!(live.treap.split_at(l));
        let (mut b, c) = lib!(bc.split_at(r - l));
        let mut am = live.model;
        let mut bm = am.split_off(l);
        let cm = bm.split_off(r - l);
        if let Some(root) = lib!(b.root_mut()) {
            root.attach(&m);
            for (idx, x) in bm.iter_mut().enumerate() {
                I::apply_elem_at(&mut x.1, &m, idx);
            }
            self.rep.inc("lazy_attachments");
        }
        if merge_back {
            let t = lib!(Treap::merge(Treap::merge(a, b), c));
            am.extend(bm);
            am.extend(cm);
            self.pool.insert(i, Live { treap: t, model: am });
        } else {
            self.pool.push(Live { treap: a, model: am });
            self.pool.push(Live { treap: b, model: bm });
            self.pool.push(Live { treap: c, model: cm });
        }
    }

    /// split-and-swap rotation
    pub fn op_rotate(&mut self, i: usize, k: usize) {
        self.note(format!("rotate pool[{}] by {}", i, k));
        let live = self.pool.remove(i);
        let (a, b) = lib!(live.treap.split_at(k));
        let t = lib!(Treap::merge(b, a));
        let mut am = live.model;
        let mut bm = am.split_off(k);
        bm.extend(am);
        self.pool.insert(i, Live { treap: t, model: bm });
    }

    pub fn total_elems(&self) -> usize {
        self.pool.iter().map(|l| l.model.len()).sum()
    }

    pub fn drop_empty_and_excess(&mut self) {
        // keep the pool small: drop empty treaps beyond one, and whole treaps beyond 6
        let mut seen_empty = false;
        let mut k = 0;
        while k < self.pool.len() {
            if self.pool[k].model.is_empty() {
                if seen_empty {
                    self.pool.remove(k);
                    continue;
                }
                seen_empty = true;
            }
            k += 1;
        }
        while self.pool.len() > 6 {
            self.pool.remove(0);
        }
    }
}

/// one operation of a random history
fn random_step<I: MonItem>(w: &mut World<I>, rng: &mut Rng, regime: Regime, kinds: &mut u32, hist_hash: &mut u64) {
    w.drop_empty_and_excess();
    let np = w.pool.len();
    let total = w.total_elems();
    // choose an op; weights adapt to the state
    let choice = if np == 0 || (total < 4 && rng.chance(1, 2)) { 0 } else { rng.weighted(&[6, 1, 10, 10, 8, 12, 8, 4, 3, 3, 10, 12, 4, 3, 6]) };
    let i = if np > 0 { rng.usize_below(np) } else { 0 };
    let len = if np > 0 { w.pool[i].model.len() } else { 0 };
    *kinds |= 1 << choice;
    *hist_hash = mix(&[*hist_hash, choice as u64, i as u64]);
    match choice {
        0 => w.op_create(I::gen_elem(rng)),
        1 => w.op_create_empty(),
        2 => {
            if np >= 2 {
                let mut j = rng.usize_below(np - 1);
                if j >= i {
                    j += 1;
                }
                w.op_merge(i, j);
            } else {
                w.op_create(I::gen_elem(rng));
            }
        }
        3 => w.op_split_at(i, rng.range_usize(0, len)),
        4 => {
            // by value if the model happens to be sorted, else by prefix membership
            let sorted = w.pool[i].model.windows(2).all(|p| I::key(&p[0].1) <= I::key(&p[1].1));
            if sorted && len > 0 && rng.chance(1, 2) {
                let t = I::key(&w.pool[i].model[rng.usize_below(len)].1) + rng.below(2);
                w.rep.inc("split_by_value");
                w.op_split_by_value(i, t);
            } else {
                w.rep.inc("split_by_prefix");
                w.op_split_by_prefix(i, rng.range_usize(0, len), rng.chance(1, 3));
            }
        }
        5 => {
            if total < 60 {
                let via_lib = regime == Regime::Library || rng.chance(1, 3);
                if via_lib && rng.chance(1, 4) {
                    w.op_insert_pending(i, rng.range_usize(0, len), I::gen_elem(rng), I::gen_mod(rng));
                } else {
                    w.op_insert_at(i, rng.range_usize(0, len), I::gen_elem(rng), via_lib);
                }
            }
        }
        6 => {
            if len > 0 {
                w.op_remove_at(i, rng.usize_below(len));
            }
        }
        7 => w.op_first_last(i, true),
        8 => w.op_first_last(i, false),
        9 => w.op_size_root(i),
        10 => w.op_attach(i, I::gen_mod(rng)),
        11 => {
            if len > 0 {
                let a = rng.range_usize(0, len);
                let b = rng.range_usize(0, len);
                let (l, r) = (a.min(b), a.max(b));
                w.op_range_attach(i, l, r, I::gen_mod(rng), rng.chance(3, 4));
            }
        }
        12 => {
            if rng.chance(1, 3) {
                w.op_collect(i)
            } else {
                w.op_size_root(i)
            }
        }
        13 => {
            if len > 0 {
                w.op_rotate(i, rng.range_usize(0, len));
            }
        }
        _ => {
            if len > 0 {
                let j = rng.usize_below(np);
                let pos = rng.usize_below(len);
                let pos2 = rng.usize_below(w.pool[j].model.len() + 1);
                w.op_move(i, pos, j, pos2);
            }
        }
    }
    let last = w.log.last().cloned().unwrap_or_default();
    w.check_all(&last);
    w.rep.max("max_treap_len", w.pool.iter().map(|l| l.model.len()).max().unwrap_or(0) as i64);
}

fn random_finish<I: MonItem>(w: &mut World<I>, regime: Regime, kinds: &u32, hist_hash: &u64, case_seed: u64, nops: usize, verbose: bool) {
    // final: everything collected and compared
    for i in 0..w.pool.len() {
        w.op_size_root(i);
        w.op_first_last(i, true);
        w.op_first_last(i, false);
        w.op_collect(i);
    }
    w.check_all("final collect");
    // non-trivial: a lazy attachment was followed by structural operations
    if *kinds & ((1 << 10) | (1 << 11)) != 0 && *kinds & ((1 << 2) | (1 << 3) | (1 << 4) | (1 << 5) | (1 << 6)) != 0 {
        w.rep.see("nontrivial", mix(&[*hist_hash, case_seed]));
    }
    if w.rep.wants_sample() && nops <= 12 {
        let s = Json::obj().set("item", I::name()).set("priority_regime", format!("{:?}", regime)).set("history", Json::from(w.log.clone()));
        w.rep.sample(s);
    }
    if verbose {
        for l in &w.log {
            eprintln!("  {}", l);
        }
    }
}

/// one random history, determined by (item, case_seed)
pub fn run_random_case<I: MonItem>(case_seed: u64, rep: &mut Report, verbose: bool) {
    let mut rng = Rng::new(case_seed);
    let regime = REGIMES[rng.usize_below(REGIMES.len())];
    let replay = vec!["--mode".into(), "seq".into(), "--case".into(), format!("{}:{}", I::name(), case_seed)];
    rep.inc("evaluations");
    rep.inc(&format!("histories_{}", I::name()));
    rep.inc(&format!("histories_regime_{:?}", regime));
    let mut w: World<I> = World::new(regime, case_seed, rep, replay);
    let nops = rng.range_usize(5, 60);
    // one history in 256 is handed from thread to thread: every few operations the whole world (treaps with their
    // pending modifications included) moves to a thread that has never touched a treap before, and the history goes on
    // there - nothing about a treap may live in the thread that built it
    let handover = rng.chance(1, 256);
    let mut kinds = 0u32;
    let mut hist_hash = 0u64;
    let mut r: Result<(), common::PanicInfo> = Ok(());
    let mut done = 0usize;
    while done < nops && r.is_ok() {
        let chunk = if handover { rng.range_usize(2, 20).min(nops - done) } else { nops - done };
        let run = |w: &mut World<I>, rng: &mut Rng, kinds: &mut u32, hist_hash: &mut u64| {
            catch(|| {
                for _ in 0..chunk {
                    random_step(w, rng, regime, kinds, hist_hash);
                }
            })
        };
        r = if handover {
            w.rep.inc("thread_handovers");
            w.note_only("(the history continues on a fresh thread)".to_string());
            let (wr, rr, kr, hr) = (&mut w, &mut rng, &mut kinds, &mut hist_hash);
            std::thread::scope(|s| s.spawn(move || run(wr, rr, kr, hr)).join().expect("handover thread"))
        } else {
            run(&mut w, &mut rng, &mut kinds, &mut hist_hash)
        };
        done += chunk;
    }
    if r.is_ok() {
        r = if handover {
            let (wr, kr, hr) = (&mut w, &kinds, &hist_hash);
            std::thread::scope(|s| s.spawn(move || catch(|| random_finish(wr, regime, kr, hr, case_seed, nops, verbose))).join().expect("handover thread"))
        } else {
            catch(|| random_finish(&mut w, regime, &kinds, &hist_hash, case_seed, nops, verbose))
        };
    }
    if handover {
        w.rep.inc("histories_handed_between_threads");
    }
    if let Err(p) = r {
        if p.in_lib {
            let d = Json::obj().set("what", "the library panicked on a lawful operation").set("panic", p.msg.as_str()).set("at", format!("{}:{}", p.file, p.line));
            w.violation("panic", d);
        } else {
            w.rep.inconclusive(format!("harness panic at {}:{}: {}", p.file, p.line, p.msg));
        }
    }
    // degenerate shapes (increasing/decreasing/constant priorities) are deep; drop them without recursion risk:
    // sizes are <= 60, so the recursive Box drop is harmless.
}

// ------------------------------------------------------------------------------------------------
// deep shapes: treaps that are paths of a few thousand nodes (caller-assigned priorities through the public fields, as
// in the Increasing / Decreasing regimes, but far deeper than any random history gets). Every recursion of the
// library - split, merge, insert, remove, push along a root-to-leaf path - runs thousands of levels deep here.

/// a path-shaped treap built directly from nodes: node k+1 hangs under node k on the left (`dirs[k]`) or on the right;
/// priorities fall strictly from the root downwards (in the library's heap direction), `parity` keeps the priorities
/// of two such treaps disjoint and interleaved
fn build_path<I: MonItem>(w: &mut World<I>, elems: &[I::Elem], dirs: &[bool], top_is_larger: bool, parity: u32) -> Live<I> {
    let d = elems.len();
    let first_id = w.next_id;
    w.next_id += d as u32;
    let mut cur: Option<Box<TreapNode<I>>> = None;
    // in-order position of every node: walking up from the deepest node, a node whose child hangs on the left comes
    // after everything below it, otherwise before
    let mut order: std::collections::VecDeque<usize> = std::collections::VecDeque::with_capacity(d);
    for k in (0..d).rev() {
        let mut node = Box::new(lib!(TreapNode::new(I::make(first_id + k as u32, &elems[k]))));
        let depth_rank = 2 * k as u32 + parity;
        node.priority = if top_is_larger { 4_000_000_000 - depth_rank } else { 1_000 + depth_rank };
        if k + 1 < d {
            if dirs[k] {
                node.left = cur.take();
                order.push_back(k);
            } else {
                node.right = cur.take();
                order.push_front(k);
            }
        } else {
            order.push_back(k);
        }
        {
            let TreapNode { item, left, right, .. } = &mut *node;
            item.update(left.as_deref().map(|n| &n.item), right.as_deref().map(|n| &n.item));
        }
        cur = Some(node);
    }
    let mut t: Treap<I> = lib!(Treap::new());
    t.root = cur;
    let model: Vec<(u32, I::Elem)> = order.iter().map(|&k| (first_id + k as u32, elems[k].clone())).collect();
    Live { treap: t, model }
}

pub fn run_deep_case<I: MonItem>(case_seed: u64, rep: &mut Report, verbose: bool) {
    let mut rng = Rng::new(case_seed);
    let replay = vec!["--mode".into(), "seq-deep".into(), "--case".into(), format!("{}:{}", I::name(), case_seed)];
    rep.inc("evaluations");
    rep.inc("deep_histories");
    rep.see("nontrivial", mix(&[case_seed, 0xdee9]));
    let mut w: World<I> = World::new(Regime::Uniform, case_seed, rep, replay);
    let r = catch(|| {
        // which way does the heap point? (root of the merge of priorities 1 and 2)
        let top_is_larger = {
            let (mut a, _) = w.single_with_priority(&I::gen_elem(&mut rng), 1);
            let (mut b, _) = w.single_with_priority(&I::gen_elem(&mut rng), 2);
            let _ = (&mut a, &mut b);
            let t = lib!(Treap::merge(a, b));
            t.root.as_ref().map(|r| r.priority == 2).unwrap_or(true)
        };
        let shapes = ["right_spine", "left_spine", "zigzag", "random", "long_runs"];
        for parity in 0..2u32 {
            let d = rng.range_usize(2100, 3400);
            let shape = shapes[rng.usize_below(shapes.len())];
            let dirs: Vec<bool> = (0..d)
                .map(|k| match shape {
                    "right_spine" => false,
                    "left_spine" => true,
                    "zigzag" => k % 2 == 0,
                    "random" => rng.chance(1, 2),
                    _ => (k / 97) % 2 == 0,
                })
                .collect();
            let elems: Vec<I::Elem> = (0..d).map(|_| I::gen_elem(&mut rng)).collect();
            w.log.push(format!("path-shaped treap of {} nodes, shape {}, priorities falling from the root (parity {})", d, shape, parity));
            let live = build_path(&mut w, &elems, &dirs, top_is_larger, parity);
            w.pool.push(live);
            w.rep.see_str("deep_shapes", shape);
        }
        // a third treap of the same size class built by the library itself (balanced): large subtrees at every level
        {
            let d = rng.range_usize(2000, 3200);
            let mut t: Treap<I> = lib!(Treap::new());
            let mut model: Vec<(u32, I::Elem)> = Vec::with_capacity(d);
            for k in 0..d {
                let e = I::gen_elem(&mut rng);
                let id = w.next_id;
                w.next_id += 1;
                let pos = if k % 3 == 0 { rng.range_usize(0, k) } else { k };
                lib!(t.insert_at(pos, I::make(id, &e)));
                model.insert(pos, (id, e));
            }
            w.log.push(format!("balanced treap of {} nodes built with insert_at (library priorities)", d));
            w.pool.push(Live { treap: t, model });
        }
        w.check_all("construction of the path-shaped treaps");
        let nops = rng.range_usize(6, 14);
        for _ in 0..nops {
            w.drop_empty_and_excess();
            let np = w.pool.len();
            if np == 0 {
                break;
            }
            let i = rng.usize_below(np);
            let len = w.pool[i].model.len();
            match rng.below(12) {
                0 | 1 => {
                    if np >= 2 {
                        let mut j = rng.usize_below(np - 1);
                        if j >= i {
                            j += 1;
                        }
                        w.op_merge(i, j);
                    }
                }
                2 | 3 => w.op_split_at(i, rng.range_usize(0, len)),
                4 => w.op_split_by_prefix(i, rng.range_usize(0, len), rng.chance(1, 2)),
                5 => {
                    if len > 0 {
                        w.op_rotate(i, rng.range_usize(0, len));
                    }
                }
                6 => {
                    if len > 0 {
                        let (a, b) = (rng.range_usize(0, len), rng.range_usize(0, len));
                        w.op_range_attach(i, a.min(b), a.max(b), I::gen_mod(&mut rng), rng.chance(3, 4));
                    }
                }
                7 => w.op_insert_at(i, rng.range_usize(0, len), I::gen_elem(&mut rng), true),
                8 => {
                    if len > 0 {
                        w.op_remove_at(i, rng.usize_below(len));
                    }
                }
                9 => {
                    // a modification attached at the root (left pending there), then a cut exactly at the boundary between
                    // the root's left subtree and the root: the whole left subtree changes hands in one piece
                    w.op_attach(i, I::gen_mod(&mut rng));
                    if rng.chance(1, 2) {
                        w.op_attach(i, I::gen_mod(&mut rng));
                    }
                    let ls = w.pool[i].treap.root.as_ref().map(|r| r.left.as_ref().map(|l| l.item.size()).unwrap_or(0));
                    if let Some(ls) = ls {
                        let pos = match rng.below(3) {
                            0 => ls,
                            1 => (ls + 1).min(len),
                            _ => rng.range_usize(0, len),
                        };
                        w.rep.inc("cuts_at_the_root_boundary_with_a_pending_modification");
                        w.op_split_at(i, pos);
                    }
                }
                _ => {
                    w.op_first_last(i, rng.chance(1, 2));
                    w.op_size_root(i);
                }
            }
            let last = w.log.last().cloned().unwrap_or_default();
            w.check_all(&last);
        }
        if verbose {
            for l in &w.log {
                eprintln!("  {}", l);
            }
        }
    });
    if let Err(p) = r {
        if p.in_lib {
            w.violation("panic", Json::obj().set("what", "the library panicked on a lawful operation on a deep (path-shaped) treap").set("panic", p.msg.as_str()).set("at", format!("{}:{}", p.file, p.line)));
        } else {
            w.rep.inconclusive(format!("harness panic at {}:{}: {}", p.file, p.line, p.msg));
        }
    }
}

// ------------------------------------------------------------------------------------------------
// bounded-exhaustive scope: every weak ordering of the priorities of n elements x every op sequence

/// all weak orderings of n items as rank vectors (ranks 0..k form an initial segment)
pub fn weak_orderings(n: usize) -> Vec<Vec<u32>> {
    fn rec(i: usize, n: usize, cur: &mut Vec<u32>, out: &mut Vec<Vec<u32>>) {
        if i == n {
            // ranks must be surjective onto 0..=max
            let mx = cur.iter().cloned().max().unwrap_or(0);
            let mut seen = vec![false; mx as usize + 1];
            for &c in cur.iter() {
                seen[c as usize] = true;
            }
            if seen.iter().all(|&b| b) {
                out.push(cur.clone());
            }
            return;
        }
        for r in 0..n as u32 {
            cur.push(r);
            rec(i + 1, n, cur, out);
            cur.pop();
        }
    }
    let mut out = Vec::new();
    if n == 0 {
        out.push(vec![]);
        return out;
    }
    rec(0, n, &mut Vec::new(), &mut out);
    out
}

#[derive(Clone, Debug)]
pub enum XOp {
    Attach(LMap),
    RangeAttach(usize, usize, LMap),
    Rotate(usize),
    Remove(usize),
    Insert(usize, u8),
    First,
    Last,
    SplitByPrefixMerge(usize),
}

const XMAPS: [LMap; 2] = [[1, 2, 0], [2, 2, 0]];

/// op alphabet for sequences of length n (positions are clamped at run time when the length changed)
pub fn xops(n: usize) -> Vec<XOp> {
    let mut v = Vec::new();
    for m in XMAPS {
        v.push(XOp::Attach(m));
        for l in 0..n {
            for r in l + 1..=n {
                if !(l == 0 && r == n) {
                    v.push(XOp::RangeAttach(l, r, m));
                }
            }
        }
    }
    for k in 1..n {
        v.push(XOp::Rotate(k));
        v.push(XOp::SplitByPrefixMerge(k));
    }
    for p in 0..n {
        v.push(XOp::Remove(p));
    }
    for p in 0..=n {
        v.push(XOp::Insert(p, (p % 3) as u8));
    }
    v.push(XOp::First);
    v.push(XOp::Last);
    v
}

pub fn run_exhaustive_case(n: usize, ranks: &[u32], seq: &[usize], ops: &[XOp], case_id: &str, rep: &mut Report, verbose: bool) {
    let replay = vec!["--mode".into(), "seq-exhaustive".into(), "--case".into(), case_id.to_string()];
    rep.inc("evaluations");
    let mut w: World<WordItem> = World::new(Regime::Uniform, hash_of(&case_id), rep, replay);
    let r = catch(|| {
        // build the initial treap: letters a b c a b..., priorities = ranks (scaled), merged left to right
        let mut acc: Option<Live<WordItem>> = None;
        for i in 0..n {
            let e = (i % 3) as u8;
            let (t, id) = w.single_with_priority(&e, ranks[i] * 1000 + 5);
            acc = Some(match acc {
                None => Live { treap: t, model: vec![(id, e)] },
                Some(a) => {
                    let mut m = a.model;
                    m.push((id, e));
                    Live { treap: lib!(Treap::merge(a.treap, t)), model: m }
                }
            });
        }
        w.note(format!("build n={} priority ranks {:?}", n, ranks));
        w.pool.push(acc.unwrap_or(Live { treap: Treap::new(), model: vec![] }));
        w.check_all("build");
        let mut nontrivial = false;
        for &k in seq {
            let len = w.pool[0].model.len();
            match &ops[k] {
                XOp::Attach(m) => {
                    nontrivial = true;
                    w.op_attach(0, *m)
                }
                XOp::RangeAttach(l, r, m) => {
                    let r = (*r).min(len);
                    let l = (*l).min(r);
                    nontrivial = true;
                    w.op_range_attach(0, l, r, *m, true);
                }
                XOp::Rotate(k) => w.op_rotate(0, (*k).min(len)),
                XOp::SplitByPrefixMerge(k) => {
                    let k = (*k).min(len);
                    w.op_split_by_prefix(0, k, false);
                    w.check_all("split_by (before merging back)");
                    // pool now [left, right]; merge back
                    w.op_merge(0, 1);
                }
                XOp::Remove(p) => {
                    if len > 0 {
                        w.op_remove_at(0, (*p).min(len - 1));
                    }
                }
                XOp::Insert(p, c) => w.op_insert_at(0, (*p).min(len), *c, true),
                XOp::First => w.op_first_last(0, true),
                XOp::Last => w.op_first_last(0, false),
            }
            let last = w.log.last().cloned().unwrap_or_default();
            w.check_all(&last);
        }
        w.op_size_root(0);
        w.op_collect(0);
        w.check_all("final collect");
        if nontrivial {
            w.rep.see("nontrivial", hash_of(&case_id));
        }
        if w.rep.wants_sample() && seq.len() >= 2 {
            let s = Json::obj().set("case", case_id).set("history", Json::from(w.log.clone()));
            w.rep.sample(s);
        }
        if verbose {
            for l in &w.log {
                eprintln!("  {}", l);
            }
        }
    });
    if let Err(p) = r {
        if p.in_lib {
            let d = Json::obj().set("what", "the library panicked on a lawful operation").set("panic", p.msg.as_str()).set("at", format!("{}:{}", p.file, p.line));
            w.violation("panic", d);
        } else {
            w.rep.inconclusive(format!("harness panic at {}:{}: {}", p.file, p.line, p.msg));
        }
    }
}
