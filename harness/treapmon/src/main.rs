//! treapmon - runtime monitor for the treap.
//!   --mode seq             C03: random histories on a pool of treaps, model + read-only walk invariant
//!   --mode seq-exhaustive  C03: every weak ordering of priorities x every op sequence (small scope)
//!   --mode shape           C16: adversarial growth orders, staged heap-order / height checkpoints
//! Replay: --mode seq --case <Item>:<case_seed> | --mode seq-exhaustive --case <n>:<ordering>:<seqindex>
//!         | --mode shape --case <workload>:<n>

mod items;
mod seq;
mod shape;

use common::{mix, Engine, Json, Report, WorkQueue};
use items::*;

fn decode_seq(mut idx: u64, nops: usize, maxlen: usize) -> Vec<usize> {
    let mut p = 1u64;
    for len in 0..=maxlen {
        if idx < p {
            let mut v = Vec::with_capacity(len);
            for _ in 0..len {
                v.push((idx % nops as u64) as usize);
                idx /= nops as u64;
            }
            return v;
        }
        idx -= p;
        p *= nops as u64;
    }
    unreachable!()
}

fn total_seqs(nops: usize, maxlen: usize) -> u64 {
    let mut t = 0u64;
    let mut p = 1u64;
    for _ in 0..=maxlen {
        t += p;
        p *= nops as u64;
    }
    t
}

fn exhaustive_len(n: usize, thorough: bool) -> usize {
    if thorough {
        match n {
            0..=3 => 5,
            4 => 4,
            _ => 3,
        }
    } else {
        match n {
            0..=2 => 4,
            3 => 3,
            4 => 3,
            _ => 2,
        }
    }
}

fn main() {
    let eng = Engine::start("treapmon");
    let a = &eng.args;
    let mode = a.str("mode", "seq");
    let thorough = a.thorough();
    let seed = a.seed();
    let mut report = Report::new();
    report.extra("mode", mode.as_str());
    match mode.as_str() {
        "seq" => {
            if let Some(case) = a.opt("case") {
                let (name, cs) = case.rsplit_once(':').expect("case = item:seed");
                let cs: u64 = cs.parse().unwrap();
                let mut rep = Report::new();
                match name {
                    "AffItem" => seq::run_random_case::<AffItem>(cs, &mut rep, true),
                    "WordItem" => seq::run_random_case::<WordItem>(cs, &mut rep, true),
                    "ProgItem" => seq::run_random_case::<ProgItem>(cs, &mut rep, true),
                    _ => panic!("unknown item"),
                }
                report.merge(rep);
                eng.finish(report);
            }
            let total = a.u64("cases", if thorough { 12_000_000 } else { 600_000 });
            let q = WorkQueue::new(total);
            let rep = common::run_sharded(a.threads(), |_s, rep| {
                rep.sample_cap = 2;
                while let Some((lo, hi)) = q.take_block(32) {
                    for idx in lo..hi {
                        let cs = mix(&[seed, 0xC03, idx]);
                        if idx % 5 == 4 {
                            seq::run_random_case::<ProgItem>(cs, rep, false);
                        } else if idx % 2 == 0 {
                            seq::run_random_case::<WordItem>(cs, rep, false);
                        } else {
                            seq::run_random_case::<AffItem>(cs, rep, false);
                        }
                    }
                }
            });
            report.merge(rep);
            report.extra("exhaustive", false);
        }
        "seq-deep" => {
            if let Some(case) = a.opt("case") {
                let (name, cs) = case.rsplit_once(':').expect("case = item:seed");
                let cs: u64 = cs.parse().unwrap();
                let name = name.to_string();
                let rep = common::run_big_stack(move || {
                    let mut rep = Report::new();
                    match name.as_str() {
                        "AffItem" => seq::run_deep_case::<AffItem>(cs, &mut rep, true),
                        "WordItem" => seq::run_deep_case::<WordItem>(cs, &mut rep, true),
                        "ProgItem" => seq::run_deep_case::<ProgItem>(cs, &mut rep, true),
                        _ => panic!("unknown item"),
                    }
                    rep
                });
                report.merge(rep);
                eng.finish(report);
            }
            let total = a.u64("cases", if thorough { 1600 } else { 96 });
            let q = WorkQueue::new(total);
            let rep = common::run_sharded(a.threads(), |_s, rep| {
                rep.sample_cap = 0;
                while let Some(idx) = q.take() {
                    let cs = mix(&[seed, 0xDEE9, idx]);
                    if idx % 5 == 4 {
                        seq::run_deep_case::<ProgItem>(cs, rep, false);
                    } else if idx % 2 == 0 {
                        seq::run_deep_case::<WordItem>(cs, rep, false);
                    } else {
                        seq::run_deep_case::<AffItem>(cs, rep, false);
                    }
                }
            });
            report.merge(rep);
            report.extra("exhaustive", false);
        }
        "seq-exhaustive" => {
            if let Some(case) = a.opt("case") {
                let parts: Vec<&str> = case.split(':').collect();
                let n: usize = parts[0].parse().unwrap();
                let oi: usize = parts[1].parse().unwrap();
                let si: u64 = parts[2].parse().unwrap();
                let ords = seq::weak_orderings(n);
                let ops = seq::xops(n);
                let mut maxlen = exhaustive_len(n, thorough);
                if si >= total_seqs(ops.len(), maxlen) {
                    maxlen = exhaustive_len(n, true);
                }
                let s = decode_seq(si, ops.len(), maxlen);
                let mut rep = Report::new();
                seq::run_exhaustive_case(n, &ords[oi], &s, &ops, &case, &mut rep, true);
                report.merge(rep);
                eng.finish(report);
            }
            let mut scopes = Vec::new();
            for n in 0..=5usize {
                let ords = seq::weak_orderings(n);
                let ops = seq::xops(n);
                let maxlen = exhaustive_len(n, thorough);
                let nseq = total_seqs(ops.len(), maxlen);
                let total = nseq * ords.len() as u64;
                scopes.push(
                    Json::obj()
                        .set("n", n)
                        .set("weak_orderings_of_priorities", ords.len())
                        .set("op_alphabet", ops.len())
                        .set("max_len", maxlen)
                        .set("histories", total),
                );
                let q = WorkQueue::new(total);
                let (ords, ops) = (&ords, &ops);
                let rep = common::run_sharded(a.threads(), |_s, rep| {
                    rep.sample_cap = 1;
                    while let Some((lo, hi)) = q.take_block(128) {
                        for idx in lo..hi {
                            let oi = (idx / nseq) as usize;
                            let si = idx % nseq;
                            let s = decode_seq(si, ops.len(), maxlen);
                            let id = format!("{}:{}:{}", n, oi, si);
                            seq::run_exhaustive_case(n, &ords[oi], &s, ops, &id, rep, false);
                        }
                    }
                });
                report.merge(rep);
            }
            report.extra("exhaustive", true);
            report.extra("scopes", Json::Arr(scopes));
        }
        "shape" => {
            let n_default: u64 = if thorough { 1 << 21 } else { 1 << 19 };
            if let Some(case) = a.opt("case") {
                let (name, n) = case.rsplit_once(':').expect("case = workload:n");
                let n: usize = n.parse().unwrap();
                let name = name.to_string();
                let rep = common::run_big_stack(move || {
                    let mut rep = Report::new();
                    rep.sample_cap = 64;
                    shape::run_workload(&name, n, mix(&[seed, common::hash_str(&name)]), &mut rep);
                    rep
                });
                report.merge(rep);
                eng.finish(report);
            }
            let n = a.u64("n", n_default) as usize;
            // one thread: the library's priority source is a process-wide generator, so the workloads are run
            // one after the other and never race on it (racing is C17's subject, not this property's)
            let which: Vec<String> = match a.opt("workloads") {
                Some(w) => w.split(',').map(|s| s.to_string()).collect(),
                None => shape::WORKLOADS.iter().map(|s| s.to_string()).collect(),
            };
            let rep = common::run_big_stack(move || {
                let mut rep = Report::new();
                rep.sample_cap = 64;
                for w in &which {
                    shape::run_workload(w, n, mix(&[seed, common::hash_str(w)]), &mut rep);
                    // smaller instance as well: checkpoints at other sizes
                    shape::run_workload(w, n / 37 + 100, mix(&[seed, 1, common::hash_str(w)]), &mut rep);
                }
                rep
            });
            report.merge(rep);
            report.extra("exhaustive", false);
            report.extra("target_n", n);
        }
        m => panic!("unknown mode {}", m),
    }
    eng.finish(report);
}
