//! Lawful treap items owned by the harness. Both carry an immutable element id, an element value, the
//! aggregate of their subtree and a pending modification for their children; modifications do not
//! commute (assign / add / scale, resp. arbitrary letter maps).

use common::Rng;
use rlib_treap::{TreapItem, TreapItemSized};
use std::fmt::Debug;

pub trait MonItem: TreapItem + TreapItemSized + Sized + Default + Send + 'static {
    type Elem: Clone + PartialEq + Debug + Send;
    type Mod: Clone + Debug + Send;
    type Agg: Clone + PartialEq + Debug;
    fn name() -> &'static str;
    fn make(id: u32, e: &Self::Elem) -> Self;
    fn id(&self) -> u32;
    fn elem(&self) -> Self::Elem;
    fn agg(&self) -> Self::Agg;
    fn pend(&self) -> Option<Self::Mod>;
    /// attach a modification to this node: applies to its element and aggregate now, to its children lazily
    fn attach(&mut self, m: &Self::Mod);
    fn gen_elem(rng: &mut Rng) -> Self::Elem;
    fn gen_mod(rng: &mut Rng) -> Self::Mod;
    fn apply_elem(e: &mut Self::Elem, m: &Self::Mod);
    fn apply_agg(a: &Self::Agg, m: &Self::Mod) -> Self::Agg;
    /// `first` then `then`
    fn compose(first: &Self::Mod, then: &Self::Mod) -> Self::Mod;
    fn fold(elems: &[Self::Elem]) -> Self::Agg;
    /// a key for "sorted by value" scenarios
    fn key(e: &Self::Elem) -> u64;
    /// modifications may depend on the position inside the range they were attached to: `apply_elem_at` applies `m` to the
    /// element at index `idx` of that range, `shift(m, k)` is the same modification seen from `k` positions further right
    fn apply_elem_at(e: &mut Self::Elem, m: &Self::Mod, _idx: usize) {
        Self::apply_elem(e, m)
    }
    fn shift(m: &Self::Mod, _k: usize) -> Self::Mod {
        m.clone()
    }
}

// ------------------------------------------------------------------------------------------------

pub const PM: u64 = 998_244_353;

#[derive(Default)]
pub struct AffItem {
    pub id: u32,
    pub val: u64,
    pub sum: u64,
    pub size: usize,
    pub pend: Option<(u64, u64)>,
}

impl TreapItem for AffItem {
    fn update(&mut self, left: Option<&Self>, right: Option<&Self>) {
        self.size = 1 + left.map(|x| x.size).unwrap_or(0) + right.map(|x| x.size).unwrap_or(0);
        self.sum = (self.val + left.map(|x| x.sum).unwrap_or(0) + right.map(|x| x.sum).unwrap_or(0)) % PM;
    }
    fn push(&mut self, left: Option<&mut Self>, right: Option<&mut Self>) {
        if let Some(m) = self.pend.take() {
            if let Some(l) = left {
                l.attach(&m);
            }
            if let Some(r) = right {
                r.attach(&m);
            }
        }
    }
}

impl TreapItemSized for AffItem {
    fn size(&self) -> usize {
        self.size
    }
}

impl MonItem for AffItem {
    type Elem = u64;
    type Mod = (u64, u64);
    type Agg = (u64, usize);
    fn name() -> &'static str {
        "AffItem"
    }
    fn make(id: u32, e: &u64) -> Self {
        AffItem { id, val: *e, sum: *e, size: 1, pend: None }
    }
    fn id(&self) -> u32 {
        self.id
    }
    fn elem(&self) -> u64 {
        self.val
    }
    fn agg(&self) -> (u64, usize) {
        (self.sum, self.size)
    }
    fn pend(&self) -> Option<(u64, u64)> {
        self.pend
    }
    fn attach(&mut self, m: &(u64, u64)) {
        self.val = (m.0 * self.val + m.1) % PM;
        self.sum = (m.0 * self.sum + m.1 * (self.size as u64 % PM)) % PM;
        self.pend = Some(match self.pend {
            None => *m,
            Some(p) => Self::compose(&p, m),
        });
    }
    fn gen_elem(rng: &mut Rng) -> u64 {
        match rng.below(4) {
            0 => rng.below(4),
            1 => PM - 1 - rng.below(2),
            _ => rng.below(PM),
        }
    }
    fn gen_mod(rng: &mut Rng) -> (u64, u64) {
        match rng.below(6) {
            0 => (0, rng.below(PM)),
            1 => (1, 1 + rng.below(PM - 1)),
            2 => (2 + rng.below(PM - 2), 0),
            3 => (PM - 1, rng.below(5)),
            _ => (rng.below(PM), rng.below(PM)),
        }
    }
    fn apply_elem(e: &mut u64, m: &(u64, u64)) {
        *e = (m.0 * *e + m.1) % PM;
    }
    fn apply_agg(a: &(u64, usize), m: &(u64, u64)) -> (u64, usize) {
        ((m.0 * a.0 + m.1 * (a.1 as u64 % PM)) % PM, a.1)
    }
    fn compose(first: &(u64, u64), then: &(u64, u64)) -> (u64, u64) {
        (then.0 * first.0 % PM, (then.0 * first.1 + then.1) % PM)
    }
    fn fold(elems: &[u64]) -> (u64, usize) {
        let mut s = 0u64;
        for e in elems {
            s = (s + e) % PM;
        }
        (s, elems.len())
    }
    fn key(e: &u64) -> u64 {
        *e
    }
}

// ------------------------------------------------------------------------------------------------

pub type LMap = [u8; 3];

#[derive(Default)]
pub struct WordItem {
    pub id: u32,
    pub letter: u8,
    pub word: Vec<u8>,
    pub size: usize,
    pub pend: Option<LMap>,
}

impl TreapItem for WordItem {
    fn update(&mut self, left: Option<&Self>, right: Option<&Self>) {
        let mut w = Vec::new();
        if let Some(l) = left {
            w.extend_from_slice(&l.word);
        }
        w.push(self.letter);
        if let Some(r) = right {
            w.extend_from_slice(&r.word);
        }
        self.size = w.len();
        self.word = w;
    }
    fn push(&mut self, left: Option<&mut Self>, right: Option<&mut Self>) {
        if let Some(m) = self.pend.take() {
            if let Some(l) = left {
                l.attach(&m);
            }
            if let Some(r) = right {
                r.attach(&m);
            }
        }
    }
}

impl TreapItemSized for WordItem {
    fn size(&self) -> usize {
        self.size
    }
}

impl MonItem for WordItem {
    type Elem = u8;
    type Mod = LMap;
    type Agg = Vec<u8>;
    fn name() -> &'static str {
        "WordItem"
    }
    fn make(id: u32, e: &u8) -> Self {
        WordItem { id, letter: *e, word: vec![*e], size: 1, pend: None }
    }
    fn id(&self) -> u32 {
        self.id
    }
    fn elem(&self) -> u8 {
        self.letter
    }
    fn agg(&self) -> Vec<u8> {
        self.word.clone()
    }
    fn pend(&self) -> Option<LMap> {
        self.pend
    }
    fn attach(&mut self, m: &LMap) {
        self.letter = m[self.letter as usize];
        for c in self.word.iter_mut() {
            *c = m[*c as usize];
        }
        self.pend = Some(match self.pend {
            None => *m,
            Some(p) => Self::compose(&p, m),
        });
    }
    fn gen_elem(rng: &mut Rng) -> u8 {
        rng.below(3) as u8
    }
    fn gen_mod(rng: &mut Rng) -> LMap {
        match rng.below(10) {
            0 => [0, 0, 0],
            1 => [2, 2, 2],
            2 => [1, 2, 0],
            3 => [2, 0, 1],
            4 => [1, 0, 2],
            5 => [1, 1, 0],
            _ => [rng.below(3) as u8, rng.below(3) as u8, rng.below(3) as u8],
        }
    }
    fn apply_elem(e: &mut u8, m: &LMap) {
        *e = m[*e as usize];
    }
    fn apply_agg(a: &Vec<u8>, m: &LMap) -> Vec<u8> {
        a.iter().map(|&c| m[c as usize]).collect()
    }
    fn compose(first: &LMap, then: &LMap) -> LMap {
        [then[first[0] as usize], then[first[1] as usize], then[first[2] as usize]]
    }
    fn fold(elems: &[u8]) -> Vec<u8> {
        elems.to_vec()
    }
    fn key(e: &u8) -> u64 {
        *e as u64
    }
}

// ------------------------------------------------------------------------------------------------
// ProgItem: "add the arithmetic progression a + b*i to the i-th element of the range" - a lazy modification that treats the
// two children differently (the right child receives the progression advanced by the size of the left subtree + 1), sums
// as aggregates. The item remembers the size of its left subtree from its last `update`.

#[derive(Default)]
pub struct ProgItem {
    pub id: u32,
    pub val: u64,
    pub sum: u64,
    pub size: usize,
    pub lsize: usize,
    pub pend: Option<(u64, u64)>,
}

fn prog_total(m: &(u64, u64), size: usize) -> u64 {
    let n = size as u64 % PM;
    // a*n + b*n(n-1)/2 mod PM
    let tri = (size as u128 * (size as u128).saturating_sub(1) / 2 % PM as u128) as u64;
    (m.0 * n + m.1 * tri) % PM
}

impl TreapItem for ProgItem {
    fn update(&mut self, left: Option<&Self>, right: Option<&Self>) {
        self.lsize = left.map(|x| x.size).unwrap_or(0);
        self.size = 1 + self.lsize + right.map(|x| x.size).unwrap_or(0);
        self.sum = (self.val + left.map(|x| x.sum).unwrap_or(0) + right.map(|x| x.sum).unwrap_or(0)) % PM;
    }
    fn push(&mut self, left: Option<&mut Self>, right: Option<&mut Self>) {
        if let Some(m) = self.pend.take() {
            if let Some(l) = left {
                l.attach(&m);
            }
            if let Some(r) = right {
                r.attach(&Self::shift(&m, self.lsize + 1));
            }
        }
    }
}

impl TreapItemSized for ProgItem {
    fn size(&self) -> usize {
        self.size
    }
}

impl MonItem for ProgItem {
    type Elem = u64;
    type Mod = (u64, u64);
    type Agg = (u64, usize);
    fn name() -> &'static str {
        "ProgItem"
    }
    fn make(id: u32, e: &u64) -> Self {
        ProgItem { id, val: *e, sum: *e, size: 1, lsize: 0, pend: None }
    }
    fn id(&self) -> u32 {
        self.id
    }
    fn elem(&self) -> u64 {
        self.val
    }
    fn agg(&self) -> (u64, usize) {
        (self.sum, self.size)
    }
    fn pend(&self) -> Option<(u64, u64)> {
        self.pend
    }
    fn attach(&mut self, m: &(u64, u64)) {
        self.val = (self.val + m.0 + m.1 * (self.lsize as u64 % PM)) % PM;
        self.sum = (self.sum + prog_total(m, self.size)) % PM;
        self.pend = Some(match self.pend {
            None => *m,
            Some(p) => Self::compose(&p, m),
        });
    }
    fn gen_elem(rng: &mut Rng) -> u64 {
        match rng.below(4) {
            0 => rng.below(4),
            _ => rng.below(PM),
        }
    }
    fn gen_mod(rng: &mut Rng) -> (u64, u64) {
        match rng.below(5) {
            0 => (rng.below(PM), 0),
            1 => (0, 1 + rng.below(9)),
            2 => (rng.below(10), PM - 1),
            _ => (rng.below(PM), rng.below(PM)),
        }
    }
    fn apply_elem(e: &mut u64, m: &(u64, u64)) {
        *e = (*e + m.0) % PM;
    }
    fn apply_elem_at(e: &mut u64, m: &(u64, u64), idx: usize) {
        *e = (*e + m.0 + m.1 * (idx as u64 % PM)) % PM;
    }
    fn shift(m: &(u64, u64), k: usize) -> (u64, u64) {
        ((m.0 + m.1 * (k as u64 % PM)) % PM, m.1)
    }
    fn apply_agg(a: &(u64, usize), m: &(u64, u64)) -> (u64, usize) {
        ((a.0 + prog_total(m, a.1)) % PM, a.1)
    }
    fn compose(first: &(u64, u64), then: &(u64, u64)) -> (u64, u64) {
        ((first.0 + then.0) % PM, (first.1 + then.1) % PM)
    }
    fn fold(elems: &[u64]) -> (u64, usize) {
        let mut s = 0u64;
        for e in elems {
            s = (s + e) % PM;
        }
        (s, elems.len())
    }
    fn key(e: &u64) -> u64 {
        *e
    }
}
