//! itermon - runtime monitor for C15: the combinatorial iterators of `rlib_iter` enumerate exactly the
//! specified set, once each, in the specified order.
//!
//!   itermon [--mode masks|perms|neighbours|all] [--tier quick|thorough] [--seed N] [--light]
//!   itermon --case "submasks:<type>:<x as unsigned decimal>"   (also "supermasks:...")
//!   itermon --case "perm:<digits>[:string|:tuple|:reverse]"
//!   itermon --case "nb:<n>,<m>,<i>,<j>"
//!
//! Oracles (all written here, none shares code with the library):
//!  * masks, 8-bit types: filter-all-values model (all 256 bit patterns, keep the sub/supermasks, sort);
//!    wider types: bit-deposit model (k-th submask in increasing order = deposit(k, x); supermasks of x =
//!    x | deposit(k, !x)). Every expected sequence is additionally *proved* per case (length 2^free,
//!    strictly monotone, every member a sub/supermask, end points) - a failed proof is a harness error
//!    (inconclusive), never a violation. The two models are cross-checked against each other for all
//!    8-bit masks and for 16-bit masks (all in thorough, a sample in quick).
//!  * permutations: recursive multiset arrangement generator in lexicographic order (proved per case:
//!    strictly increasing, multinomial count, every member a rearrangement of the input).
//!  * neighbours: the fixed offset lists below, filtered by bounds in i128 arithmetic.
//!
//! `--light` restricts the 16-bit exhaustive part to masks with at most 10 free bits plus a 1/8 sample of
//! the rest (for slow build profiles); without it every 16-bit mask is enumerated in both tiers.

use common::{catch, lib, mix, Engine, Json, PanicInfo, Report, Rng, WorkQueue};
use rlib_iter::{
    iter_neighbours_4, iter_neighbours_4d, iter_neighbours_8, iter_permutations, iter_submasks, iter_supermasks,
    next_permutation,
};
use std::cmp::Reverse;
use std::fmt::Debug;

// ------------------------------------------------------------------------------------------------
// small helpers

fn trunc(s: String, n: usize) -> String {
    if s.len() <= n {
        s
    } else {
        let mut cut = n;
        while !s.is_char_boundary(cut) {
            cut -= 1;
        }
        format!("{}...<{} bytes>", &s[..cut], s.len())
    }
}

struct Ctx<'a> {
    rep: &'a mut Report,
    verbose: bool,
    sample: bool,
}

impl Ctx<'_> {
    fn lib_panic(&mut self, func: &str, p: &PanicInfo, detail: Json, replay: &str) {
        if p.in_lib {
            self.rep.violation(
                format!("panic:{}", func),
                detail
                    .set("what", "the library panicked on a lawful input")
                    .set("panic", p.msg.as_str())
                    .set("at", format!("{}:{}", p.file, p.line)),
                vec!["--case".into(), replay.to_string()],
            );
        } else {
            self.rep.inconclusive(format!("harness panic at {}:{}: {} (case {})", p.file, p.line, p.msg, replay));
        }
    }
}

// ------------------------------------------------------------------------------------------------
// masks

#[derive(Clone, Copy, PartialEq, Eq, Debug)]
enum Dir {
    Sub,
    Sup,
}

impl Dir {
    fn name(self) -> &'static str {
        match self {
            Dir::Sub => "submasks",
            Dir::Sup => "supermasks",
        }
    }
    fn func(self) -> &'static str {
        match self {
            Dir::Sub => "iter_submasks",
            Dir::Sup => "iter_supermasks",
        }
    }
}

/// One integer type of the library, seen through its unsigned bit pattern (u128, low `bits` bits).
struct MaskType {
    name: &'static str,
    bits: u32,
    /// appends at most `cap` yielded values of iter_submasks(x) to `out`
    sub: fn(u128, usize, &mut Vec<u128>),
    sup: fn(u128, usize, &mut Vec<u128>),
    /// one random script of Iterator calls (common::iter_protocol) on a fresh iterator against the expected sequence
    proto: fn(u128, Dir, &[u128], &mut Rng) -> Result<u64, String>,
}

macro_rules! mask_type {
    ($t:ty, $u:ty) => {
        MaskType {
            name: stringify!($t),
            bits: <$u>::BITS,
            sub: |x, cap, out| {
                let x = x as $u as $t;
                lib!(out.extend(iter_submasks(x).take(cap).map(|v| v as $u as u128)));
            },
            sup: |x, cap, out| {
                let x = x as $u as $t;
                lib!(out.extend(iter_supermasks(x).take(cap).map(|v| v as $u as u128)));
            },
            proto: |x, dir, want, rng| {
                let x = x as $u as $t;
                let want_t: Vec<$t> = want.iter().map(|&w| w as $u as $t).collect();
                match dir {
                    Dir::Sub => common::iter_protocol(iter_submasks(x), &want_t, rng, 10),
                    Dir::Sup => common::iter_protocol(iter_supermasks(x), &want_t, rng, 10),
                }
            },
        }
    };
}

fn mask_types() -> Vec<MaskType> {
    vec![
        mask_type!(u8, u8),
        mask_type!(i8, u8),
        mask_type!(u16, u16),
        mask_type!(i16, u16),
        mask_type!(u32, u32),
        mask_type!(i32, u32),
        mask_type!(u64, u64),
        mask_type!(i64, u64),
        mask_type!(u128, u128),
        mask_type!(i128, u128),
        mask_type!(usize, usize),
        mask_type!(isize, usize),
    ]
}

fn all_ones(bits: u32) -> u128 {
    if bits >= 128 {
        u128::MAX
    } else {
        (1u128 << bits) - 1
    }
}

/// the bits that vary over the enumerated set: x itself for submasks, the zero bits of x for supermasks
fn free_bits(x: u128, bits: u32, dir: Dir) -> u128 {
    match dir {
        Dir::Sub => x,
        Dir::Sup => !x & all_ones(bits),
    }
}

/// spread the low bits of k over the positions `pos` (ascending)
fn deposit(mut k: u64, pos: &[u8]) -> u128 {
    let mut r = 0u128;
    while k != 0 {
        let i = k.trailing_zeros() as usize;
        r |= 1u128 << pos[i];
        k &= k - 1;
    }
    r
}

fn model_deposit(x: u128, bits: u32, dir: Dir, out: &mut Vec<u128>) {
    let free = free_bits(x, bits, dir);
    let pos: Vec<u8> = (0..bits).filter(|&b| (free >> b) & 1 == 1).map(|b| b as u8).collect();
    assert!(pos.len() <= 24, "harness: mask with too many free bits scheduled");
    let cnt = 1u64 << pos.len();
    match dir {
        Dir::Sub => {
            for k in (0..cnt).rev() {
                out.push(deposit(k, &pos));
            }
        }
        Dir::Sup => {
            for k in 0..cnt {
                out.push(x | deposit(k, &pos));
            }
        }
    }
}

fn model_filter(x: u128, bits: u32, dir: Dir, out: &mut Vec<u128>) {
    assert!(bits <= 16);
    let full = all_ones(bits);
    let start = out.len();
    for v in 0..=full {
        let keep = match dir {
            Dir::Sub => v & (!x & full) == 0,
            Dir::Sup => v & x == x,
        };
        if keep {
            out.push(v);
        }
    }
    out[start..].sort_unstable();
    if dir == Dir::Sub {
        out[start..].reverse();
    }
}

/// Proof that `want` is the complete set in the required order: right length, strictly monotone, all
/// members belong to the set, end points. (2^free distinct members of a set of size 2^free = the set.)
fn prove_mask_model(x: u128, bits: u32, dir: Dir, want: &[u128]) -> Result<(), String> {
    let full = all_ones(bits);
    let free = free_bits(x, bits, dir).count_ones();
    if want.len() as u128 != 1u128 << free {
        return Err(format!("length {} != 2^{}", want.len(), free));
    }
    for (i, &w) in want.iter().enumerate() {
        let member = match dir {
            Dir::Sub => w & !x == 0,
            Dir::Sup => w & x == x && w <= full,
        };
        if !member {
            return Err(format!("element {} is not a member", i));
        }
        if i > 0 {
            let ordered = match dir {
                Dir::Sub => want[i - 1] > w,
                Dir::Sup => want[i - 1] < w,
            };
            if !ordered {
                return Err(format!("not strictly monotone at {}", i));
            }
        }
    }
    let (first, last) = (want[0], want[want.len() - 1]);
    let ends_ok = match dir {
        Dir::Sub => first == x && last == 0,
        Dir::Sup => first == x && last == full,
    };
    if !ends_ok {
        return Err("end points".into());
    }
    Ok(())
}

#[derive(Default)]
struct Bufs {
    want: Vec<u128>,
    got: Vec<u128>,
    other: Vec<u128>,
}

fn window(v: &[u128], pos: usize) -> Json {
    let lo = pos.saturating_sub(2);
    let hi = (pos + 6).min(v.len());
    Json::Arr(v[lo..hi].iter().map(|&w| Json::from(w)).collect())
}

fn mask_case(cx: &mut Ctx, types: &[MaskType], tyi: usize, dir: Dir, x: u128, cross: bool, bufs: &mut Bufs) {
    let ty = &types[tyi];
    let replay = format!("{}:{}:{}", dir.name(), ty.name, x);
    let free = free_bits(x, ty.bits, dir).count_ones();
    // expected sequence, before the library call
    bufs.want.clear();
    if ty.bits <= 8 {
        model_filter(x, ty.bits, dir, &mut bufs.want);
    } else {
        model_deposit(x, ty.bits, dir, &mut bufs.want);
    }
    if let Err(e) = prove_mask_model(x, ty.bits, dir, &bufs.want) {
        cx.rep.inconclusive(format!("harness: mask model failed its proof for {}: {}", replay, e));
        return;
    }
    if cross && ty.bits <= 16 {
        bufs.other.clear();
        if ty.bits <= 8 {
            model_deposit(x, ty.bits, dir, &mut bufs.other);
        } else {
            model_filter(x, ty.bits, dir, &mut bufs.other);
        }
        cx.rep.inc("model_cross_checks");
        if bufs.other != bufs.want {
            cx.rep.inconclusive(format!("harness: filter and deposit models disagree for {}", replay));
            return;
        }
    }
    cx.rep.inc("evaluations");
    cx.rep.inc(&format!("masks_{}", ty.name));
    cx.rep.inc(&format!("{}_calls", dir.name()));
    cx.rep.max(&format!("max_free_bits_{}bit", ty.bits), free as i64);
    if free >= 2 {
        cx.rep.see("nontrivial", mix(&[1, tyi as u64, dir as u64, x as u64, (x >> 64) as u64]));
    }
    bufs.got.clear();
    let cap = bufs.want.len() + 2;
    let f = match dir {
        Dir::Sub => ty.sub,
        Dir::Sup => ty.sup,
    };
    let got = &mut bufs.got;
    let r = catch(|| f(x, cap, got));
    let base = || {
        Json::obj()
            .set("fn", dir.func())
            .set("type", ty.name)
            .set("x_unsigned", x)
            .set("x_hex", format!("{:#x}", x))
            .set("free_bits", free)
    };
    if let Err(p) = r {
        cx.lib_panic(dir.func(), &p, base(), &replay);
        return;
    }
    let (got, want) = (&bufs.got, &bufs.want);
    cx.rep.count("items_compared", got.len().min(want.len()) as u64);
    if cx.verbose {
        eprintln!("{}({} = {:#x} as {}): free bits {}, want {} items", dir.func(), x, x, ty.name, free, want.len());
        eprintln!("  got  (first 40, as unsigned): {:?}{}", &got[..got.len().min(40)], if got.len() > 40 { " ..." } else { "" });
        eprintln!("  want (first 40, as unsigned): {:?}{}", &want[..want.len().min(40)], if want.len() > 40 { " ..." } else { "" });
        eprintln!("  got_len {}{}  want_len {}", got.len(), if got.len() == cap { " (capped)" } else { "" }, want.len());
    }
    if got != want {
        let pos = got.iter().zip(want.iter()).position(|(a, b)| a != b).unwrap_or(got.len().min(want.len()));
        let order = match dir {
            Dir::Sub => "strictly decreasing unsigned order ending with 0",
            Dir::Sup => "strictly increasing unsigned order ending with all-ones",
        };
        cx.rep.violation(
            format!("{}:{}", dir.name(), ty.name),
            base()
                .set("what", format!("{} does not yield every {} of x exactly once in {}", dir.func(), &dir.name()[..dir.name().len() - 1], order))
                .set("first_differing_position", pos)
                .set("got_len", got.len())
                .set("got_len_capped_at", cap)
                .set("want_len", want.len())
                .set("got_window_unsigned", window(got, pos))
                .set("want_window_unsigned", window(want, pos))
                .set("window_starts_at", pos.saturating_sub(2)),
            vec!["--case".into(), replay.clone()],
        );
    }
    else if want.len() <= 2048 {
        // the same iterator through random scripts of Iterator calls (nth, by_ref adaptors, fold-based terminals)
        let mut r = Rng::new(mix(&[0x15c, tyi as u64, dir as u64, x as u64, (x >> 64) as u64]));
        for _ in 0..2 {
            let res = catch(|| (ty.proto)(x, dir, want, &mut r));
            match res {
                Ok(Ok(calls)) => cx.rep.count("iterator_protocol_calls", calls),
                Ok(Err(e)) => {
                    cx.rep.violation(
                        format!("{}:{}:protocol", dir.name(), ty.name),
                        base().set("what", format!("{} seen through standard Iterator calls does not behave like the expected sequence", dir.func())).set("script", e).set("want_len", want.len()),
                        vec!["--case".into(), replay.clone()],
                    );
                    break;
                }
                Err(p) => {
                    cx.lib_panic(dir.func(), &p, base(), &replay);
                    break;
                }
            }
        }
    }
    if cx.sample {
        cx.rep.sample(
            base().set("yielded_as_unsigned", Json::Arr(got.iter().take(16).map(|&w| Json::from(w)).collect())).set("expected_len", want.len()),
        );
    }
}

fn bit(b: u32) -> u128 {
    1u128 << b
}

/// structured sets of free bits (popcount <= pmax) for a `bits`-wide type
fn structured_free_sets(bits: u32, pmax: u32) -> Vec<u128> {
    let pmax = pmax.min(bits);
    let mut v: Vec<u128> = vec![0];
    for i in 0..bits {
        v.push(bit(i)); // single bits, including the top/sign bit
    }
    for k in 1..=pmax {
        let low = all_ones(k);
        v.push(low); // low bits
        v.push(low << (bits - k)); // high bits, including the top/sign bit
        if k >= 2 {
            v.push(bit(bits - 1) | all_ones(k - 1)); // sign bit + low bits
            v.push(bit(0) | (all_ones(k - 1) << (bits - (k - 1)))); // lowest bit + high bits
        }
        // alternating patterns from the bottom (even / odd positions) and from the top
        let (mut even, mut odd, mut top) = (0u128, 0u128, 0u128);
        for t in 0..k {
            if 2 * t < bits {
                even |= bit(2 * t);
                top |= bit(bits - 1 - 2 * t);
            }
            if 2 * t + 1 < bits {
                odd |= bit(2 * t + 1);
            }
        }
        v.push(even);
        v.push(odd);
        v.push(top);
        // k bits spread evenly over the whole width
        if k >= 2 {
            let mut s = 0u128;
            for t in 0..k {
                s |= bit((t as u64 * (bits as u64 - 1) / (k as u64 - 1)) as u32);
            }
            v.push(s);
        }
    }
    // pairs
    v.push(bit(0) | bit(bits - 1));
    for i in 0..bits - 1 {
        v.push(bit(i) | bit(i + 1));
    }
    // contiguous windows at every offset (cross the 32/64-bit boundaries of the wide types)
    for w in [3u32, 8, pmax] {
        if w == 0 || w > bits || w > pmax {
            continue;
        }
        let step = if w == pmax { 5 } else { 1 };
        let mut off = 0;
        while off + w <= bits {
            v.push(all_ones(w) << off);
            off += step;
        }
        v.push(all_ones(w) << (bits - w));
        if bits >= 2 * w {
            v.push(all_ones(w) << (bits / 2 - w / 2)); // straddles the middle
        }
    }
    v.retain(|m| m.count_ones() <= pmax);
    v.sort_unstable();
    v.dedup();
    v
}

fn random_free_set(rng: &mut Rng, bits: u32, pmax: u32) -> u128 {
    let p = rng.below(pmax.min(bits) as u64 + 1) as u32;
    let style = rng.below(4);
    let (lo, span) = if style == 1 {
        // clustered in a random window
        let span = (2 * p + 4).min(bits);
        (rng.below((bits - span) as u64 + 1) as u32, span)
    } else {
        (0, bits)
    };
    let mut m = 0u128;
    if style == 2 && p > 0 {
        m |= bit(bits - 1); // force the top/sign bit
    }
    while m.count_ones() < p {
        m |= bit(lo + rng.below(span as u64) as u32);
    }
    m
}

// ------------------------------------------------------------------------------------------------
// permutations

fn arrangements_rec<T: Clone>(vals: &[T], cnt: &mut [usize], n: usize, cur: &mut Vec<T>, out: &mut Vec<Vec<T>>) {
    if cur.len() == n {
        out.push(cur.clone());
        return;
    }
    for i in 0..vals.len() {
        if cnt[i] > 0 {
            cnt[i] -= 1;
            cur.push(vals[i].clone());
            arrangements_rec(vals, cnt, n, cur, out);
            cur.pop();
            cnt[i] += 1;
        }
    }
}

fn run_lengths<T: Ord + Clone>(input: &[T]) -> (Vec<T>, Vec<usize>) {
    let mut sorted = input.to_vec();
    sorted.sort();
    let mut vals: Vec<T> = Vec::new();
    let mut cnt: Vec<usize> = Vec::new();
    for v in sorted {
        if vals.last() == Some(&v) {
            *cnt.last_mut().unwrap() += 1;
        } else {
            vals.push(v);
            cnt.push(1);
        }
    }
    (vals, cnt)
}

fn multinomial(cnt: &[usize]) -> u128 {
    // product of binomials, exact
    let mut r = 1u128;
    let mut placed = 0u128;
    for &c in cnt {
        for t in 1..=c as u128 {
            placed += 1;
            r = r * placed / t;
        }
    }
    r
}

/// all distinct arrangements of the multiset `input`, lexicographically ascending
fn arrangements<T: Ord + Clone>(input: &[T]) -> Vec<Vec<T>> {
    let (vals, mut cnt) = run_lengths(input);
    let mut out = Vec::new();
    let mut cur = Vec::with_capacity(input.len());
    arrangements_rec(&vals, &mut cnt, input.len(), &mut cur, &mut out);
    out
}

/// proof that `list` is the complete sorted list of distinct arrangements of `input`
fn prove_arrangements<T: Ord + Clone>(input: &[T], list: &[Vec<T>]) -> Result<(), String> {
    let (_, cnt) = run_lengths(input);
    if list.len() as u128 != multinomial(&cnt) {
        return Err(format!("{} arrangements, multinomial says {}", list.len(), multinomial(&cnt)));
    }
    let mut sorted = input.to_vec();
    sorted.sort();
    for (i, a) in list.iter().enumerate() {
        if i > 0 && list[i - 1] >= *a {
            return Err(format!("not strictly increasing at {}", i));
        }
        let mut s = a.clone();
        s.sort();
        if s != sorted {
            return Err(format!("element {} is not a rearrangement", i));
        }
    }
    Ok(())
}

fn check_next<T: Ord + Clone + Debug>(cx: &mut Ctx, kind: &str, seq: &[T], list: &[Vec<T>], idx: usize, replay: &str) {
    let (want_seq, want_ret) = if idx + 1 < list.len() { (&list[idx + 1], true) } else { (&list[0], false) };
    cx.rep.inc("evaluations");
    cx.rep.inc("next_permutation_calls");
    cx.rep.inc(&format!("perms_{}", kind));
    if !want_ret {
        cx.rep.inc("next_permutation_wraps");
    }
    let mut v = seq.to_vec();
    let r = catch(|| lib!(next_permutation(&mut v)));
    let base = || Json::obj().set("fn", "next_permutation").set("kind", kind).set("input", trunc(format!("{:?}", seq), 400));
    match r {
        Err(p) => cx.lib_panic("next_permutation", &p, base(), replay),
        Ok(ret) => {
            cx.rep.count("items_compared", 1);
            if cx.verbose {
                eprintln!("next_permutation({:?}) -> {} {:?}   want {} {:?}", seq, ret, v, want_ret, want_seq);
            }
            if ret != want_ret || v != *want_seq {
                let pos = v.iter().zip(want_seq.iter()).position(|(a, b)| a != b);
                cx.rep.violation(
                    format!("next_permutation:{}", kind),
                    base()
                        .set(
                            "what",
                            "next_permutation did not step to the lexicographic successor among the distinct arrangements (or did not wrap to sorted order returning false at the last one)",
                        )
                        .set("got_return", ret)
                        .set("want_return", want_ret)
                        .set("got", trunc(format!("{:?}", v), 400))
                        .set("want", trunc(format!("{:?}", want_seq), 400))
                        .set("first_differing_position", pos)
                        .set("index_among_arrangements", idx)
                        .set("arrangements", list.len()),
                    vec!["--case".into(), replay.to_string()],
                );
            }
            if cx.sample {
                cx.rep.sample(base().set("returned", ret).set("after", format!("{:?}", v)));
            }
        }
    }
}

fn check_iter<T: Ord + Clone + Debug>(cx: &mut Ctx, kind: &str, input: &[T], list: &[Vec<T>], replay: &str) {
    cx.rep.inc("evaluations");
    cx.rep.inc("iter_permutations_calls");
    cx.rep.inc(&format!("perms_{}", kind));
    cx.rep.max("max_arrangements_listed", list.len() as i64);
    let cap = list.len() + 2;
    let inp = input.to_vec();
    let r = catch(|| lib!(iter_permutations(inp).take(cap).collect::<Vec<Vec<T>>>()));
    let base = || Json::obj().set("fn", "iter_permutations").set("kind", kind).set("input", trunc(format!("{:?}", input), 400));
    match r {
        Err(p) => cx.lib_panic("iter_permutations", &p, base(), replay),
        Ok(got) => {
            cx.rep.count("items_compared", got.len().min(list.len()) as u64);
            if cx.verbose {
                eprintln!("iter_permutations({:?}): got {} arrangements{}, want {}", input, got.len(), if got.len() == cap { " (capped)" } else { "" }, list.len());
                eprintln!("  got  (first 12): {:?}", &got[..got.len().min(12)]);
                eprintln!("  want (first 12): {:?}", &list[..list.len().min(12)]);
            }
            if got.as_slice() != list {
                let pos = got.iter().zip(list.iter()).position(|(a, b)| a != b).unwrap_or(got.len().min(list.len()));
                let lo = pos.saturating_sub(1);
                cx.rep.violation(
                    format!("iter_permutations:{}", kind),
                    base()
                        .set("what", "iter_permutations does not list each distinct arrangement exactly once in lexicographic order")
                        .set("first_differing_position", pos)
                        .set("got_len", got.len())
                        .set("got_len_capped_at", cap)
                        .set("want_len", list.len())
                        .set("got_window", trunc(format!("{:?}", &got[lo.min(got.len())..(pos + 3).min(got.len())]), 600))
                        .set("want_window", trunc(format!("{:?}", &list[lo.min(list.len())..(pos + 3).min(list.len())]), 600))
                        .set("window_starts_at", lo),
                    vec!["--case".into(), replay.to_string()],
                );
            }
            if cx.sample {
                cx.rep.sample(base().set("listed", trunc(format!("{:?}", got), 500)).set("expected_len", list.len()));
            }
            // the same listing through the standard adaptors, also on an iterator that has already been advanced: what is
            // left must always be the remaining arrangements, in order (nothing is demanded after the iterator returned None)
            if got.as_slice() == list && list.len() <= 800 {
                let n = list.len();
                let salt = list.len() * 7 + input.len();
                let k = salt % (n + 1);
                let j = salt % 3;
                let inp = input.to_vec();
                let r = catch(|| {
                    let mut bad: Vec<String> = Vec::new();
                    let mut it = lib!(iter_permutations(inp.clone()));
                    for _ in 0..k {
                        lib!(it.next());
                    }
                    if k + j < n {
                        let x = lib!(it.nth(j));
                        if x.as_ref() != list.get(k + j) {
                            bad.push(format!("after {} next() calls nth({}) gave {:?}, want {:?}", k, j, x, list.get(k + j)));
                        }
                    }
                    let stepped: Vec<Vec<T>> = lib!(iter_permutations(inp.clone()).step_by(2).take(n + 2).collect());
                    let want_stepped: Vec<Vec<T>> = list.iter().step_by(2).cloned().collect();
                    if stepped != want_stepped {
                        bad.push(format!("step_by(2) lists {} arrangements, want {} (every second one)", stepped.len(), want_stepped.len()));
                    }
                    let skipped: Vec<Vec<T>> = lib!(iter_permutations(inp.clone()).skip(k).take(n + 2).collect());
                    if skipped.as_slice() != &list[k.min(n)..] {
                        bad.push(format!("skip({}) lists {} arrangements, want {}", k, skipped.len(), n - k.min(n)));
                    }
                    let mut it2 = lib!(iter_permutations(inp.clone()));
                    if n >= 2 {
                        lib!(it2.next());
                        let rest: Vec<Vec<T>> = lib!(it2.by_ref().skip(1).take(n + 2).collect());
                        if rest.as_slice() != &list[2..] {
                            bad.push(format!("after one next(), skip(1) lists {} arrangements, want {}", rest.len(), n - 2));
                        }
                    }
                    let cnt = lib!(iter_permutations(inp.clone()).take(n + 2).count());
                    if cnt != n {
                        bad.push(format!("count() = {}, want {}", cnt, n));
                    }
                    let last = lib!(iter_permutations(inp.clone()).take(n + 2).last());
                    if last.as_ref() != list.last() {
                        bad.push(format!("last() = {:?}, want {:?}", last, list.last()));
                    }
                    // random scripts of Iterator calls against std's slice iterator over the expected listing
                    let mut r = Rng::new(mix(&[0x9e12, salt as u64, n as u64]));
                    for _ in 0..2 {
                        if let Err(e) = common::iter_protocol(iter_permutations(inp.clone()), list, &mut r, 10) {
                            bad.push(format!("script of Iterator calls: {}", trunc(e, 600)));
                            break;
                        }
                    }
                    bad
                });
                cx.rep.inc("iterator_adaptor_checks");
                match r {
                    Err(p) => cx.lib_panic("iter_permutations", &p, base(), replay),
                    Ok(bad) => {
                        if !bad.is_empty() {
                            cx.rep.violation(
                                format!("iter_permutations:{}", kind),
                                base()
                                    .set("what", "iter_permutations seen through a standard iterator adaptor (nth / step_by / skip / count / last) does not list each distinct arrangement exactly once in order")
                                    .set("problems", Json::from(bad)),
                                vec!["--case".into(), replay.to_string()],
                            );
                        }
                    }
                }
            }
        }
    }
}

/// both checks for one input sequence of a given element type
fn perm_case<T: Ord + Clone + Debug>(cx: &mut Ctx, kind: &str, seq: Vec<T>, replay: &str) {
    let list = arrangements(&seq);
    if let Err(e) = prove_arrangements(&seq, &list) {
        cx.rep.inconclusive(format!("harness: arrangement oracle failed its proof for {}: {}", replay, e));
        return;
    }
    let idx = match list.binary_search(&seq) {
        Ok(i) => i,
        Err(_) => {
            cx.rep.inconclusive(format!("harness: input not found among its own arrangements ({})", replay));
            return;
        }
    };
    let (vals, _) = run_lengths(&seq);
    if vals.len() >= 2 {
        cx.rep.see("nontrivial", mix(&[2, common::hash_str(kind), common::hash_str(&format!("{:?}", seq))]));
    }
    cx.rep.max("max_sequence_len", seq.len() as i64);
    check_next(cx, kind, &seq, &list, idx, replay);
    check_iter(cx, kind, &seq, &list, replay);
}

const STRS: [&str; 10] = ["b", "", "ab", "ba", "a", "B", "abc", "~", " ", "aa"];
const TUPS: [(i32, i8); 10] =
    [(1, -1), (0, 5), (1, -7), (-3, 0), (i32::MAX, 0), (i32::MIN, 1), (0, -5), (2, 2), (1, 0), (0, 0)];

/// content-derived kind of a digit sequence (so that a replay reproduces the same signature)
fn digits_kind(d: &[u8]) -> &'static str {
    if d.len() <= 1 {
        return "edge";
    }
    let mut s = d.to_vec();
    s.sort_unstable();
    if s.windows(2).all(|w| w[0] != w[1]) {
        "distinct"
    } else {
        "multiset"
    }
}

fn digits_string(d: &[u8]) -> String {
    d.iter().map(|&x| (b'0' + x) as char).collect()
}

fn perm_digits_case(cx: &mut Ctx, digits: &[u8], elem: &str) {
    let ds = digits_string(digits);
    match elem {
        "" | "u8" => perm_case(cx, digits_kind(digits), digits.to_vec(), &format!("perm:{}", ds)),
        "string" => perm_case(cx, "string", digits.iter().map(|&d| STRS[d as usize].to_string()).collect(), &format!("perm:{}:string", ds)),
        "tuple" => perm_case(cx, "tuple", digits.iter().map(|&d| TUPS[d as usize]).collect(), &format!("perm:{}:tuple", ds)),
        "reverse" => perm_case(cx, "reverse", digits.iter().map(|&d| Reverse(d)).collect(), &format!("perm:{}:reverse", ds)),
        // zero-sized elements: every sequence of length k has exactly one arrangement
        "unit" => perm_case(cx, "unit", digits.iter().map(|_| ()).collect::<Vec<()>>(), &format!("perm:{}:unit", ds)),
        // signed bytes with both signs: -2, -1, 0, 1, .. (unsigned byte order would put the negatives last)
        "i8" => perm_case(cx, "i8", digits.iter().map(|&d| d as i8 - 2).collect(), &format!("perm:{}:i8", ds)),
        // elements of 32 and 40 bytes (an implementation may move wide elements by another route), and boxed ones
        "wide" => perm_case(cx, "wide", digits.iter().map(|&d| [d as u64, 7, 7, d as u64 ^ 5]).collect(), &format!("perm:{}:wide", ds)),
        "strpair" => perm_case(cx, "strpair", digits.iter().map(|&d| (STRS[d as usize].to_string(), d as usize * 3, d as u64)).collect(), &format!("perm:{}:strpair", ds)),
        "boxed" => perm_case(cx, "boxed", digits.iter().map(|&d| Box::new(d as u32)).collect(), &format!("perm:{}:boxed", ds)),
        other => cx.rep.inconclusive(format!("unknown element kind {}", other)),
    }
}

// ------------------------------------------------------------------------------------------------
// neighbours: the specification ("their fixed order"), read once from the library source and frozen here

const OFF4: [(i128, i128); 4] = [(0, 1), (-1, 0), (0, -1), (1, 0)];
const OFF4D: [(i128, i128); 4] = [(-1, 1), (-1, -1), (1, -1), (1, 1)];
const OFF8: [(i128, i128); 8] = [(0, 1), (-1, 1), (-1, 0), (-1, -1), (0, -1), (1, -1), (1, 0), (1, 1)];

fn nb_case(cx: &mut Ctx, n: usize, m: usize, i: usize, j: usize) {
    assert!(i < n && j < m, "harness: cell outside the grid");
    let replay = format!("nb:{},{},{},{}", n, m, i, j);
    let kinds: [(&str, &[(i128, i128)]); 3] = [("neighbours_4", &OFF4), ("neighbours_4d", &OFF4D), ("neighbours_8", &OFF8)];
    for (k, (name, offs)) in kinds.iter().enumerate() {
        let want: Vec<(usize, usize)> = offs
            .iter()
            .map(|&(di, dj)| (i as i128 + di, j as i128 + dj))
            .filter(|&(a, b)| a >= 0 && a < n as i128 && b >= 0 && b < m as i128)
            .map(|(a, b)| (a as usize, b as usize))
            .collect();
        cx.rep.inc("evaluations");
        cx.rep.inc(&format!("{}_calls", name));
        cx.rep.see_str("neighbour_counts", &format!("{}:{}", name, want.len()));
        if !want.is_empty() {
            cx.rep.see("nontrivial", mix(&[3, k as u64, n as u64, m as u64, i as u64, j as u64]));
        }
        let r = catch(|| match k {
            0 => lib!(iter_neighbours_4(n, m, i, j).take(12).collect::<Vec<_>>()),
            1 => lib!(iter_neighbours_4d(n, m, i, j).take(12).collect::<Vec<_>>()),
            _ => lib!(iter_neighbours_8(n, m, i, j).take(12).collect::<Vec<_>>()),
        });
        let func = format!("iter_{}", name);
        let base = || Json::obj().set("fn", func.as_str()).set("n", n).set("m", m).set("i", i).set("j", j);
        match r {
            Err(p) => cx.lib_panic(&func, &p, base(), &replay),
            Ok(got) => {
                cx.rep.count("items_compared", got.len().min(want.len()) as u64);
                if cx.verbose {
                    eprintln!("{}({}, {}, {}, {}) -> {:?}   want {:?}", func, n, m, i, j, got, want);
                }
                if got != want {
                    let pos = got.iter().zip(want.iter()).position(|(a, b)| a != b).unwrap_or(got.len().min(want.len()));
                    cx.rep.violation(
                        name.to_string(),
                        base()
                            .set("what", "the neighbour iterator does not yield exactly the in-bounds neighbours in the fixed order")
                            .set("first_differing_position", pos)
                            .set("got", format!("{:?}", got))
                            .set("want", format!("{:?}", want)),
                        vec!["--case".into(), replay.clone()],
                    );
                }
                else if (n + m + i + j) % 3 == 0 {
                    // the same iterator through a random script of Iterator calls
                    let mut r = Rng::new(mix(&[0x4e1, k as u64, n as u64, m as u64, i as u64, j as u64]));
                    let res = catch(|| match k {
                        0 => common::iter_protocol(iter_neighbours_4(n, m, i, j), &want, &mut r, 6),
                        1 => common::iter_protocol(iter_neighbours_4d(n, m, i, j), &want, &mut r, 6),
                        _ => common::iter_protocol(iter_neighbours_8(n, m, i, j), &want, &mut r, 6),
                    });
                    match res {
                        Ok(Ok(calls)) => cx.rep.count("iterator_protocol_calls", calls),
                        Ok(Err(e)) => cx.rep.violation(
                            format!("{}:protocol", name),
                            base().set("what", "the neighbour iterator seen through standard Iterator calls does not behave like the expected list").set("script", e).set("want", format!("{:?}", want)),
                            vec!["--case".into(), replay.clone()],
                        ),
                        Err(p) => cx.lib_panic(&func, &p, base(), &replay),
                    }
                }
                if cx.sample {
                    cx.rep.sample(base().set("yielded", format!("{:?}", got)));
                }
            }
        }
    }
}

// ------------------------------------------------------------------------------------------------
// work plan

enum Task {
    Mask { ty: u8, dir: Dir, x: u128, cross: bool },
    PermDigits { digits: Vec<u8>, elem: &'static str },
    DistinctNext { n: u8, lo: u32, hi: u32 },
    DistinctIter { n: u8, variant: u8 },
    Nb { n: usize, m: usize, i: usize, j: usize },
}

fn task_cost(t: &Task, types: &[MaskType]) -> u64 {
    match t {
        Task::Mask { ty, dir, x, cross } => {
            let b = types[*ty as usize].bits;
            (1u64 << free_bits(*x, b, *dir).count_ones()) + if *cross && b == 16 { 1 << 16 } else { 0 }
        }
        Task::PermDigits { digits, .. } => 50 * digits.len() as u64 + 10,
        Task::DistinctNext { lo, hi, .. } => 4 * (*hi - *lo) as u64,
        Task::DistinctIter { n, .. } => (1..=*n as u64).product::<u64>() * 4,
        Task::Nb { .. } => 1,
    }
}

struct Plan {
    tasks: Vec<Task>,
    exhaustive: Vec<String>,
    /// sorted arrangement lists of 0..n for the distinct-element scope (index n)
    distinct_lists: Vec<Vec<Vec<u8>>>,
}

fn plan_masks(plan: &mut Plan, types: &[MaskType], thorough: bool, light: bool, seed: u64) {
    let pmax: u32 = if thorough { 16 } else { 12 };
    for (tyi, ty) in types.iter().enumerate() {
        if ty.bits <= 16 {
            let full = all_ones(ty.bits);
            let mut skipped = 0u64;
            for dir in [Dir::Sub, Dir::Sup] {
                for x in 0..=full {
                    let sampled = mix(&[seed, 0x16, x as u64]) % 8 == 0;
                    if light && ty.bits == 16 && free_bits(x, ty.bits, dir).count_ones() > 10 && !sampled {
                        skipped += 1;
                        continue;
                    }
                    // model cross check: every 8-bit mask; 16-bit on the unsigned type only (the models work on
                    // bit patterns and do not depend on signedness): all in thorough, a sample in quick
                    let cross = ty.bits == 8 || (ty.name == "u16" && (thorough || mix(&[seed, 0x17, x as u64]) % 32 == 0));
                    plan.tasks.push(Task::Mask { ty: tyi as u8, dir, x, cross });
                }
            }
            if skipped == 0 {
                plan.exhaustive.push(format!("iter_submasks and iter_supermasks for every x of {} ({} masks each)", ty.name, full + 1));
            } else {
                plan.exhaustive.push(format!(
                    "iter_submasks / iter_supermasks for every x of {} with at most 10 free bits, plus a 1/8 sample of the rest (--light; {} calls skipped)",
                    ty.name, skipped
                ));
            }
        } else {
            let full = all_ones(ty.bits);
            let structured = structured_free_sets(ty.bits, pmax);
            let nrandom: u64 = if thorough { 20000 } else { 2000 };
            for dir in [Dir::Sub, Dir::Sup] {
                let to_x = |free: u128| match dir {
                    Dir::Sub => free,
                    Dir::Sup => !free & full,
                };
                for &f in &structured {
                    plan.tasks.push(Task::Mask { ty: tyi as u8, dir, x: to_x(f), cross: false });
                }
                let mut rng = Rng::new(mix(&[seed, 0x18, tyi as u64, dir as u64]));
                for _ in 0..nrandom {
                    let f = random_free_set(&mut rng, ty.bits, pmax);
                    plan.tasks.push(Task::Mask { ty: tyi as u8, dir, x: to_x(f), cross: false });
                }
                // long walks (2^21 .. 2^22 members, 2^23 in thorough): the 21 lowest bits; the 11 highest (sign bit included)
                // with the 11 lowest; 21 bits straddling the middle of the type (bits 31..51 of a 64-bit type)
                let b = ty.bits;
                let low21: u128 = (1 << 21) - 1;
                let ends: u128 = ((1u128 << 11) - 1) | (((1u128 << 11) - 1) << (b - 11));
                let mid: u128 = (((1u128 << 21) - 1) << (b / 2 - 1)) & full;
                let mut long = vec![low21, ends, mid];
                if thorough {
                    long.push(((1u128 << 23) - 1) << (b - 23));
                }
                for f in long {
                    if light {
                        break;
                    }
                    plan.tasks.push(Task::Mask { ty: tyi as u8, dir, x: to_x(f & full), cross: false });
                }
            }
        }
    }
}

fn decode_base(mut idx: u64, base: u64, len: usize) -> Vec<u8> {
    let mut v = vec![0u8; len];
    for p in (0..len).rev() {
        v[p] = (idx % base) as u8;
        idx /= base;
    }
    v
}

fn plan_perms(plan: &mut Plan, thorough: bool, seed: u64) {
    // every sequence over {0,1,2} of length 0..=7
    let mut n3 = 0u64;
    for len in 0..=7usize {
        for idx in 0..3u64.pow(len as u32) {
            let digits = decode_base(idx, 3, len);
            n3 += 1;
            if len <= 5 {
                // other element types (String, tuple, a reversed order) for the short sequences
                if len <= 3 && digits.iter().all(|&d| d == 0) {
                    plan.tasks.push(Task::PermDigits { digits: digits.clone(), elem: "unit" });
                }
                for elem in ["string", "tuple", "reverse", "wide", "strpair", "boxed"] {
                    plan.tasks.push(Task::PermDigits { digits: digits.clone(), elem });
                }
            }
            plan.tasks.push(Task::PermDigits { digits, elem: "u8" });
        }
    }
    plan.exhaustive.push(format!(
        "next_permutation and iter_permutations for every sequence over {{0,1,2}} of length 0..=7 ({} sequences); the same over String / tuple / Reverse elements up to length 5",
        n3
    ));
    if thorough {
        let mut n4 = 0u64;
        for len in 0..=8usize {
            for idx in 0..4u64.pow(len as u32) {
                let digits = decode_base(idx, 4, len);
                if len == 8 || digits.iter().any(|&d| d == 3) {
                    n4 += 1;
                    plan.tasks.push(Task::PermDigits { digits, elem: "u8" });
                }
            }
        }
        plan.exhaustive.push(format!("the same for every sequence over {{0,1,2,3}} of length 0..=8 ({} further sequences, incl. the 3-letter ones of length 8)", n4));
    }
    // a few mixed-type sequences with other letters of the mapping tables
    let mut rng = Rng::new(mix(&[seed, 0x21]));
    for _ in 0..if thorough { 600 } else { 120 } {
        let len = rng.range_usize(0, 6);
        let digits: Vec<u8> = (0..len).map(|_| rng.below(10) as u8).collect();
        let elem = *rng.pick(&["string", "tuple", "reverse", "wide", "strpair", "boxed", "i8", "unit"]);
        plan.tasks.push(Task::PermDigits { digits, elem });
    }
    // longer sequences with a bounded number of arrangements (beyond the stated scope of lengths, still lawful)
    let mut rng = Rng::new(mix(&[seed, 0x22]));
    let mut made = 0;
    while made < if thorough { 3000 } else { 300 } {
        let len = rng.range_usize(8, 13);
        let alpha = rng.range_usize(1, 5) as u64;
        let heavy = rng.below(alpha) as u8;
        let digits: Vec<u8> = (0..len).map(|_| if rng.chance(3, 5) { heavy } else { rng.below(alpha) as u8 }).collect();
        let (_, cnt) = run_lengths(&digits);
        if multinomial(&cnt) <= 3000 {
            // a third of them over one-byte element types whose order is not the order of their bytes (signed, reversed),
            // and over the other element kinds
            let elem = match made % 6 {
                0 => "i8",
                1 => "reverse",
                2 => *rng.pick(&["string", "wide", "boxed", "tuple"]),
                _ => "u8",
            };
            plan.tasks.push(Task::PermDigits { digits, elem });
            made += 1;
        }
    }
    // all permutations of up to 8 (thorough: 9) distinct elements
    let nmax: u8 = if thorough { 9 } else { 8 };
    for n in 0..=nmax {
        let base: Vec<u8> = (0..n).collect();
        let list = arrangements(&base);
        let total = list.len() as u32;
        plan.distinct_lists.push(list);
        let mut lo = 0u32;
        while lo < total {
            let hi = (lo + 1024).min(total);
            plan.tasks.push(Task::DistinctNext { n, lo, hi });
            lo = hi;
        }
        for variant in 0..5u8 {
            plan.tasks.push(Task::DistinctIter { n, variant });
        }
    }
    plan.exhaustive.push(format!(
        "next_permutation from every one of the n! arrangements of n distinct elements, n = 0..={}; iter_permutations of 0..n from sorted, reversed and three shuffled inputs",
        nmax
    ));
}

fn plan_neighbours(plan: &mut Plan, thorough: bool, seed: u64) {
    let gmax = if thorough { 12 } else { 6 };
    for n in 1..=gmax {
        for m in 1..=gmax {
            for i in 0..n {
                for j in 0..m {
                    plan.tasks.push(Task::Nb { n, m, i, j });
                }
            }
        }
    }
    plan.exhaustive.push(format!("iter_neighbours_4 / _4d / _8 at every cell of every grid n x m, n, m in 1..={}", gmax));
    let big: &[(usize, usize)] =
        &[(1, 1000), (1000, 1), (2, 1000), (1000, 2), (50, 50), (1000, 1000), (7, 13), (1 << 20, 3), (3, 1 << 20), (1 << 20, 1 << 20)];
    let mut rng = Rng::new(mix(&[seed, 0x31]));
    for &(n, m) in big {
        let rows = [0, 1, n / 2, n.saturating_sub(2), n - 1];
        let cols = [0, 1, m / 2, m.saturating_sub(2), m - 1];
        let mut cells: Vec<(usize, usize)> = Vec::new();
        for &i in &rows {
            for &j in &cols {
                if i < n && j < m {
                    cells.push((i, j));
                }
            }
        }
        for _ in 0..40 {
            cells.push((rng.usize_below(n), rng.usize_below(m)));
        }
        cells.sort_unstable();
        cells.dedup();
        for (i, j) in cells {
            plan.tasks.push(Task::Nb { n, m, i, j });
        }
    }
    if thorough {
        for &(n, m) in &[(50usize, 50usize), (1, 1000), (1000, 1), (2, 1000), (1000, 2)] {
            for i in 0..n {
                for j in 0..m {
                    plan.tasks.push(Task::Nb { n, m, i, j });
                }
            }
        }
        plan.exhaustive.push("all cells of the 50x50, 1x1000, 1000x1, 2x1000, 1000x2 grids".into());
    }
}

fn distinct_input(n: u8, variant: u8, seed: u64) -> Vec<u8> {
    let mut v: Vec<u8> = (0..n).collect();
    match variant {
        0 => {}
        1 => v.reverse(),
        k => Rng::new(mix(&[seed, 0x23, n as u64, k as u64])).shuffle(&mut v),
    }
    v
}

fn run_task(cx: &mut Ctx, t: &Task, types: &[MaskType], plan: &Plan, seed: u64, bufs: &mut Bufs) {
    match t {
        Task::Mask { ty, dir, x, cross } => mask_case(cx, types, *ty as usize, *dir, *x, *cross, bufs),
        Task::PermDigits { digits, elem } => perm_digits_case(cx, digits, elem),
        Task::DistinctNext { n, lo, hi } => {
            let list = &plan.distinct_lists[*n as usize];
            for idx in *lo..*hi {
                let seq = &list[idx as usize];
                if *n >= 2 {
                    cx.rep.see("nontrivial", mix(&[4, common::hash_of(seq)]));
                }
                check_next(cx, digits_kind(seq), seq, list, idx as usize, &format!("perm:{}", digits_string(seq)));
            }
        }
        Task::DistinctIter { n, variant } => {
            let list = &plan.distinct_lists[*n as usize];
            let input = distinct_input(*n, *variant, seed);
            if *n >= 2 {
                cx.rep.see("nontrivial", mix(&[5, common::hash_of(&input)]));
            }
            check_iter(cx, digits_kind(&input), &input, list, &format!("perm:{}", digits_string(&input)));
        }
        Task::Nb { n, m, i, j } => nb_case(cx, *n, *m, *i, *j),
    }
}

// ------------------------------------------------------------------------------------------------

fn replay(case: &str, types: &[MaskType], rep: &mut Report) {
    let mut cx = Ctx { rep, verbose: true, sample: false };
    let parts: Vec<&str> = case.split(':').collect();
    match parts[0] {
        "submasks" | "supermasks" if parts.len() == 3 => {
            let dir = if parts[0] == "submasks" { Dir::Sub } else { Dir::Sup };
            let tyi = types.iter().position(|t| t.name == parts[1]).expect("unknown integer type");
            let x: u128 = parts[2].parse().expect("x as unsigned decimal");
            assert!(x <= all_ones(types[tyi].bits), "x does not fit the type");
            assert!(free_bits(x, types[tyi].bits, dir).count_ones() <= 24, "too many free bits to enumerate");
            mask_case(&mut cx, types, tyi, dir, x, types[tyi].bits <= 16, &mut Bufs::default());
        }
        "perm" if parts.len() == 2 || parts.len() == 3 => {
            let digits: Vec<u8> = parts[1].bytes().map(|b| {
                assert!(b.is_ascii_digit(), "digits expected");
                b - b'0'
            }).collect();
            perm_digits_case(&mut cx, &digits, if parts.len() == 3 { parts[2] } else { "u8" });
        }
        "nb" if parts.len() == 2 => {
            let v: Vec<usize> = parts[1].split(',').map(|s| s.trim().parse().expect("number")).collect();
            assert!(v.len() == 4, "nb:n,m,i,j");
            nb_case(&mut cx, v[0], v[1], v[2], v[3]);
        }
        _ => panic!("unknown case {:?}", case),
    }
}

fn main() {
    let eng = Engine::start("itermon");
    let a = &eng.args;
    let types = mask_types();
    let mut report = Report::new();

    if let Some(case) = a.opt("case") {
        let r = catch(|| {
            let mut rep = Report::new();
            replay(&case, &types, &mut rep);
            rep
        });
        match r {
            Ok(rep) => report.merge(rep),
            Err(p) => report.inconclusive(format!("bad --case {:?}: {} ({}:{})", case, p.msg, p.file, p.line)),
        }
        eng.finish(report);
    }

    let mode = a.str("mode", "all");
    let thorough = a.thorough();
    let seed = a.seed();
    let light = a.flag("light") || a.opt("light").is_some();
    let (do_masks, do_perms, do_nb) = match mode.as_str() {
        "masks" => (true, false, false),
        "perms" => (false, true, false),
        "neighbours" => (false, false, true),
        "all" => (true, true, true),
        m => panic!("unknown mode {}", m),
    };
    report.extra("mode", mode.as_str());
    report.extra("tier", if thorough { "thorough" } else { "quick" });
    report.extra("light", light);

    let mut plan = Plan { tasks: Vec::new(), exhaustive: Vec::new(), distinct_lists: Vec::new() };
    if do_masks {
        plan_masks(&mut plan, &types, thorough, light, seed);
        report.extra(
            "wide_mask_scope",
            format!(
                "u32..u128, i32..i128, usize, isize: structured (single bits, low/high runs incl. the sign bit, alternating, spread, pairs, windows) and random sets of at most {} free bits; submasks of the set, supermasks of its complement",
                if thorough { 16 } else { 12 }
            ),
        );
    }
    if do_perms {
        plan_perms(&mut plan, thorough, seed);
        // the distinct-element oracle lists are shared by many tasks: prove them once
        for (n, list) in plan.distinct_lists.iter().enumerate() {
            let base: Vec<u8> = (0..n as u8).collect();
            let fact: u128 = (1..=n as u128).product();
            if list.len() as u128 != fact {
                report.inconclusive(format!("harness: {} arrangements of {} distinct elements", list.len(), n));
            }
            if let Err(e) = prove_arrangements(&base, list) {
                report.inconclusive(format!("harness: arrangement oracle failed its proof for n = {}: {}", n, e));
            }
        }
    }
    if do_nb {
        plan_neighbours(&mut plan, thorough, seed);
    }
    // heavy tasks first so that the shards finish together
    plan.tasks.sort_by_key(|t| Reverse(task_cost(t, &types)));
    report.extra("tasks", plan.tasks.len());

    if report.inconclusive.is_empty() {
        let q = WorkQueue::new(plan.tasks.len() as u64);
        let (plan_ref, types_ref) = (&plan, &types);
        let rep = common::run_sharded(a.threads(), |_shard, rep| {
            let mut bufs = Bufs::default();
            let mut cx = Ctx { rep, verbose: false, sample: false };
            while let Some((lo, hi)) = q.take_block(8) {
                for idx in lo..hi {
                    run_task(&mut cx, &plan_ref.tasks[idx as usize], types_ref, plan_ref, seed, &mut bufs);
                }
            }
        });
        report.merge(rep);

        // a few literal cases for the evidence (run through the same checks)
        report.sample_cap = 9;
        let mut cx = Ctx { rep: &mut report, verbose: false, sample: true };
        let ty = |name: &str| types.iter().position(|t| t.name == name).unwrap();
        if do_masks {
            mask_case(&mut cx, &types, ty("u8"), Dir::Sub, 0b1010_0100, true, &mut Bufs::default());
            mask_case(&mut cx, &types, ty("i16"), Dir::Sup, 0x7ff5, false, &mut Bufs::default());
            mask_case(&mut cx, &types, ty("i128"), Dir::Sub, (1u128 << 127) | (1 << 64) | 1, false, &mut Bufs::default());
        }
        if do_perms {
            let seq = vec![1u8, 2, 2, 0];
            let list = arrangements(&seq);
            check_iter(&mut cx, "multiset", &seq, &list, "perm:1220");
            check_next(&mut cx, "multiset", &[2u8, 2, 1, 0], &list, list.len() - 1, "perm:2210");
        }
        if do_nb {
            nb_case(&mut cx, 3, 4, 0, 3);
        }
    }
    report.extra("exhaustive", plan.exhaustive.join("; "));
    report.extra("exhaustive_spaces", Json::from(plan.exhaustive.clone()));
    eng.finish(report);
}
