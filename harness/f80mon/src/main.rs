//! f80mon - event recorder and x87 state monitor for C18 (f80 arithmetic correctly rounded, comparisons follow
//! IEEE order). The real operators run natively (Miri cannot execute inline assembly, valgrind emulates x87 with
//! 64-bit doubles); every call appends one event - operation, operand bytes, result bytes or relation bits - to a
//! log that `oracle/f80_oracle.py` replays with exact rational arithmetic. This binary itself judges only the x87
//! state: around every library call the tag word must say "all registers empty" and the control word must be
//! unchanged (the library's asm blocks declare no x87 clobbers, so a missing pop would otherwise stay unnoticed
//! until the eighth call).
//!
//!   f80mon --events <file> [--tier ..] [--seed ..] [--out result.json]
//!   f80mon --case "<op> <a f64 bits hex> <b f64 bits hex>"     (replay one boundary-pair event, prints it)

use common::{catch, lib, Engine, Json, Report, Rng};
use rlib_f80::f80;
use std::cmp::Ordering;
use std::fmt::Write as _;

fn bytes_of(x: f80) -> [u8; 10] {
    // f80 is a 10-byte array padded to 16; the field is private, so read it through a pointer
    let mut out = [0u8; 10];
    unsafe {
        std::ptr::copy_nonoverlapping(&x as *const f80 as *const u8, out.as_mut_ptr(), 10);
    }
    out
}

fn hex80(x: f80) -> String {
    let b = bytes_of(x);
    let mut s = String::with_capacity(20);
    for i in (0..10).rev() {
        let _ = write!(s, "{:02x}", b[i]);
    }
    s
}

/// x87 environment: (control word, status word, tag word)
fn x87_env() -> (u16, u16, u16) {
    let mut env = [0u8; 28];
    unsafe {
        // fnstenv masks all exceptions after storing, fldenv restores the stored control word
        core::arch::asm!("fnstenv [{0}]", "fldenv [{0}]", in(reg) env.as_mut_ptr(), options(nostack));
    }
    (u16::from_le_bytes([env[0], env[1]]), u16::from_le_bytes([env[4], env[5]]), u16::from_le_bytes([env[8], env[9]]))
}

struct Rec {
    out: String,
    events: u64,
    cw0: u16,
    state_violations: Vec<(String, u16, u16)>,
    state_checks: u64,
}

impl Rec {
    fn check_state(&mut self, what: &str) {
        let (cw, _sw, tag) = x87_env();
        self.state_checks += 1;
        if (cw != self.cw0 || tag != 0xFFFF) && self.state_violations.len() < 20 {
            self.state_violations.push((what.to_string(), cw, tag));
        }
    }
    fn ev(&mut self, line: String) {
        self.out.push_str(&line);
        self.out.push('\n');
        self.events += 1;
    }

    fn cvt(&mut self, v: f64) -> f80 {
        let r = lib!(f80::from(v));
        self.check_state("from_f64");
        self.ev(format!("cvt {:016x} {}", v.to_bits(), hex80(r)));
        r
    }
    fn back(&mut self, a: f80) -> f64 {
        let r: f64 = lib!(f64::from(a));
        self.check_state("to_f64");
        self.ev(format!("back {} {:016x}", hex80(a), r.to_bits()));
        r
    }
    fn bin(&mut self, op: &str, a: f80, b: f80) -> f80 {
        let r = match op {
            "add" => lib!(a + b),
            "sub" => lib!(a - b),
            "mul" => lib!(a * b),
            "div" => lib!(a / b),
            "add=" => {
                let mut t = a;
                lib!(t += b);
                t
            }
            "sub=" => {
                let mut t = a;
                lib!(t -= b);
                t
            }
            "mul=" => {
                let mut t = a;
                lib!(t *= b);
                t
            }
            "div=" => {
                let mut t = a;
                lib!(t /= b);
                t
            }
            "min" => lib!(a.min(b)),
            "max" => lib!(a.max(b)),
            _ => unreachable!(),
        };
        self.check_state(op);
        self.ev(format!("{} {} {} {}", op.trim_end_matches('='), hex80(a), hex80(b), hex80(r)));
        r
    }
    fn un(&mut self, op: &str, a: f80) -> f80 {
        let r = match op {
            "neg" => lib!(-a),
            "abs" => lib!(a.abs()),
            _ => unreachable!(),
        };
        self.check_state(op);
        self.ev(format!("{} {} {}", op, hex80(a), hex80(r)));
        r
    }
    fn rel(&mut self, a: f80, b: f80) {
        let lt = lib!(a < b);
        self.check_state("lt");
        let le = lib!(a <= b);
        self.check_state("le");
        let gt = lib!(a > b);
        self.check_state("gt");
        let ge = lib!(a >= b);
        self.check_state("ge");
        let eq = lib!(a == b);
        self.check_state("eq");
        let ne = lib!(a != b);
        self.check_state("ne");
        let pc = match lib!(a.partial_cmp(&b)) {
            Some(Ordering::Less) => 'L',
            Some(Ordering::Equal) => 'E',
            Some(Ordering::Greater) => 'G',
            None => 'N',
        };
        self.check_state("partial_cmp");
        let f = |x: bool| if x { '1' } else { '0' };
        self.ev(format!("rel {} {} {}{}{}{}{}{}{}", hex80(a), hex80(b), f(lt), f(le), f(gt), f(ge), f(eq), f(ne), pc));
        self.rel_by_value(a, b);
    }
    /// the same relations with the operands handed by value to small functions that are not inlined (operands whose bytes
    /// were last written by ordinary compiled code - argument passing, moves, copies - not by one of the crate's own
    /// assembly blocks); logged as an ordinary `rel a b` event
    fn rel_by_value(&mut self, a: f80, b: f80) {
        #[inline(never)]
        fn lt(a: f80, b: f80) -> bool {
            a < b
        }
        #[inline(never)]
        fn le(a: f80, b: f80) -> bool {
            a <= b
        }
        #[inline(never)]
        fn gt(a: f80, b: f80) -> bool {
            a > b
        }
        #[inline(never)]
        fn ge(a: f80, b: f80) -> bool {
            a >= b
        }
        #[inline(never)]
        fn eq(a: f80, b: f80) -> bool {
            a == b
        }
        #[inline(never)]
        fn ne(a: f80, b: f80) -> bool {
            a != b
        }
        #[inline(never)]
        fn pc(a: f80, b: f80) -> Option<Ordering> {
            a.partial_cmp(&b)
        }
        #[inline(never)]
        fn pc_pair(p: (f80, f80)) -> Option<Ordering> {
            let (x, y) = p;
            PartialOrd::partial_cmp(&x, &y)
        }
        let (x, y) = (std::hint::black_box(a), std::hint::black_box(b));
        let r = lib!((lt(x, y), le(x, y), gt(x, y), ge(x, y), eq(x, y), ne(x, y), pc(x, y), pc_pair((x, y))));
        self.check_state("partial_cmp");
        let code = |o: Option<Ordering>| match o {
            Some(Ordering::Less) => 'L',
            Some(Ordering::Equal) => 'E',
            Some(Ordering::Greater) => 'G',
            None => 'N',
        };
        let f = |x: bool| if x { '1' } else { '0' };
        self.ev(format!("rel {} {} {}{}{}{}{}{}{}", hex80(a), hex80(b), f(r.0), f(r.1), f(r.2), f(r.3), f(r.4), f(r.5), code(r.6)));
        if r.6 != r.7 {
            // (never equal for a broken comparison only by accident; the oracle judges the first, this the agreement)
            self.ev(format!("rel {} {} {}{}{}{}{}{}{}", hex80(a), hex80(b), f(r.0), f(r.1), f(r.2), f(r.3), f(r.4), f(r.5), code(r.7)));
        }
    }
    /// the relations of a value with itself through one and the same reference on both sides (a shortcut keyed on
    /// the operands' addresses is wrong for NaN); logged as an ordinary `rel x x` event
    fn rel_alias(&mut self, a: f80) {
        let x = a;
        let r: &f80 = &x;
        let lt = lib!(r < r);
        let le = lib!(r <= r);
        let gt = lib!(r > r);
        let ge = lib!(r >= r);
        let eq = lib!(r == r);
        let ne = lib!(r != r);
        let pc = match lib!(PartialOrd::partial_cmp(r, r)) {
            Some(Ordering::Less) => 'L',
            Some(Ordering::Equal) => 'E',
            Some(Ordering::Greater) => 'G',
            None => 'N',
        };
        self.check_state("partial_cmp");
        let f = |x: bool| if x { '1' } else { '0' };
        self.ev(format!("rel {} {} {}{}{}{}{}{}{}", hex80(x), hex80(x), f(lt), f(le), f(gt), f(ge), f(eq), f(ne), pc));
    }
    fn all_ops(&mut self, a: f80, b: f80, assign_forms: bool) -> [f80; 4] {
        let r = [self.bin("add", a, b), self.bin("sub", a, b), self.bin("mul", a, b), self.bin("div", a, b)];
        if assign_forms {
            self.bin("add=", a, b);
            self.bin("sub=", a, b);
            self.bin("mul=", a, b);
            self.bin("div=", a, b);
        }
        self.bin("min", a, b);
        self.bin("max", a, b);
        self.rel(a, b);
        r
    }
}

/// boundary set of f64 bit patterns
fn boundary_set() -> Vec<f64> {
    let mut v: Vec<u64> = Vec::new();
    let mut push = |b: u64| {
        v.push(b);
        v.push(b | (1 << 63));
    };
    push(0); // +-0
    push(1); // min subnormal
    push(2);
    push(0x000F_FFFF_FFFF_FFFF); // max subnormal
    push(0x0008_0000_0000_0000);
    push(0x0010_0000_0000_0000); // min normal
    push(0x0010_0000_0000_0001);
    push(0x7FEF_FFFF_FFFF_FFFF); // max finite
    push(0x7FEF_FFFF_FFFF_FFFE);
    push(0x7FF0_0000_0000_0000); // inf
    push(0x7FF8_0000_0000_0000); // quiet NaN
    for &x in &[1.0f64, 2.0, 3.0, 0.5, 1.5, 10.0, 0.1, 1.0 / 3.0, 2.0 / 3.0, 0.75, 1e-5, 123456789.0, 1e16, 1e100, 1e-100, 1e300, 1e-300, 6.02214076e23, std::f64::consts::PI, std::f64::consts::E] {
        push(x.to_bits());
    }
    // powers of two and both neighbours
    for &e in &[-1074i32, -1060, -1023, -1022, -1021, -600, -64, -53, -52, -1, 0, 1, 52, 53, 54, 63, 64, 65, 600, 1022, 1023] {
        let b = if e < -1022 { 1u64 << (e + 1074) } else { ((e + 1023) as u64) << 52 };
        push(b);
        if b > 1 {
            push(b - 1);
        }
        push(b + 1);
    }
    // long carry chains and 2^53 +- 1
    push(0x3FFF_FFFF_FFFF_FFFF);
    push(0x3FEF_FFFF_FFFF_FFFF);
    push(0x400F_FFFF_FFFF_FFFF);
    push(0x4340_0000_0000_0000); // 2^53
    push(0x433F_FFFF_FFFF_FFFF); // 2^53 - 1
    push(0x4340_0000_0000_0001); // 2^53 + 2
    push(0x3FF0_0000_0000_0001); // 1 + ulp
    push(0x3FF5_5555_5555_5555);
    push(0x3FFA_AAAA_AAAA_AAAB);
    push(0x3FF0_0000_FFFF_FFFF);
    push(0x3FF8_0000_0000_0001);
    v.sort();
    v.dedup();
    v.into_iter().map(f64::from_bits).collect()
}

/// exact power of two as f64 (powi with a large negative exponent goes through an overflowing reciprocal)
fn p2(k: i32) -> f64 {
    if k >= -1022 {
        f64::from_bits(((k + 1023) as u64) << 52)
    } else {
        f64::from_bits(1u64 << (k + 1074))
    }
}

fn random_f64(rng: &mut Rng) -> f64 {
    match rng.below(8) {
        0 => f64::from_bits(rng.next_u64()),
        1 => f64::from_bits(rng.next_u64() & 0x800F_FFFF_FFFF_FFFF), // subnormals
        2 => {
            // near 1 with random mantissa
            f64::from_bits(0x3FF0_0000_0000_0000 | (rng.next_u64() >> 12))
        }
        3 => {
            // odd 53-bit significands (products need all 64 bits and more)
            let m = (rng.next_u64() >> 12) | 1;
            let e = rng.range_i64(-60, 60);
            (m as f64 + 4503599627370496.0) * 2f64.powi(e as i32)
        }
        4 => rng.range_i64(-1000, 1000) as f64,
        5 => {
            let e = rng.range_i64(-1070, 1020);
            let m = 1.0 + rng.f64_unit();
            let v = m * 2f64.powi((e / 2) as i32) * 2f64.powi((e - e / 2) as i32);
            if rng.chance(1, 2) {
                -v
            } else {
                v
            }
        }
        _ => f64::from_bits(rng.next_u64() & 0xBFFF_FFFF_FFFF_FFFF | 0x2000_0000_0000_0000),
    }
}

fn main() {
    let eng = Engine::start("f80mon");
    let a = &eng.args;
    let mut report = Report::new();
    let (cw0, _sw0, tag0) = x87_env();
    report.extra("x87_control_word_at_start", format!("{:#06x}", cw0));
    report.extra("x87_tag_word_at_start", format!("{:#06x}", tag0));
    let mut rec = Rec { out: String::new(), events: 0, cw0, state_violations: Vec::new(), state_checks: 0 };
    if tag0 != 0xFFFF {
        report.inconclusive(format!("x87 stack not empty before the first library call (tag word {:#06x})", tag0));
    }
    if (cw0 >> 8) & 3 != 3 || (cw0 >> 10) & 3 != 0 {
        report.inconclusive(format!("x87 control word {:#06x}: precision control is not extended or rounding is not to-nearest; the oracle assumes both", cw0));
    }

    if let Some(c) = a.opt("case") {
        // "<a f64 bits hex> <b f64 bits hex>"
        let p: Vec<&str> = c.split_whitespace().collect();
        let x = f64::from_bits(u64::from_str_radix(p[0], 16).unwrap());
        let y = f64::from_bits(u64::from_str_radix(p[1], 16).unwrap());
        let (fa, fb) = (rec.cvt(x), rec.cvt(y));
        rec.all_ops(fa, fb, true);
        rec.un("neg", fa);
        rec.un("abs", fa);
        rec.back(fa);
        eprintln!("operands {:?} {:?}", x, y);
        eprint!("{}", rec.out);
        if let Some(p) = a.opt("events") {
            std::fs::write(p, &rec.out).unwrap();
        }
        report.count("evaluations", rec.events);
        eng.finish(report);
    }

    let thorough = a.thorough();
    let seed = a.seed();
    // the documented start-up call: after it the control word must still ask for extended precision and rounding to
    // nearest (the oracle, and every caller, assume both), and all the arithmetic below runs after it
    {
        lib!(rlib_f80::f80_init());
        let (cw1, _sw1, tag1) = x87_env();
        if cw1 != cw0 || tag1 != 0xFFFF {
            report.violation(
                "x87_state:f80_init",
                Json::obj()
                    .set("what", "f80_init() left the x87 control word changed (or the register stack non-empty): precision control / rounding control are no longer what the arithmetic relies on")
                    .set("control_word_before", format!("{:#06x}", cw0))
                    .set("control_word_after", format!("{:#06x}", cw1))
                    .set("tag_word_after", format!("{:#06x}", tag1)),
                vec![],
            );
        }
        report.inc("f80_init_calls");
    }
    // (0a) fresh threads: a thread whose very first library call converts a "sentinel-looking" bit pattern (all ones,
    // all zeros, only the sign bit, everything but the sign bit, NaNs with unusual payloads ...); whatever the crate keeps
    // per thread starts from its initial state there. Events go to the same log.
    {
        let patterns: [u64; 18] = [
            u64::MAX, u64::MAX - 1, 0x7FFF_FFFF_FFFF_FFFF, 0x8000_0000_0000_0000, 0, 1, 0x8000_0000_0000_0001, 0x7FF8_0000_0000_0000,
            0xFFF8_0000_0000_0000, 0x7FF0_0000_0000_0001, 0xFFF0_0000_0000_0001, 0x7FF0_0000_0000_0000, 0xFFF0_0000_0000_0000,
            0x000F_FFFF_FFFF_FFFF, 0x0010_0000_0000_0000, 0x3FF0_0000_0000_0000, 0xBFF0_0000_0000_0000, 0x7FEF_FFFF_FFFF_FFFF,
        ];
        for (k, &bits) in patterns.iter().enumerate() {
            let other = patterns[(k * 7 + 3) % patterns.len()];
            let h = std::thread::spawn(move || {
                let (cw, _sw, _tag) = x87_env();
                let mut r = Rec { out: String::new(), events: 0, cw0: cw, state_violations: Vec::new(), state_checks: 0 };
                let res = catch(|| {
                    let x = r.cvt(f64::from_bits(bits));
                    r.back(x);
                    r.rel_alias(x);
                    let y = r.cvt(f64::from_bits(other));
                    r.all_ops(x, y, true);
                    let x2 = r.cvt(f64::from_bits(bits));
                    r.rel(x, x2);
                    r.back(x2);
                });
                (r, res.err(), cw)
            });
            match h.join() {
                Ok((r, err, cw)) => {
                    if cw != cw0 {
                        report.inconclusive(format!("a fresh thread starts with x87 control word {:#06x}, the main thread with {:#06x}", cw, cw0));
                    }
                    rec.out.push_str(&r.out);
                    rec.events += r.events;
                    rec.state_checks += r.state_checks;
                    rec.state_violations.extend(r.state_violations);
                    report.inc("fresh_thread_first_conversions");
                    if let Some(p) = err {
                        if p.in_lib {
                            report.violation("panic", Json::obj().set("what", "the library panicked on the first conversion of a fresh thread").set("bits", format!("{:#018x}", bits)).set("panic", p.msg.as_str()), vec![]);
                        } else {
                            report.inconclusive(format!("harness panic at {}:{}: {}", p.file, p.line, p.msg));
                        }
                    }
                }
                Err(_) => report.inconclusive("a fresh-thread worker died".to_string()),
            }
        }
    }
    // (0b) the same conversions on eight threads at once: f64 -> f80 -> f64 is the identity for every non-NaN double, so
    // each thread checks its own results without a shared oracle; the value of a conversion depends on its operand alone
    {
        let nthreads = 8usize;
        let rounds = if thorough { 2_000_000u64 } else { 150_000 };
        let barrier = std::sync::Arc::new(std::sync::Barrier::new(nthreads));
        let hs: Vec<_> = (0..nthreads)
            .map(|t| {
                let b = barrier.clone();
                std::thread::spawn(move || {
                    // powers of two share their significand: neighbouring threads convert 2^k, 2^(k+1), ...
                    let vals: Vec<f64> = (0..16).map(|i| f64::from_bits(((1023 + (t as u64 + i) % 12) << 52) | if i % 4 == 3 { 0x0008_0000_0000_0000 * (t as u64 % 2) } else { 0 })).collect();
                    let conv: Vec<f80> = vals.iter().map(|&v| f80::from(v)).collect();
                    b.wait();
                    let mut bad: Option<(u64, u64)> = None;
                    let mut n = 0u64;
                    for r in 0..rounds {
                        let i = (r % 16) as usize;
                        let got: f64 = f64::from(conv[i]);
                        n += 1;
                        if got.to_bits() != vals[i].to_bits() && bad.is_none() {
                            bad = Some((vals[i].to_bits(), got.to_bits()));
                        }
                        if r % 64 == 0 {
                            let again = f80::from(vals[i]);
                            if hex80(again) != hex80(conv[i]) && bad.is_none() {
                                bad = Some((vals[i].to_bits(), 0));
                            }
                        }
                    }
                    (n, bad)
                })
            })
            .collect();
        for h in hs {
            match h.join() {
                Ok((n, bad)) => {
                    report.count("concurrent_round_trip_conversions", n);
                    if let Some((want, got)) = bad {
                        report.violation(
                            "to_f64:concurrent",
                            Json::obj()
                                .set("what", "f64::from(f80::from(x)) != x for a finite double while other threads convert other values (alone the same conversion is exact)")
                                .set("x_bits", format!("{:#018x}", want))
                                .set("got_bits", format!("{:#018x}", got))
                                .set("threads", nthreads),
                            vec![],
                        );
                    }
                }
                Err(_) => report.violation("panic", Json::obj().set("what", "a thread converting values concurrently panicked"), vec![]),
            }
        }
    }
    let r = catch(|| {
        let set = boundary_set();
        // (1) all ordered pairs of the boundary set x all operators and relations
        let conv: Vec<f80> = set.iter().map(|&v| rec.cvt(v)).collect();
        for &x in &conv {
            rec.un("neg", x);
            rec.un("abs", x);
            rec.back(x);
            rec.rel_alias(x);
        }
        // small integers and simple fractions, one by one (conversion in, arithmetic, conversion out): not boundary values
        // of the format, but the values programs actually use
        for i in -130i32..=1030 {
            let x = rec.cvt(i as f64);
            rec.back(x);
            let y = rec.cvt(i as f64 / 8.0);
            rec.back(y);
            if i % 7 == 0 {
                let one = rec.cvt(1.0);
                let s = rec.bin("add", x, one);
                rec.back(s);
                rec.rel(x, y);
            }
        }
        for (i, &x) in conv.iter().enumerate() {
            for (j, &y) in conv.iter().enumerate() {
                let res = rec.all_ops(x, y, (i + j) % 8 == 0);
                // results need up to 64 significand bits: convert them back (rounding to f64) and reuse some as operands
                if (i * 31 + j) % 5 == 0 {
                    for &rr in &res {
                        rec.back(rr);
                    }
                }
            }
        }
        // runs of one and the same divisor / factor / addend (six consecutive operations with it on this thread, the other
        // operand changing): whatever an operation remembers about its last operand is in use from the second one on
        {
            let mut r2 = Rng::new(common::mix(&[seed, 0x5a3e]));
            for k in 0..(if thorough { 2000 } else { 300 }) {
                let d = match k % 4 {
                    0 => 3.0 + (k / 4) as f64 * 2.0,
                    1 => random_f64(&mut r2),
                    2 => 0.1 * (1 + k / 4) as f64,
                    _ => 1.0 / (7.0 + (k / 4) as f64),
                };
                let fd = rec.cvt(d);
                let op = ["div", "mul", "add", "sub", "div=", "div"][k % 6];
                for j in 0..6 {
                    let x = if j % 2 == 0 { random_f64(&mut r2) } else { (k * 7 + j) as f64 + 0.5 };
                    let fx = rec.cvt(x);
                    let res = rec.bin(op, fx, fd);
                    if j == 5 {
                        rec.back(res);
                    }
                }
            }
            // integer-valued operands around 2^31, 2^32 and the square root of 2^63 / 2^64: products beyond 2^63 that are
            // still exact in 64 significand bits
            let ints: [f64; 14] = [2147483647.0, 2147483648.0, 2147483649.0, 4294967295.0, 4294967296.0, 4294967297.0, 3037000499.0, 3037000500.0, 3e9, 4e9, 3999999999.0, 65535.0, 65537.0, 16777217.0];
            for &a in &ints {
                for &b in &ints {
                    for (sa, sb) in [(1.0, 1.0), (-1.0, 1.0), (-1.0, -1.0)] {
                        let (fa, fb) = (rec.cvt(a * sa), rec.cvt(b * sb));
                        let pr = rec.bin("mul", fa, fb);
                        rec.back(pr);
                        rec.bin("div", pr, fb);
                        rec.bin("add", pr, fa);
                    }
                }
            }
        }
        let boundary_events = rec.events;
        // (2) random bit patterns
        let mut rng = Rng::new(common::mix(&[seed, 18]));
        let nrandom = if thorough { 800_000 } else { 25_000 };
        for _ in 0..nrandom {
            let (x, y) = (random_f64(&mut rng), random_f64(&mut rng));
            let (fx, fy) = (rec.cvt(x), rec.cvt(y));
            let res = rec.all_ops(fx, fy, rng.chance(1, 8));
            rec.back(res[rng.usize_below(4)]);
            if rng.chance(1, 4) {
                rec.un("neg", fx);
                rec.un("abs", fy);
                rec.rel_alias(res[rng.usize_below(4)]);
            }
        }
        // (3) chains of depth <= 4 whose intermediates need all 64 significand bits
        let nchains = if thorough { 500_000 } else { 20_000 };
        for _ in 0..nchains {
            let mut cur = rec.cvt(random_f64(&mut rng));
            let depth = rng.range_usize(2, 4);
            let mut prev = cur;
            for _ in 0..depth {
                let other = if rng.chance(1, 3) { prev } else { rec.cvt(random_f64(&mut rng)) };
                let op = *rng.pick(&["add", "sub", "mul", "div", "add=", "mul="]);
                let (l, r) = if rng.chance(1, 2) { (cur, other) } else { (other, cur) };
                prev = cur;
                cur = rec.bin(op, l, r);
                if rng.chance(1, 3) {
                    rec.rel(cur, prev);
                }
                if rng.chance(1, 4) {
                    rec.bin(if rng.chance(1, 2) { "min" } else { "max" }, cur, prev);
                    rec.un("abs", cur);
                }
            }
            rec.back(cur);
            // 1 + 2^-63 style sums: 1 + tiny
            if rng.chance(1, 10) {
                let one = rec.cvt(1.0);
                let tiny = rec.cvt(2f64.powi(-(rng.range_i64(52, 66) as i32)));
                let s = rec.bin("add", one, tiny);
                let s2 = rec.bin("add", s, tiny);
                rec.rel(s, one);
                rec.rel(s2, s);
                rec.back(s2);
            }
        }
        // (4) deep product / quotient chains that reach the 80-bit underflow and overflow zones (f64 operands alone
        // never get near 2^-16382 or 2^16383): 15 factors of about 2^-1022 (or 2^1022), then one that lands the result
        // in the subnormal band / next to the overflow threshold, then neighbours by multiplying with 2^k
        let ndeep = if thorough { 20_000 } else { 400 };
        for it in 0..ndeep {
            let down = it % 2 == 0;
            let base = if down { 2f64.powi(-1022) } else { 2f64.powi(1022) };
            let mut cur = rec.cvt(base * (1.0 + rng.f64_unit() * 0.9));
            for _ in 0..14 {
                let f = rec.cvt(base * (1.0 + rng.f64_unit() * 0.9));
                cur = rec.bin("mul", cur, f);
            }
            // cur ~ 2^(-15330) (resp. 2^15330 .. 2^15345); walk into the band
            let target_steps = if down { rng.range_i64(1040, 1140) } else { rng.range_i64(1030, 1070) };
            let step = rec.cvt(p2(if down { -(target_steps.min(1070) as i32) } else { target_steps.min(1023) as i32 }) * if down { 1.0 } else { 1.0 + rng.f64_unit() * 0.5 });
            cur = rec.bin("mul", cur, step);
            let mut hist = vec![cur];
            for _ in 0..6 {
                let k = rng.range_i64(-40, 40) as i32;
                // every other factor is an exact power of two (the product then keeps its significand and only the
                // exponent moves - straight onto the overflow / underflow thresholds)
                let f = rec.cvt(2f64.powi(k) * if rng.chance(1, 2) { 1.0 } else { 1.0 + rng.f64_unit() });
                cur = rec.bin(if rng.chance(1, 3) { "div" } else { "mul" }, cur, f);
                hist.push(cur);
                if rng.chance(1, 2) {
                    let other = hist[rng.usize_below(hist.len())];
                    rec.bin(*rng.pick(&["add", "sub", "min", "max"]), cur, other);
                    rec.rel(cur, other);
                    rec.un("neg", cur);
                    rec.un("abs", cur);
                }
                rec.back(cur);
            }
        }
        // (4b) products that land exactly on the largest binade and on the first one that no longer exists: x * 2^k for
        // x in [1, 2) and the running exponent walking 16380 .. 16386 (and the mirror image at the bottom)
        for it in 0..(if thorough { 4000 } else { 300 }) {
            let up = it % 2 == 0;
            let x = match it % 3 {
                0 => 1.0,
                1 => 1.75,
                _ => 1.0 + rng.f64_unit(),
            } * if rng.chance(1, 4) { -1.0 } else { 1.0 };
            let mut cur = rec.cvt(x);
            let big = rec.cvt(p2(if up { 1023 } else { -1022 }));
            for _ in 0..16 {
                cur = rec.bin(if rng.chance(1, 8) { "mul=" } else { "mul" }, cur, big);
            }
            // cur = x * 2^(+-16368 / 16352): single binary steps across the threshold
            let two = rec.cvt(if up { 2.0 } else { 0.5 });
            let many = if up { 20 } else { 110 };
            for _ in 0..many {
                cur = rec.bin("mul", cur, two);
                rec.back(cur);
            }
            rec.un("abs", cur);
        }
        // (5) half-ulp boundaries of sums: a = +-2^k * ma, b = +-2^(k-g) * mb with the gap g around the significand width.
        // Just below a power of two the spacing halves, so |b| = 0.75 ulp below 2^k rounds differently from above it.
        let mas = [1.0f64, 1.0 + f64::EPSILON, 1.5, 2.0 - f64::EPSILON];
        let mbs = [1.0f64, 1.25, 1.5, 1.75, 1.0 + f64::EPSILON, 2.0 - f64::EPSILON];
        for &k in &[-900i32, -64, -1, 0, 1, 52, 63, 64, 65, 66, 100, 900] {
            for &ma in &mas {
                for g in 60..=68i32 {
                    for &mb in &mbs {
                        for sa in [1.0f64, -1.0] {
                            for sb in [1.0f64, -1.0] {
                                let (a, b) = (rec.cvt(sa * ma * p2(k)), rec.cvt(sb * mb * p2(k - g)));
                                rec.bin("add", a, b);
                                rec.bin("sub", a, b);
                                rec.bin("add", b, a);
                                rec.bin("add=", a, b);
                                rec.bin("sub=", b, a);
                            }
                        }
                    }
                }
            }
        }
        boundary_events
    });
    match r {
        Ok(be) => {
            report.count("boundary_pair_events", be);
        }
        Err(p) => {
            if p.in_lib {
                report.violation("panic", Json::obj().set("panic", p.msg.as_str()).set("at", format!("{}:{}", p.file, p.line)), vec![]);
            } else {
                report.inconclusive(format!("harness panic at {}:{}: {}", p.file, p.line, p.msg));
            }
        }
    }
    report.count("events_recorded", rec.events);
    report.count("x87_state_checks", rec.state_checks);
    for (what, cw, tag) in rec.state_violations.iter() {
        report.violation(
            format!("x87_state:{}", what),
            Json::obj()
                .set("what", "after a library call the x87 register stack is not empty or the control word changed")
                .set("after", what.as_str())
                .set("control_word", format!("{:#06x}", cw))
                .set("tag_word", format!("{:#06x}", tag)),
            vec![],
        );
    }
    if let Some(p) = a.opt("events") {
        std::fs::write(&p, &rec.out).expect("write event log");
        report.extra("event_log", p);
    }
    report.extra("boundary_set_size", boundary_set().len());
    eng.finish(report);
}
