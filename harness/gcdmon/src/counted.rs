//! An Integer of the harness that counts its arithmetic operations: the logical clock of the termination monitor.
//! The functions of rlib_gcd are generic over `Integer`; on this type every +, -, *, /, % (and the assigning forms) ticks a
//! per-thread counter, and a call that ticks beyond its budget is stopped by a panic from inside the operation - so "the
//! call does not come back" becomes a verdict in logical steps instead of a wall-clock timeout.

use rlib_num_traits::{Integer, MinMax, ZeroOne};
use std::cell::Cell;
use std::fmt;
use std::ops::*;

thread_local! {
    static TICKS: Cell<u64> = Cell::new(0);
    static BUDGET: Cell<u64> = Cell::new(u64::MAX);
}

pub const BUDGET_MSG: &str = "arithmetic-operation budget exceeded";

pub fn arm(budget: u64) {
    TICKS.with(|t| t.set(0));
    BUDGET.with(|b| b.set(budget));
}

pub fn disarm() -> u64 {
    BUDGET.with(|b| b.set(u64::MAX));
    TICKS.with(|t| t.get())
}

#[inline]
fn tick() {
    let n = TICKS.with(|t| {
        t.set(t.get() + 1);
        t.get()
    });
    if n > BUDGET.with(|b| b.get()) {
        BUDGET.with(|b| b.set(u64::MAX));
        panic!("{}: the call has performed {} arithmetic operations on its operands", BUDGET_MSG, n);
    }
}

#[derive(Clone, Copy, PartialEq, Eq, PartialOrd, Ord, Default, Debug)]
pub struct Counted(pub i128);

impl fmt::Display for Counted {
    fn fmt(&self, f: &mut fmt::Formatter) -> fmt::Result {
        write!(f, "{}", self.0)
    }
}

impl ZeroOne for Counted {
    const ZERO: Self = Counted(0);
    const ONE: Self = Counted(1);
}

impl MinMax for Counted {
    const MIN: Self = Counted(i128::MIN);
    const MAX: Self = Counted(i128::MAX);
}

macro_rules! op {
    ($tr:ident, $f:ident, $atr:ident, $af:ident, $checked:ident) => {
        impl<'a> $tr<&'a Counted> for Counted {
            type Output = Counted;
            fn $f(self, rhs: &'a Counted) -> Counted {
                tick();
                Counted(self.0.$checked(rhs.0).expect("Counted: the operation leaves the 128-bit range / divides by zero"))
            }
        }
        impl<'a> $atr<&'a Counted> for Counted {
            fn $af(&mut self, rhs: &'a Counted) {
                tick();
                self.0 = self.0.$checked(rhs.0).expect("Counted: the operation leaves the 128-bit range / divides by zero");
            }
        }
    };
}

op!(Add, add, AddAssign, add_assign, checked_add);
op!(Sub, sub, SubAssign, sub_assign, checked_sub);
op!(Mul, mul, MulAssign, mul_assign, checked_mul);
op!(Div, div, DivAssign, div_assign, checked_div);
op!(Rem, rem, RemAssign, rem_assign, checked_rem);

impl Neg for Counted {
    type Output = Counted;
    fn neg(self) -> Counted {
        Counted(-self.0)
    }
}

impl Integer for Counted {
    fn abs(&self) -> Self {
        Counted(self.0.abs())
    }
    fn into_abs(self) -> Self {
        Counted(self.0.abs())
    }
}
