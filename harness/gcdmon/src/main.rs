//! gcdmon - runtime monitor for C11: `gcd`, `lcm`, the linear Diophantine solver `egcd(a, b, c)` and
//! the two-congruence solver `crt(a1, m1, a2, m2)` of rlib_gcd.
//!
//! The oracles are the number-theoretic *definitions*, evaluated in u128 / i128 with the monitor's
//! own Euclid; no particular solution of the Diophantine equation is demanded.
//!
//!   gcdmon [--mode exhaustive|sampled|types] [--tier quick|thorough] [--seed N]   (default: all modes)
//!   gcdmon --case "<fn>:<type>:<a>,<b>[,<c>[,<d>]]"       replay one call verbosely
//!       fn = gcd | lcm (a,b) | egcd (a,b,c) | crt (a1,m1,a2,m2)

mod counted;

use common::{catch, lib, mix, Engine, Json, PanicInfo, Report, Rng, WorkQueue};
use counted::Counted;
use rlib_gcd::{crt, egcd, gcd, lcm};
use rlib_num_traits::Integer;
use std::fmt;

/// magnitude bound of the property for i64
const B: i128 = 1 << 20;

const FN_GCD: usize = 0;
const FN_LCM: usize = 1;
const FN_EGCD: usize = 2;
const FN_CRT: usize = 3;
const FN_NAMES: [&str; 4] = ["gcd", "lcm", "egcd", "crt"];
const TY_NAMES: [&str; 12] = ["i8", "u8", "i16", "u16", "i32", "u32", "i64", "u64", "i128", "u128", "isize", "usize"];

const RULE: &str = "a call-tuple is non-trivial when: gcd/lcm/egcd - a != 0, b != 0 and |a| != |b|; \
crt - gcd(m1,m2) > 1 or a1 != a2. The hash covers (function, type, all inputs).";

// ------------------------------------------------------------------------------------------------
// sign-magnitude values: wide enough for every one of the 12 integer types

#[derive(Clone, Copy, PartialEq, Eq, Debug)]
struct Sm {
    neg: bool,
    mag: u128,
}

impl Sm {
    fn new(neg: bool, mag: u128) -> Sm {
        Sm { neg: neg && mag != 0, mag }
    }
    fn pos(mag: u128) -> Sm {
        Sm { neg: false, mag }
    }
    fn from_i(v: i128) -> Sm {
        Sm::new(v < 0, v.unsigned_abs())
    }
    fn to_i(self) -> Option<i128> {
        if self.neg {
            if self.mag <= (i128::MAX as u128) + 1 {
                Some((self.mag as i128).wrapping_neg())
            } else {
                None
            }
        } else if self.mag <= i128::MAX as u128 {
            Some(self.mag as i128)
        } else {
            None
        }
    }
    fn parse(s: &str) -> Option<Sm> {
        let s = s.trim();
        let (neg, digits) = match s.strip_prefix('-') {
            Some(r) => (true, r),
            None => (false, s.strip_prefix('+').unwrap_or(s)),
        };
        digits.parse::<u128>().ok().map(|m| Sm::new(neg, m))
    }
}

impl fmt::Display for Sm {
    fn fmt(&self, f: &mut fmt::Formatter<'_>) -> fmt::Result {
        if self.neg {
            write!(f, "-{}", self.mag)
        } else {
            write!(f, "{}", self.mag)
        }
    }
}

impl From<Sm> for Json {
    fn from(v: Sm) -> Json {
        match v.to_i() {
            Some(i) => Json::Int(i),
            None => Json::Str(v.to_string()),
        }
    }
}

// ------------------------------------------------------------------------------------------------
// the integer types under test

trait Ty: Integer + Copy + Send + 'static {
    const NAME: &'static str;
    const ID: usize;
    const SIGNED: bool;
    /// largest admissible magnitude (T::MAX; the signed minimum is outside the property)
    const MAXMAG: u128;
    /// number of magnitude bits
    const MAG_BITS: u32;
    fn from_sm(v: Sm) -> Self;
    fn to_sm(self) -> Sm;
}

/// signed types: the ones `egcd` / `crt` are instantiated for
trait STy: Ty + std::ops::Neg<Output = Self> {
    fn from_i(v: i128) -> Self {
        Self::from_sm(Sm::from_i(v))
    }
    fn to_i(self) -> i128;
}

macro_rules! impl_ty {
    ($it:ty, $iid:expr, $ut:ty, $uid:expr) => {
        impl Ty for $it {
            const NAME: &'static str = stringify!($it);
            const ID: usize = $iid;
            const SIGNED: bool = true;
            const MAXMAG: u128 = <$it>::MAX as u128;
            const MAG_BITS: u32 = <$it>::BITS - 1;
            fn from_sm(v: Sm) -> Self {
                assert!(v.mag <= Self::MAXMAG, "harness: value out of range for {}", Self::NAME);
                let m = v.mag as $it;
                if v.neg {
                    -m
                } else {
                    m
                }
            }
            fn to_sm(self) -> Sm {
                Sm::new(self < 0, <$it>::unsigned_abs(self) as u128)
            }
        }
        impl STy for $it {
            fn to_i(self) -> i128 {
                self as i128
            }
        }
        impl Ty for $ut {
            const NAME: &'static str = stringify!($ut);
            const ID: usize = $uid;
            const SIGNED: bool = false;
            const MAXMAG: u128 = <$ut>::MAX as u128;
            const MAG_BITS: u32 = <$ut>::BITS;
            fn from_sm(v: Sm) -> Self {
                assert!(!v.neg && v.mag <= Self::MAXMAG, "harness: value out of range for {}", Self::NAME);
                v.mag as $ut
            }
            fn to_sm(self) -> Sm {
                Sm::pos(self as u128)
            }
        }
    };
}
impl_ty!(i8, 0, u8, 1);
impl_ty!(i16, 2, u16, 3);
impl_ty!(i32, 4, u32, 5);
impl_ty!(i64, 6, u64, 7);
impl_ty!(i128, 8, u128, 9);
impl_ty!(isize, 10, usize, 11);

/// call a generic function for the type with the given id
macro_rules! dispatch_ty {
    ($id:expr, $f:ident, $($arg:expr),*) => {
        match $id {
            0 => $f::<i8>($($arg),*),
            1 => $f::<u8>($($arg),*),
            2 => $f::<i16>($($arg),*),
            3 => $f::<u16>($($arg),*),
            4 => $f::<i32>($($arg),*),
            5 => $f::<u32>($($arg),*),
            6 => $f::<i64>($($arg),*),
            7 => $f::<u64>($($arg),*),
            8 => $f::<i128>($($arg),*),
            9 => $f::<u128>($($arg),*),
            10 => $f::<isize>($($arg),*),
            11 => $f::<usize>($($arg),*),
            _ => unreachable!(),
        }
    };
}
macro_rules! dispatch_sty {
    ($id:expr, $f:ident, $($arg:expr),*) => {
        match $id {
            0 => $f::<i8>($($arg),*),
            2 => $f::<i16>($($arg),*),
            4 => $f::<i32>($($arg),*),
            6 => $f::<i64>($($arg),*),
            8 => $f::<i128>($($arg),*),
            10 => $f::<isize>($($arg),*),
            _ => unreachable!(),
        }
    };
}

// ------------------------------------------------------------------------------------------------
// the monitor's own arithmetic

fn own_gcd(mut a: u128, mut b: u128) -> u128 {
    while b != 0 {
        let t = a % b;
        a = b;
        b = t;
    }
    a
}

/// g | a in the number-theoretic sense (0 | a only for a = 0)
fn divides(g: u128, a: u128) -> bool {
    if g == 0 {
        a == 0
    } else {
        a % g == 0
    }
}

/// inverse of a modulo m (m >= 1, gcd(a, m) = 1), in [0, m)
fn own_inv(a: i128, m: i128) -> i128 {
    let (mut r0, mut r1) = (m, a.rem_euclid(m));
    let (mut t0, mut t1) = (0i128, 1i128);
    while r1 != 0 {
        let q = r0 / r1;
        let r2 = r0 - q * r1;
        r0 = r1;
        r1 = r2;
        let t2 = t0 - q * t1;
        t0 = t1;
        t1 = t2;
    }
    t0.rem_euclid(m)
}

/// the unique solution in [0, lcm) or None; only used for the witness and as a cross-check of the
/// definitional verdict
fn own_crt(a1: i128, m1: i128, a2: i128, m2: i128) -> Option<i128> {
    let g = own_gcd(m1 as u128, m2 as u128) as i128;
    let d = a2 - a1;
    if d % g != 0 {
        return None;
    }
    let m2g = m2 / g;
    let m1g = m1 / g;
    let k = ((d / g).rem_euclid(m2g)).checked_mul(own_inv(m1g, m2g))?.rem_euclid(m2g);
    m1.checked_mul(k)?.checked_add(a1)
}

fn self_check(rep: &mut Report) {
    // own_gcd against the brute-force definition
    for a in 0u128..=48 {
        for b in 0u128..=48 {
            let mut want = 0u128;
            if a != 0 || b != 0 {
                for d in 1..=a.max(b) {
                    if a % d == 0 && b % d == 0 {
                        want = d;
                    }
                }
            }
            if own_gcd(a, b) != want {
                rep.inconclusive(format!("harness self-check failed: own_gcd({}, {})", a, b));
                return;
            }
        }
    }
    // own_crt against brute force
    for m1 in 1i128..=12 {
        for m2 in 1i128..=12 {
            let l = m1 / own_gcd(m1 as u128, m2 as u128) as i128 * m2;
            for a1 in 0..m1 {
                for a2 in 0..m2 {
                    let want = (0..l).find(|x| x % m1 == a1 && x % m2 == a2);
                    if own_crt(a1, m1, a2, m2) != want {
                        rep.inconclusive(format!("harness self-check failed: own_crt({}, {}, {}, {})", a1, m1, a2, m2));
                        return;
                    }
                }
            }
        }
    }
}

// ------------------------------------------------------------------------------------------------
// context: report + cheap local counters (flushed per work item)

#[derive(Default)]
struct Tally {
    evaluations: u64,
    nontrivial: u64,
    gcd_checked: u64,
    lcm_checked: u64,
    egcd_some: u64,
    egcd_none: u64,
    crt_some: u64,
    crt_none: u64,
    crt_noncoprime_some: u64,
    crt_near_lcm: u64,
    max_operand: i64,
    max_modulus: i64,
    per: [[u64; 12]; 4],
}

struct Cx<'a> {
    rep: &'a mut Report,
    t: Tally,
    verbose: bool,
    /// a non-trivial hash is recorded when hash % stride == 0
    stride: u64,
    sampled: u32,
}

const K_GCD: u32 = 0;
const K_LCM: u32 = 1;
const K_EGCD_SOME: u32 = 2;
const K_EGCD_NONE: u32 = 3;
const K_CRT_SOME: u32 = 4;
const K_CRT_NONE: u32 = 5;

impl<'a> Cx<'a> {
    fn new(rep: &'a mut Report, stride: u64, verbose: bool) -> Cx<'a> {
        Cx { rep, t: Tally::default(), verbose, stride, sampled: 0 }
    }
    fn flush(&mut self) {
        let t = std::mem::take(&mut self.t);
        let mut put = |k: &str, v: u64| {
            if v > 0 {
                self.rep.count(k, v);
            }
        };
        put("evaluations", t.evaluations);
        put("nontrivial_calls", t.nontrivial);
        put("gcd_checked", t.gcd_checked);
        put("lcm_checked", t.lcm_checked);
        put("egcd_some", t.egcd_some);
        put("egcd_none", t.egcd_none);
        put("crt_some", t.crt_some);
        put("crt_none", t.crt_none);
        put("crt_some_noncoprime_moduli", t.crt_noncoprime_some);
        put("crt_result_within_2_of_lcm", t.crt_near_lcm);
        for f in 0..4 {
            for ty in 0..12 {
                if t.per[f][ty] > 0 {
                    put(&format!("{}_{}", FN_NAMES[f], TY_NAMES[ty]), t.per[f][ty]);
                }
            }
        }
        if t.max_operand > 0 {
            self.rep.max("sampled_max_abs_operand", t.max_operand);
        }
        if t.max_modulus > 0 {
            self.rep.max("sampled_max_modulus", t.max_modulus);
        }
    }
    fn begin(&mut self, f: usize, ty: usize, nontrivial: bool, vals: &[Sm]) {
        self.t.evaluations += 1;
        self.t.per[f][ty] += 1;
        if nontrivial {
            self.t.nontrivial += 1;
            let mut w = [0u64; 14];
            w[0] = f as u64;
            w[1] = ty as u64;
            for (i, v) in vals.iter().enumerate() {
                w[2 + 3 * i] = v.mag as u64;
                w[3 + 3 * i] = (v.mag >> 64) as u64;
                w[4 + 3 * i] = v.neg as u64;
            }
            let h = mix(&w[..2 + 3 * vals.len()]);
            if h % self.stride == 0 {
                self.rep.see("nontrivial", h);
            }
        }
    }
    fn want_sample(&mut self, kind: u32, nontrivial: bool) -> bool {
        if nontrivial && self.sampled & (1 << kind) == 0 && self.rep.wants_sample() {
            self.sampled |= 1 << kind;
            true
        } else {
            false
        }
    }
}

const GCD_ARGS: [&str; 2] = ["a", "b"];
const EGCD_ARGS: [&str; 3] = ["a", "b", "c"];
const CRT_ARGS: [&str; 4] = ["a1", "m1", "a2", "m2"];

fn case_string(f: usize, ty: &str, vals: &[Sm]) -> String {
    let v: Vec<String> = vals.iter().map(|v| v.to_string()).collect();
    format!("{}:{}:{}", FN_NAMES[f], ty, v.join(","))
}

fn replay_args(f: usize, ty: &str, vals: &[Sm]) -> Vec<String> {
    vec!["--case".into(), case_string(f, ty, vals)]
}

fn inputs_json(f: usize, ty: &str, names: &[&str], vals: &[Sm]) -> Json {
    let mut j = Json::obj().set("fn", FN_NAMES[f]).set("type", ty);
    for (n, v) in names.iter().zip(vals.iter()) {
        j.push_kv(n, *v);
    }
    j
}

fn on_panic(cx: &mut Cx, f: usize, ty: &str, names: &[&str], vals: &[Sm], p: PanicInfo) {
    if cx.verbose {
        eprintln!("  PANIC at {}:{}: {} (in_lib = {})", p.file, p.line, p.msg, p.in_lib);
    }
    if p.in_lib {
        cx.rep.violation(
            format!("panic:{}:{}", FN_NAMES[f], ty),
            inputs_json(f, ty, names, vals)
                .set("what", "the library panicked on an input inside the magnitudes the property states")
                .set("panic", p.msg.as_str())
                .set("at", format!("{}:{}", p.file, p.line))
                .set("overflow_checks_profile", cfg!(debug_assertions)),
            replay_args(f, ty, vals),
        );
    } else {
        cx.rep.inconclusive(format!("harness panic at {}:{}: {} ({})", p.file, p.line, p.msg, case_string(f, ty, vals)));
    }
}

// ------------------------------------------------------------------------------------------------
// the four checks

fn nontrivial_pair(a: u128, b: u128) -> bool {
    a != 0 && b != 0 && a != b
}

/// gcd(a, b): non-negative, divides both, equals the monitor's Euclid on the magnitudes (gcd(0,0) = 0)
fn check_gcd<T: Ty>(a: Sm, b: Sm, cx: &mut Cx) {
    let want = own_gcd(a.mag, b.mag);
    let (ta, tb) = (T::from_sm(a), T::from_sm(b));
    let nt = nontrivial_pair(a.mag, b.mag);
    let vals = [a, b];
    cx.begin(FN_GCD, T::ID, nt, &vals);
    cx.t.gcd_checked += 1;
    if cx.verbose {
        eprintln!("gcd::<{}>({}, {}): want {}", T::NAME, a, b, want);
    }
    match catch(|| lib!(gcd(ta, tb))) {
        Ok(g) => {
            let g = g.to_sm();
            if cx.verbose {
                eprintln!("  got {}", g);
            }
            let ok = !g.neg && g.mag == want && divides(g.mag, a.mag) && divides(g.mag, b.mag);
            if !ok {
                cx.rep.violation(
                    format!("gcd:{}", T::NAME),
                    inputs_json(FN_GCD, T::NAME, &GCD_ARGS, &vals)
                        .set("what", "gcd(a, b) is not the non-negative greatest common divisor")
                        .set("got", g)
                        .set("want", Sm::pos(want)),
                    replay_args(FN_GCD, T::NAME, &vals),
                );
            } else if cx.want_sample(K_GCD, nt) {
                cx.rep.sample(inputs_json(FN_GCD, T::NAME, &GCD_ARGS, &vals).set("got", g).set("want", Sm::pos(want)));
            }
        }
        Err(p) => on_panic(cx, FN_GCD, T::NAME, &GCD_ARGS, &vals, p),
    }
}

/// lcm admissible: not both zero and |a*b| fits the type
fn lcm_admissible<T: Ty>(a: Sm, b: Sm) -> bool {
    (a.mag != 0 || b.mag != 0) && a.mag.checked_mul(b.mag).map_or(false, |p| p <= T::MAXMAG)
}

/// lcm(a, b): non-negative and lcm * gcd = |a * b| (which pins it down: the least common multiple)
fn check_lcm<T: Ty>(a: Sm, b: Sm, cx: &mut Cx) {
    debug_assert!(lcm_admissible::<T>(a, b));
    let g = own_gcd(a.mag, b.mag);
    let prod = a.mag * b.mag;
    let want = a.mag / g * b.mag;
    let (ta, tb) = (T::from_sm(a), T::from_sm(b));
    let nt = nontrivial_pair(a.mag, b.mag);
    let vals = [a, b];
    cx.begin(FN_LCM, T::ID, nt, &vals);
    cx.t.lcm_checked += 1;
    if cx.verbose {
        eprintln!("lcm::<{}>({}, {}): own gcd {}, |a*b| {}, want {}", T::NAME, a, b, g, prod, want);
    }
    match catch(|| lib!(lcm(ta, tb))) {
        Ok(l) => {
            let l = l.to_sm();
            if cx.verbose {
                eprintln!("  got {}", l);
            }
            let ok = !l.neg && l.mag.checked_mul(g) == Some(prod) && divides(a.mag, l.mag) && divides(b.mag, l.mag);
            if ok && l.mag != want {
                cx.rep.inconclusive(format!("oracle disagreement in lcm ({})", case_string(FN_LCM, T::NAME, &vals)));
            }
            if !ok {
                cx.rep.violation(
                    format!("lcm:{}", T::NAME),
                    inputs_json(FN_LCM, T::NAME, &GCD_ARGS, &vals)
                        .set("what", "lcm(a, b) is not the non-negative least common multiple (lcm * gcd != |a*b|)")
                        .set("got", l)
                        .set("want", Sm::pos(want))
                        .set("gcd", Sm::pos(g)),
                    replay_args(FN_LCM, T::NAME, &vals),
                );
            } else if cx.want_sample(K_LCM, nt) {
                cx.rep.sample(inputs_json(FN_LCM, T::NAME, &GCD_ARGS, &vals).set("got", l).set("want", Sm::pos(want)));
            }
        }
        Err(p) => on_panic(cx, FN_LCM, T::NAME, &GCD_ARGS, &vals, p),
    }
}

/// egcd(a, b, c), (a, b) != (0, 0): Some((x, y)) => a*x + b*y = c exactly; None <=> gcd(a,b) does not divide c
fn check_egcd<T: STy>(a: i128, b: i128, c: i128, cx: &mut Cx) {
    assert!(a != 0 || b != 0, "harness: egcd(0, 0, c) is outside the property");
    let g = own_gcd(a.unsigned_abs(), b.unsigned_abs()) as i128;
    let solvable = c % g == 0;
    let (ta, tb, tc) = (T::from_i(a), T::from_i(b), T::from_i(c));
    let nt = nontrivial_pair(a.unsigned_abs(), b.unsigned_abs());
    let vals = [Sm::from_i(a), Sm::from_i(b), Sm::from_i(c)];
    cx.begin(FN_EGCD, T::ID, nt, &vals);
    if cx.verbose {
        eprintln!("egcd::<{}>({}, {}, {}): own gcd {}, solvable = {}", T::NAME, a, b, c, g, solvable);
    }
    match catch(|| lib!(egcd(ta, tb, tc))) {
        Ok(Some((x, y))) => {
            cx.t.egcd_some += 1;
            let (x, y) = (x.to_i(), y.to_i());
            let lhs = a.checked_mul(x).and_then(|p| b.checked_mul(y).and_then(|q| p.checked_add(q)));
            if cx.verbose {
                eprintln!("  got Some(({}, {})); a*x + b*y = {:?}", x, y, lhs);
            }
            let kind = if !solvable {
                Some(("spurious_solution", "a pair was returned although gcd(a, b) does not divide c"))
            } else if lhs != Some(c) {
                Some(("wrong_solution", "the returned pair does not satisfy a*x + b*y = c"))
            } else {
                None
            };
            if let Some((kind, what)) = kind {
                cx.rep.violation(
                    format!("egcd:{}:{}", T::NAME, kind),
                    inputs_json(FN_EGCD, T::NAME, &EGCD_ARGS, &vals)
                        .set("what", what)
                        .set("got", Json::Arr(vec![x.into(), y.into()]))
                        .set("a*x+b*y", lhs.map(Json::Int).unwrap_or(Json::Str("overflows i128".into())))
                        .set("want", if solvable { "any (x, y) with a*x + b*y = c" } else { "None" })
                        .set("gcd", g),
                    replay_args(FN_EGCD, T::NAME, &vals),
                );
            } else if cx.want_sample(K_EGCD_SOME, nt) {
                cx.rep.sample(
                    inputs_json(FN_EGCD, T::NAME, &EGCD_ARGS, &vals).set("gcd", g).set("got", Json::Arr(vec![x.into(), y.into()])).set("a*x+b*y", c),
                );
            }
        }
        Ok(None) => {
            cx.t.egcd_none += 1;
            if cx.verbose {
                eprintln!("  got None");
            }
            if solvable {
                cx.rep.violation(
                    format!("egcd:{}:missing_solution", T::NAME),
                    inputs_json(FN_EGCD, T::NAME, &EGCD_ARGS, &vals)
                        .set("what", "None although gcd(a, b) divides c")
                        .set("got", Json::Null)
                        .set("want", "some (x, y) with a*x + b*y = c")
                        .set("gcd", g),
                    replay_args(FN_EGCD, T::NAME, &vals),
                );
            } else if cx.want_sample(K_EGCD_NONE, nt) {
                cx.rep.sample(inputs_json(FN_EGCD, T::NAME, &EGCD_ARGS, &vals).set("gcd", g).set("got", Json::Null));
            }
        }
        Err(p) => on_panic(cx, FN_EGCD, T::NAME, &EGCD_ARGS, &vals, p),
    }
}

/// crt(a1, m1, a2, m2), 1 <= m1, m2, 0 <= a1 < m1, 0 <= a2 < m2:
/// Some(x) => 0 <= x < lcm(m1, m2), x = a1 (mod m1), x = a2 (mod m2); None <=> gcd(m1, m2) does not divide a1 - a2
fn check_crt<T: STy>(a1: i128, m1: i128, a2: i128, m2: i128, cx: &mut Cx) {
    assert!(m1 >= 1 && m2 >= 1 && 0 <= a1 && a1 < m1 && 0 <= a2 && a2 < m2, "harness: crt case outside the property");
    let g = own_gcd(m1 as u128, m2 as u128) as i128;
    let compatible = (a1 - a2) % g == 0;
    let l = m1 / g * m2;
    let want = own_crt(a1, m1, a2, m2);
    let (t1, tm1, t2, tm2) = (T::from_i(a1), T::from_i(m1), T::from_i(a2), T::from_i(m2));
    let nt = g > 1 || a1 != a2;
    let vals = [Sm::from_i(a1), Sm::from_i(m1), Sm::from_i(a2), Sm::from_i(m2)];
    cx.begin(FN_CRT, T::ID, nt, &vals);
    if cx.verbose {
        eprintln!(
            "crt::<{}>(a1 = {}, m1 = {}, a2 = {}, m2 = {}): own gcd {}, lcm {}, compatible = {}, unique solution {:?}",
            T::NAME,
            a1,
            m1,
            a2,
            m2,
            g,
            l,
            compatible,
            want
        );
    }
    if compatible != want.is_some() {
        cx.rep.inconclusive(format!("oracle disagreement in crt ({})", case_string(FN_CRT, T::NAME, &vals)));
        return;
    }
    match catch(|| lib!(crt(t1, tm1, t2, tm2))) {
        Ok(Some(x)) => {
            cx.t.crt_some += 1;
            let x = x.to_i();
            if cx.verbose {
                eprintln!("  got Some({})", x);
            }
            let kind = if !compatible {
                Some(("spurious_solution", "a value was returned although gcd(m1, m2) does not divide a1 - a2"))
            } else if !(0 <= x && x < l && x.rem_euclid(m1) == a1 && x.rem_euclid(m2) == a2) {
                Some(("wrong_solution", "the returned value is not the solution in [0, lcm(m1, m2))"))
            } else {
                None
            };
            if let Some((kind, what)) = kind {
                cx.rep.violation(
                    format!("crt:{}:{}", T::NAME, kind),
                    inputs_json(FN_CRT, T::NAME, &CRT_ARGS, &vals)
                        .set("what", what)
                        .set("got", x)
                        .set("want", want)
                        .set("gcd", g)
                        .set("lcm", l)
                        .set("got mod m1", x.rem_euclid(m1))
                        .set("got mod m2", x.rem_euclid(m2)),
                    replay_args(FN_CRT, T::NAME, &vals),
                );
            } else {
                if want != Some(x) {
                    cx.rep.inconclusive(format!("oracle disagreement in crt solution ({})", case_string(FN_CRT, T::NAME, &vals)));
                }
                if g > 1 {
                    cx.t.crt_noncoprime_some += 1;
                }
                if l - x <= 2 {
                    cx.t.crt_near_lcm += 1;
                }
                if cx.want_sample(K_CRT_SOME, g > 1 && a1 != a2) {
                    cx.rep.sample(inputs_json(FN_CRT, T::NAME, &CRT_ARGS, &vals).set("gcd", g).set("lcm", l).set("got", x).set("want", want));
                }
            }
        }
        Ok(None) => {
            cx.t.crt_none += 1;
            if cx.verbose {
                eprintln!("  got None");
            }
            if compatible {
                cx.rep.violation(
                    format!("crt:{}:missing_solution", T::NAME),
                    inputs_json(FN_CRT, T::NAME, &CRT_ARGS, &vals)
                        .set("what", "None although the congruences are compatible")
                        .set("got", Json::Null)
                        .set("want", want)
                        .set("gcd", g)
                        .set("lcm", l),
                    replay_args(FN_CRT, T::NAME, &vals),
                );
            } else if cx.want_sample(K_CRT_NONE, nt) {
                cx.rep.sample(inputs_json(FN_CRT, T::NAME, &CRT_ARGS, &vals).set("gcd", g).set("got", Json::Null));
            }
        }
        Err(p) => on_panic(cx, FN_CRT, T::NAME, &CRT_ARGS, &vals, p),
    }
}

// ------------------------------------------------------------------------------------------------
// mode exhaustive: the small cube and the small moduli square, for i64, i32 and i128

const EXH_TYPES: [usize; 3] = [6, 4, 8]; // i64, i32, i128

/// kind 0: row `a = v` of the cube (gcd, lcm, egcd for all b, c); kind 1: all crt cases with m1 = v
fn exhaustive_item<T: STy>(kind: u32, v: i128, box_k: i128, mod_k: i128, cx: &mut Cx) {
    if kind == 0 {
        let a = v;
        for b in -box_k..=box_k {
            check_gcd::<T>(Sm::from_i(a), Sm::from_i(b), cx);
            if a == 0 && b == 0 {
                continue;
            }
            check_lcm::<T>(Sm::from_i(a), Sm::from_i(b), cx);
            for c in -box_k..=box_k {
                check_egcd::<T>(a, b, c, cx);
            }
        }
    } else {
        let m1 = v;
        for m2 in 1..=mod_k {
            for a1 in 0..m1 {
                for a2 in 0..m2 {
                    check_crt::<T>(a1, m1, a2, m2, cx);
                }
            }
        }
    }
    cx.flush();
}

fn run_exhaustive(threads: usize, thorough: bool, stride: u64, report: &mut Report) {
    let (box_k, mod_k): (i128, i128) = if thorough { (32, 72) } else { (12, 40) };
    let mut items: Vec<(usize, u32, i128)> = Vec::new();
    for &ty in &EXH_TYPES {
        // big items first
        for m1 in (1..=mod_k).rev() {
            items.push((ty, 1, m1));
        }
        for a in -box_k..=box_k {
            items.push((ty, 0, a));
        }
    }
    let q = WorkQueue::new(items.len() as u64);
    let items = &items;
    let mut rep = common::run_sharded(threads, |_shard, rep| {
        let mut cx = Cx::new(rep, stride, false);
        while let Some(i) = q.take() {
            let (ty, kind, v) = items[i as usize];
            dispatch_sty!(ty, exhaustive_item, kind, v, box_k, mod_k, &mut cx);
        }
    });
    rep.samples.truncate(3);
    report.merge(rep);
    let side = 2 * box_k + 1;
    let residues = (mod_k * (mod_k + 1) / 2) * (mod_k * (mod_k + 1) / 2);
    report.extra(
        "exhaustive_subruns",
        Json::obj()
            .set("types", Json::from(vec!["i64", "i32", "i128"]))
            .set("cube", format!("all a, b, c with |a|,|b|,|c| <= {}", box_k))
            .set("gcd_pairs_per_type", side * side)
            .set("lcm_pairs_per_type", side * side - 1)
            .set("egcd_triples_per_type", (side * side - 1) * side)
            .set("crt", format!("all 1 <= m1, m2 <= {} with all reduced residues", mod_k))
            .set("crt_cases_per_type", residues),
    );
}

// ------------------------------------------------------------------------------------------------
// mode sampled: i64 up to 2^20

const SPECIAL: [i128; 16] = [
    720720, 1048576, 983040, 30030, 510510, 831600, 1000000, 999983, 1048573, 524287, 832040, 514229, 1046529, 1048575, 65536, 1024,
];

fn fib_table() -> Vec<i128> {
    let mut f = vec![1i128, 2];
    loop {
        let n = f[f.len() - 1] + f[f.len() - 2];
        if n > B {
            return f;
        }
        f.push(n);
    }
}

fn below(rng: &mut Rng, n: i128) -> i128 {
    rng.below(n as u64) as i128
}

/// a magnitude in 0..=2^20
fn gen_mag(rng: &mut Rng) -> i128 {
    match rng.weighted(&[5, 10, 10, 8, 8, 24, 27, 8]) {
        0 => 0,
        1 => 1 + below(rng, 16),
        2 => 1i128 << rng.below(21),
        3 => {
            let p = 1i128 << (1 + rng.below(20));
            if rng.chance(1, 2) {
                p - 1
            } else {
                (p + 1).min(B)
            }
        }
        4 => B - below(rng, 4),
        5 => 1 + below(rng, B),
        6 => {
            let k = 1 + rng.below(20);
            (1i128 << (k - 1)) + below(rng, 1i128 << (k - 1))
        }
        _ => *rng.pick(&SPECIAL),
    }
}

fn gen_nonzero_mag(rng: &mut Rng) -> i128 {
    let m = gen_mag(rng);
    if m == 0 {
        1 + below(rng, B)
    } else {
        m
    }
}

/// a pair of magnitudes in 0..=2^20 with the shapes the property names
fn gen_mag_pair(rng: &mut Rng, fib: &[i128]) -> (i128, i128) {
    let (a, b) = match rng.weighted(&[28, 8, 12, 10, 6, 18, 6, 6, 6]) {
        0 => (gen_mag(rng), gen_mag(rng)),
        1 => {
            let a = gen_mag(rng);
            (a, a)
        }
        2 => {
            // one a multiple of the other
            let a = if rng.chance(1, 2) { 1 + below(rng, 1 << 10) } else { gen_nonzero_mag(rng) };
            let kmax = B / a;
            let k = match rng.below(5) {
                0 => 0,
                1 => 1,
                2 => kmax,
                _ => 1 + below(rng, kmax),
            };
            (a, a * k)
        }
        3 => {
            // coprime neighbours
            let a = gen_nonzero_mag(rng).min(B - 1);
            (a, a + 1)
        }
        4 => {
            // consecutive Fibonacci numbers (longest Euclid chains)
            let i = rng.usize_below(fib.len() - 1);
            (fib[i], fib[i + 1])
        }
        5 => {
            // a shared, possibly large factor
            let k = 1 + rng.below(19);
            let g = ((1i128 << k) + below(rng, 1i128 << k)).min(B / 2);
            let lim = B / g;
            (g * (1 + below(rng, lim)), g * (1 + below(rng, lim)))
        }
        6 => (0, gen_nonzero_mag(rng)),
        7 => (1i128 << rng.below(21), 1i128 << rng.below(21)),
        _ => (B - below(rng, 3), B - below(rng, 3)),
    };
    if rng.chance(1, 2) {
        (b, a)
    } else {
        (a, b)
    }
}

fn gen_signed_pair(rng: &mut Rng, fib: &[i128], allow_zero_pair: bool) -> (i128, i128) {
    let (mut a, mut b) = gen_mag_pair(rng, fib);
    if a == 0 && b == 0 && !allow_zero_pair {
        b = 1 + below(rng, B);
    }
    match rng.below(4) {
        0 => {}
        1 => a = -a,
        2 => b = -b,
        _ => {
            a = -a;
            b = -b;
        }
    }
    (a, b)
}

fn gen_c(rng: &mut Rng, a: i128, b: i128) -> i128 {
    let g = own_gcd(a.unsigned_abs(), b.unsigned_abs()) as i128;
    let c = match rng.weighted(&[34, 24, 5, 6, 7, 8, 8, 8]) {
        0 => {
            // a multiple of the gcd
            let kmax = B / g;
            let k = match rng.below(6) {
                0 => kmax,
                1 => 1,
                2 => below(rng, kmax.min(8) + 1),
                _ => below(rng, kmax + 1),
            };
            g * k
        }
        1 => gen_mag(rng),
        2 => 0,
        3 => B,
        4 => *rng.pick(&[a, b]),
        5 => {
            let s = if rng.chance(1, 2) { a + b } else { a - b };
            if s.abs() <= B {
                s
            } else {
                g
            }
        }
        6 => {
            let d = if rng.chance(1, 2) { g + 1 } else { g - 1 };
            d.min(B)
        }
        _ => {
            // a small integer combination (always solvable)
            let s = rng.range_i64(-4, 4) as i128;
            let t = rng.range_i64(-4, 4) as i128;
            let v = a * s + b * t;
            if v.abs() <= B {
                v
            } else {
                g
            }
        }
    };
    if rng.chance(1, 2) {
        -c
    } else {
        c
    }
}

fn gen_crt(rng: &mut Rng, fib: &[i128]) -> (i128, i128, i128, i128) {
    let (m1, m2) = gen_mag_pair(rng, fib);
    let m1 = if m1 == 0 { B } else { m1 };
    let m2 = if m2 == 0 { 1 } else { m2 };
    let g = own_gcd(m1 as u128, m2 as u128) as i128;
    let l = m1 / g * m2;
    let from_x = |x: i128| (x % m1, x % m2);
    let gen_x = |rng: &mut Rng| match rng.below(4) {
        0 => l - 1 - below(rng, l.min(8)),
        1 => below(rng, l.min(16)),
        _ => below(rng, l),
    };
    let (a1, a2) = match rng.weighted(&[40, 24, 8, 6, 14, 8]) {
        0 => {
            let x = gen_x(rng);
            from_x(x)
        }
        1 => (below(rng, m1), below(rng, m2)),
        2 => (m1 - 1, m2 - 1),
        3 => (0, 0),
        4 => {
            // a compatible pair shifted by one: incompatible exactly when gcd > 1
            let x = gen_x(rng);
            let (a1, a2) = from_x(x);
            (a1, (a2 + 1) % m2)
        }
        _ => {
            let r = below(rng, m1.min(m2));
            (r, r)
        }
    };
    (a1, m1, a2, m2)
}

/// crt on a narrower type with moduli that share a large factor: the product m1*m2 does not fit the type, but the lcm, the
/// Bezout coefficients (at most m/g in magnitude), their multiple by (a2 - a1)/g (at most (m/g)^2) and the solution all do
fn narrow_crt_case<T: STy>(rng: &mut Rng, cx: &mut Cx) {
    let max = T::MAXMAG as i128;
    let cap = B.min(max);
    for _ in 0..40 {
        // m1 = g*p, m2 = g*q with small cofactors
        let pmax = 1 + below(rng, 64).min((max as f64).sqrt() as i128 / 4);
        let (p, q) = (1 + below(rng, pmax), 1 + below(rng, pmax));
        let gmax = cap / p.max(q);
        if gmax < 2 {
            continue;
        }
        let g = match rng.below(3) {
            0 => gmax,
            1 => 1i128 << (63 - (gmax as u64).leading_zeros()),
            _ => 1 + below(rng, gmax),
        };
        let (m1, m2) = (g * p, g * q);
        let gg = own_gcd(m1 as u128, m2 as u128) as i128;
        let l = m1 / gg * m2;
        let r = m1.max(m2) / gg;
        if !(l <= max / 2 && r * r * 4 <= max && m1 <= cap && m2 <= cap) {
            continue;
        }
        let x = match rng.below(3) {
            0 => l - 1 - below(rng, l.min(4)),
            1 => below(rng, l.min(8)),
            _ => below(rng, l),
        };
        let (a1, mut a2) = (x % m1, x % m2);
        if rng.chance(1, 5) {
            a2 = (a2 + 1) % m2;
        }
        if m1.checked_mul(m2).map_or(true, |pr| pr > max) {
            cx.rep.inc("crt_narrow_type_product_exceeds_type");
        }
        check_crt::<T>(a1, m1, a2, m2, cx);
        return;
    }
}

fn sampled_case(rng: &mut Rng, fib: &[i128], cx: &mut Cx) {
    if rng.chance(1, 12) {
        match rng.below(3) {
            0 => narrow_crt_case::<i32>(rng, cx),
            1 => narrow_crt_case::<i16>(rng, cx),
            _ => narrow_crt_case::<i64>(rng, cx),
        }
        return;
    }
    match rng.weighted(&[12, 10, 40, 38]) {
        0 => {
            let (a, b) = gen_signed_pair(rng, fib, true);
            check_gcd::<i64>(Sm::from_i(a), Sm::from_i(b), cx);
            if b.abs() >= 2 && rng.chance(1, 4) {
                // straight afterwards: the same second operand with a first operand that agrees with the previous one in
                // its low 16 / 32 bits but has another gcd with it
                let shift = *rng.pick(&[16u32, 32, 32]);
                let d = b.abs();
                let p = (2..=d.min(1000)).find(|q| d % q == 0).unwrap_or(d);
                for t in 1..=p.min(64) {
                    let a2 = a + t * (1i128 << shift);
                    if a2 % p == 0 {
                        cx.rep.inc("related_calls_after_a_call");
                        check_gcd::<i64>(Sm::from_i(a2), Sm::from_i(b), cx);
                        check_gcd::<i128>(Sm::from_i(a), Sm::from_i(b), cx);
                        check_gcd::<i128>(Sm::from_i(a2), Sm::from_i(b), cx);
                        break;
                    }
                }
            }
        }
        1 => {
            let (a, b) = gen_signed_pair(rng, fib, false);
            check_lcm::<i64>(Sm::from_i(a), Sm::from_i(b), cx);
        }
        2 => {
            let (a, b) = gen_signed_pair(rng, fib, false);
            let c = gen_c(rng, a, b);
            cx.t.max_operand = cx.t.max_operand.max(a.abs().max(b.abs()).max(c.abs()) as i64);
            check_egcd::<i64>(a, b, c, cx);
            // related calls straight afterwards on the same thread (whatever the first call left behind - a memo, a
            // cache line keyed by part of the arguments - is consulted by a call that differs in a sign, in the order of
            // the operands or in the right-hand side only)
            if rng.chance(1, 3) {
                for _ in 0..rng.range_usize(1, 3) {
                    let c2 = gen_c(rng, a, b);
                    let (a2, b2) = match rng.below(5) {
                        0 => (-a, b),
                        1 => (a, -b),
                        2 => (-a, -b),
                        3 => (b, a),
                        _ => (a, b),
                    };
                    if a2 == 0 && b2 == 0 {
                        continue;
                    }
                    cx.rep.inc("related_calls_after_a_call");
                    check_egcd::<i64>(a2, b2, c2, cx);
                    check_gcd::<i64>(Sm::from_i(a2), Sm::from_i(b2), cx);
                }
            }
        }
        _ => {
            let (a1, m1, a2, m2) = gen_crt(rng, fib);
            cx.t.max_modulus = cx.t.max_modulus.max(m1.max(m2) as i64);
            check_crt::<i64>(a1, m1, a2, m2, cx);
            if rng.chance(1, 3) {
                // the same solution x asked for through other pairs of moduli with the SAME PRODUCT (a small prime factor
                // moved from one modulus to the other), through the swapped pair and with other residues
                let g = own_gcd(m1 as u128, m2 as u128) as i128;
                let x = own_crt(a1, m1, a2, m2).unwrap_or((a1 + a2) % (m1 / g * m2));
                for k in [2i128, 3, 5, 7, 11, 13] {
                    for (n1, n2) in [(m1 * k, m2 / k), (m1 / k, m2 * k)] {
                        let divisible = if n1 > m1 { m2 % k == 0 } else { m1 % k == 0 };
                        if !divisible || n1 < 1 || n2 < 1 || n1 > B || n2 > B {
                            continue;
                        }
                        cx.rep.inc("related_calls_after_a_call");
                        check_crt::<i64>(x % n1, n1, x % n2, n2, cx);
                        check_crt::<i64>(x % n2, n2, (x + 1) % n1, n1, cx);
                    }
                }
                check_crt::<i64>(a2, m2, a1, m1, cx);
            }
        }
    }
}

const BLOCK: u64 = 4096;

fn run_sampled(threads: usize, total: u64, seed: u64, stride: u64, report: &mut Report) {
    let q = WorkQueue::new(total);
    let fib = fib_table();
    let fib = &fib;
    let mut rep = common::run_sharded(threads, |_shard, rep| {
        let mut cx = Cx::new(rep, stride, false);
        while let Some((lo, hi)) = q.take_block(BLOCK) {
            let mut rng = Rng::new(mix(&[seed, 0x5A4D, lo / BLOCK]));
            for _ in lo..hi {
                sampled_case(&mut rng, fib, &mut cx);
            }
            cx.flush();
        }
    });
    rep.samples.truncate(6);
    report.merge(rep);
    report.extra("sampled_calls", total);
    report.extra("sampled_magnitude_bound", B);
}

// ------------------------------------------------------------------------------------------------
// mode types: gcd and lcm for all 12 integer types

/// uniform with exact bit length k (k = 0 gives 0)
fn rand_bits(rng: &mut Rng, k: u32) -> u128 {
    if k == 0 {
        return 0;
    }
    let r = ((rng.next_u64() as u128) << 64) | rng.next_u64() as u128;
    let v = if k == 128 { r } else { r & ((1u128 << k) - 1) };
    v | (1u128 << (k - 1))
}

/// uniform bit length in lo..=hi, then uniform with that exact bit length
fn rand_len(rng: &mut Rng, lo: u32, hi: u32) -> u128 {
    let k = lo + rng.below((hi - lo + 1) as u64) as u32;
    rand_bits(rng, k)
}

fn bit_len(v: u128) -> u32 {
    128 - v.leading_zeros()
}

fn gen_wide_mag<T: Ty>(rng: &mut Rng) -> u128 {
    let mb = T::MAG_BITS;
    let max = T::MAXMAG;
    match rng.weighted(&[4, 10, 12, 8, 8, 40, 18]) {
        0 => 0,
        1 => 1 + rng.below(16) as u128,
        2 => 1u128 << rng.below(mb as u64),
        3 => {
            let p = 1u128 << (1 + rng.below(mb as u64 - 1));
            if rng.chance(1, 2) {
                p - 1
            } else {
                p + 1
            }
        }
        4 => max - rng.below(4) as u128,
        5 => rand_len(rng, 1, mb),
        _ => rand_bits(rng, 128) % max + 1,
    }
}

fn gen_wide_pair<T: Ty>(rng: &mut Rng) -> (Sm, Sm) {
    let mb = T::MAG_BITS;
    let max = T::MAXMAG;
    let (a, b) = match rng.weighted(&[24, 34, 8, 10, 10, 8, 6]) {
        0 => (gen_wide_mag::<T>(rng), gen_wide_mag::<T>(rng)),
        1 => {
            // |a*b| fits the type
            let a = gen_wide_mag::<T>(rng);
            let lim = if a == 0 { max } else { max / a };
            let b = if rng.chance(1, 4) {
                lim - (rng.below(3) as u128).min(lim)
            } else {
                rand_len(rng, 0, bit_len(lim)).min(lim)
            };
            (a, b)
        }
        2 => {
            let a = if rng.chance(2, 3) { rand_len(rng, 1, mb / 2) } else { gen_wide_mag::<T>(rng) };
            (a, a)
        }
        3 => {
            let a = rand_len(rng, 1, mb / 3);
            let k = rand_len(rng, 0, mb / 3);
            (a, a * k)
        }
        4 => {
            let g = rand_len(rng, 1, mb / 4);
            let p = rand_len(rng, 1, mb / 4);
            let q = rand_len(rng, 1, mb / 4);
            (g * p, g * q)
        }
        5 => {
            let a = if rng.chance(2, 3) { rand_len(rng, 1, mb / 2) } else { gen_wide_mag::<T>(rng).clamp(1, max - 1) };
            (a, a + 1)
        }
        _ => (0, gen_wide_mag::<T>(rng)),
    };
    debug_assert!(a <= max && b <= max);
    let (a, b) = if rng.chance(1, 2) { (b, a) } else { (a, b) };
    if T::SIGNED {
        (Sm::new(rng.chance(1, 2), a), Sm::new(rng.chance(1, 2), b))
    } else {
        (Sm::pos(a), Sm::pos(b))
    }
}

/// value number `idx` of an 8-bit type (signed: -127..=127, unsigned: 0..=255)
fn small_value<T: Ty>(idx: u64) -> Sm {
    if T::SIGNED {
        Sm::from_i(idx as i128 - T::MAXMAG as i128)
    } else {
        Sm::pos(idx as u128)
    }
}

fn small_count<T: Ty>() -> u64 {
    if T::SIGNED {
        2 * T::MAXMAG as u64 + 1
    } else {
        T::MAXMAG as u64 + 1
    }
}

/// kind 0: row `idx` of the complete pair table of an 8-bit type; kind 1: block `idx` of sampled pairs
fn types_item<T: Ty>(kind: u32, idx: u64, block_len: u64, seed: u64, cx: &mut Cx) {
    if kind == 0 {
        let a = small_value::<T>(idx);
        for j in 0..small_count::<T>() {
            let b = small_value::<T>(j);
            check_gcd::<T>(a, b, cx);
            if lcm_admissible::<T>(a, b) {
                check_lcm::<T>(a, b, cx);
            }
        }
    } else {
        let mut rng = Rng::new(mix(&[seed, 0x7E57, T::ID as u64, idx]));
        if idx == 0 {
            // worst case of the Euclidean algorithm at the full width of the type: every pair of consecutive Fibonacci
            // numbers that fits (93 steps for 64 bits, 185 for 128), both orders, all sign combinations, and the
            // neighbours F(k)+-1 (one division step fewer / more)
            let (mut x, mut y): (u128, u128) = (1, 2);
            while y <= T::MAXMAG as u128 {
                for (a, b) in [(x, y), (y, x), (y, y - x), (x + 1, y), (x, y - 1)] {
                    if a > T::MAXMAG as u128 || b > T::MAXMAG as u128 {
                        continue;
                    }
                    let signs: &[(bool, bool)] = if T::SIGNED { &[(false, false), (true, false), (false, true), (true, true)] } else { &[(false, false)] };
                    for &(sa, sb) in signs {
                        let (pa, pb) = (Sm::new(sa, a), Sm::new(sb, b));
                        check_gcd::<T>(pa, pb, cx);
                        if lcm_admissible::<T>(pa, pb) {
                            check_lcm::<T>(pa, pb, cx);
                        }
                    }
                }
                let z = match x.checked_add(y) {
                    Some(z) => z,
                    None => break,
                };
                x = y;
                y = z;
            }
        }
        for _ in 0..block_len {
            let (a, b) = gen_wide_pair::<T>(&mut rng);
            check_gcd::<T>(a, b, cx);
            if lcm_admissible::<T>(a, b) {
                check_lcm::<T>(a, b, cx);
            }
        }
    }
    cx.flush();
}

fn run_types(threads: usize, thorough: bool, seed: u64, stride: u64, report: &mut Report) {
    let pairs_per_type: u64 = if thorough { 1 << 20 } else { 40_960 };
    let block_len = 2048u64;
    let mut items: Vec<(usize, u32, u64)> = Vec::new();
    for ty in 0..12usize {
        if ty <= 1 {
            let n = if ty == 0 { small_count::<i8>() } else { small_count::<u8>() };
            for i in 0..n {
                items.push((ty, 0, i));
            }
        } else {
            for blk in 0..pairs_per_type / block_len {
                items.push((ty, 1, blk));
            }
        }
    }
    let q = WorkQueue::new(items.len() as u64);
    let items = &items;
    let mut rep = common::run_sharded(threads, |_shard, rep| {
        let mut cx = Cx::new(rep, stride, false);
        while let Some(i) = q.take() {
            let (ty, kind, idx) = items[i as usize];
            dispatch_ty!(ty, types_item, kind, idx, block_len, seed, &mut cx);
        }
    });
    rep.samples.truncate(3);
    report.merge(rep);
    report.extra(
        "types_subrun",
        Json::obj()
            .set("types", Json::from(TY_NAMES.to_vec()))
            .set("eight_bit", "all pairs without the signed minimum for gcd; every pair with |a*b| <= MAX, not both zero, for lcm")
            .set("sampled_pairs_per_wider_type", pairs_per_type)
            .set("lcm_admissibility", "(a, b) != (0, 0) and |a*b| <= T::MAX"),
    );
}

// ------------------------------------------------------------------------------------------------
// replay of one call

fn replay_gcd_lcm<T: Ty>(f: usize, vals: &[Sm], cx: &mut Cx) -> Result<(), String> {
    if vals.len() != 2 {
        return Err("gcd / lcm take two values".into());
    }
    for v in vals {
        if v.mag > T::MAXMAG || (v.neg && !T::SIGNED) {
            return Err(format!("{} is not an admissible {} (the signed minimum is excluded)", v, T::NAME));
        }
    }
    if f == FN_GCD {
        check_gcd::<T>(vals[0], vals[1], cx);
    } else {
        if !lcm_admissible::<T>(vals[0], vals[1]) {
            return Err("lcm case outside the property: (0, 0) or |a*b| does not fit the type".into());
        }
        check_lcm::<T>(vals[0], vals[1], cx);
    }
    Ok(())
}

fn replay_egcd_crt<T: STy>(f: usize, vals: &[Sm], cx: &mut Cx) -> Result<(), String> {
    let mut iv = Vec::new();
    for v in vals {
        if v.mag > T::MAXMAG {
            return Err(format!("{} is not an admissible {}", v, T::NAME));
        }
        iv.push(v.to_i().ok_or("value out of range")?);
    }
    // the monitor itself only generates |values| <= 2^20 (i64) resp. tiny boxes (other types), where every
    // intermediate value (bounded by max|operand|^2 * max(|c|, 1)) fits; say so when a hand-made case does not
    let big = iv.iter().map(|v| v.unsigned_abs()).max().unwrap_or(0);
    let third = if f == FN_EGCD { iv.get(2).map_or(1, |c| c.unsigned_abs().max(1)) } else { big.max(1) };
    if big.checked_mul(big).and_then(|p| p.checked_mul(third)).and_then(|p| p.checked_mul(4)).map_or(true, |p| p > T::MAXMAG) {
        eprintln!(
            "note: this case is outside the magnitudes the monitor generates for {}: intermediate values need not fit the type, \
             so a violation reported here is not evidence against the property",
            T::NAME
        );
    }
    if f == FN_EGCD {
        if iv.len() != 3 {
            return Err("egcd takes a,b,c".into());
        }
        if iv[0] == 0 && iv[1] == 0 {
            return Err("egcd(0, 0, c) is outside the property".into());
        }
        check_egcd::<T>(iv[0], iv[1], iv[2], cx);
    } else {
        if iv.len() != 4 {
            return Err("crt takes a1,m1,a2,m2".into());
        }
        let (a1, m1, a2, m2) = (iv[0], iv[1], iv[2], iv[3]);
        if !(m1 >= 1 && m2 >= 1 && 0 <= a1 && a1 < m1 && 0 <= a2 && a2 < m2) {
            return Err("crt case outside the property: needs 1 <= m and reduced residues 0 <= a < m".into());
        }
        if m1.checked_mul(m2).map_or(true, |p| p as u128 > T::MAXMAG) {
            return Err("crt case outside the property: m1*m2 does not fit the type".into());
        }
        check_crt::<T>(a1, m1, a2, m2, cx);
    }
    Ok(())
}

fn replay_case(case: &str, report: &mut Report) {
    let parts: Vec<&str> = case.splitn(3, ':').collect();
    if parts.len() != 3 {
        report.inconclusive(format!("cannot parse --case {:?}: expected <fn>:<type>:<a>,<b>[,<c>[,<d>]]", case));
        return;
    }
    let f = FN_NAMES.iter().position(|n| *n == parts[0]);
    let ty = TY_NAMES.iter().position(|n| *n == parts[1]);
    let vals: Option<Vec<Sm>> = parts[2].split(',').map(Sm::parse).collect();
    let (f, ty, vals) = match (f, ty, vals) {
        (Some(f), Some(ty), Some(v)) => (f, ty, v),
        _ => {
            report.inconclusive(format!("cannot parse --case {:?}: unknown function, type or number", case));
            return;
        }
    };
    let mut rep = Report::new();
    let res = {
        let mut cx = Cx::new(&mut rep, 1, true);
        let r = if f == FN_GCD || f == FN_LCM {
            dispatch_ty!(ty, replay_gcd_lcm, f, &vals, &mut cx)
        } else if ty % 2 == 0 {
            dispatch_sty!(ty, replay_egcd_crt, f, &vals, &mut cx)
        } else {
            Err("egcd / crt are monitored for signed types only".to_string())
        };
        cx.flush();
        r
    };
    if let Err(why) = res {
        eprintln!("case not run: {}", why);
        rep.inconclusive(format!("--case {:?} not run: {}", case, why));
    }
    report.merge(rep);
}

// ------------------------------------------------------------------------------------------------

// ------------------------------------------------------------------------------------------------
// termination monitor (runs before everything else): every function on the operation-counting Integer of the harness,
// with operands of very different magnitudes, consecutive Fibonacci numbers (the longest Euclid), equal operands,
// multiples and random widths up to 64 bits. Euclid on 64-bit operands needs at most 93 remainders; a call that performs
// more than OP_BUDGET arithmetic operations is a call that (for every practical purpose) does not return, and is
// reported without waiting for it. The results are compared with the definitions as everywhere else.

const OP_BUDGET: u64 = 50_000;

fn termination_pairs(rng: &mut Rng, fib: &[i128], n: usize) -> Vec<(i128, i128)> {
    let mut v: Vec<(i128, i128)> = Vec::new();
    let bigs: [i128; 10] = [u64::MAX as i128 - 1, u64::MAX as i128, i64::MAX as i128, 1 << 62, (1 << 62) + 1, (1 << 40) + 7, 1 << 32, (1 << 48) - 1, 1_000_000_007i128 * 1_000_000_009, 6_700_417i128 * 4_294_967_297];
    for &b in &bigs {
        for s in [1i128, 2, 3, 6, 7, 10, 255, 256, 65_537, 1 << 20] {
            v.push((b, s));
            v.push((s, b));
            v.push((-b, s));
            v.push((s, -b));
        }
    }
    for w in fib.windows(2) {
        if w[1] < 1 << 64 {
            v.push((w[1], w[0]));
            v.push((w[0], w[1]));
        }
    }
    while v.len() < n {
        let wa = 1 + rng.below(64) as u32;
        let wb = 1 + rng.below(64) as u32;
        let a = (rand_bits(rng, wa) | 1 << (wa - 1)) as i128;
        let b = (rand_bits(rng, wb) | 1 << (wb - 1)) as i128;
        let (a, b) = match rng.below(6) {
            0 => (a, a),
            1 => (a, (a.checked_mul(1 + rng.below(1000) as i128)).filter(|x| *x < 1 << 64).unwrap_or(a)),
            _ => (a, b),
        };
        let sa = if rng.chance(1, 3) { -1 } else { 1 };
        let sb = if rng.chance(1, 3) { -1 } else { 1 };
        v.push((a * sa, b * sb));
    }
    v
}

/// true when a call ran out of budget (the remaining phases are skipped then: they would meet the same inputs on the
/// native types, where nothing can stop the call)
fn run_termination(seed: u64, thorough: bool, report: &mut Report) -> bool {
    let fib = fib_table();
    let mut rng = Rng::new(mix(&[seed, 0x7E12]));
    let pairs = termination_pairs(&mut rng, &fib, if thorough { 2_000_000 } else { 200_000 });
    let mut rep = Report::new();
    let mut exceeded = false;
    let mut max_ticks = 0u64;
    let bad = |rep: &mut Report, f: &str, what: &str, inputs: Vec<i128>, got: String, want: String| {
        rep.violation(
            format!("{}:counted", f),
            Json::obj().set("fn", f).set("type", "operation-counting 128-bit Integer of the harness").set("what", what).set("inputs", format!("{:?}", inputs)).set("got", got).set("want", want),
            vec!["--mode".into(), "termination".into()],
        );
    };
    for &(a, b) in &pairs {
        let stop = |rep: &mut Report, f: &str, inputs: Vec<i128>, p: PanicInfo| -> bool {
            if p.msg.contains(counted::BUDGET_MSG) {
                rep.violation(
                    format!("nontermination:{}", f),
                    Json::obj()
                        .set("fn", f)
                        .set("what", "the call performs more arithmetic operations on its operands than any Euclid-type algorithm needs by orders of magnitude: in logical steps, it does not return")
                        .set("inputs", format!("{:?}", inputs))
                        .set("operation_budget", OP_BUDGET)
                        .set("panic", p.msg.as_str()),
                    vec!["--mode".into(), "termination".into()],
                );
                true
            } else if p.in_lib {
                rep.violation(format!("panic:{}:counted", f), Json::obj().set("fn", f).set("inputs", format!("{:?}", inputs)).set("panic", p.msg.as_str()).set("at", format!("{}:{}", p.file, p.line)), vec!["--mode".into(), "termination".into()]);
                false
            } else {
                rep.inconclusive(format!("harness panic at {}:{}: {}", p.file, p.line, p.msg));
                false
            }
        };
        let want_g = own_gcd(a.unsigned_abs(), b.unsigned_abs()) as i128;
        // gcd
        counted::arm(OP_BUDGET);
        let r = catch(|| lib!(gcd(Counted(a), Counted(b))));
        max_ticks = max_ticks.max(counted::disarm());
        rep.inc("termination_calls");
        match r {
            Ok(g) => {
                if g.0 != want_g {
                    bad(&mut rep, "gcd", "gcd(a, b) is not the non-negative greatest common divisor", vec![a, b], g.0.to_string(), want_g.to_string());
                }
            }
            Err(p) => exceeded |= stop(&mut rep, "gcd", vec![a, b], p),
        }
        // lcm where |a * b| fits the 128 bits of the type
        if a.abs().checked_mul(b.abs()).is_some() {
            counted::arm(OP_BUDGET);
            let r = catch(|| lib!(lcm(Counted(a), Counted(b))));
            max_ticks = max_ticks.max(counted::disarm());
            rep.inc("termination_calls");
            match r {
                Ok(l) => {
                    let want = a.abs() / want_g * b.abs();
                    if l.0 != want {
                        bad(&mut rep, "lcm", "lcm(a, b) is not the non-negative least common multiple", vec![a, b], l.0.to_string(), want.to_string());
                    }
                }
                Err(p) => exceeded |= stop(&mut rep, "lcm", vec![a, b], p),
            }
        }
        // egcd with c a small multiple of the gcd (solvable) - operands kept below 2^40 so that every intermediate fits
        if a.abs() < 1 << 40 && b.abs() < 1 << 40 {
            let c = want_g * (rng.below(7) as i128 - 3);
            counted::arm(OP_BUDGET);
            let r = catch(|| lib!(egcd(Counted(a), Counted(b), Counted(c))));
            max_ticks = max_ticks.max(counted::disarm());
            rep.inc("termination_calls");
            match r {
                Ok(Some((x, y))) => {
                    if a.checked_mul(x.0).and_then(|p| b.checked_mul(y.0).and_then(|q| p.checked_add(q))) != Some(c) {
                        bad(&mut rep, "egcd", "a*x + b*y != c", vec![a, b, c], format!("({}, {})", x.0, y.0), "a solution".into());
                    }
                }
                Ok(None) => bad(&mut rep, "egcd", "none although gcd(a, b) divides c", vec![a, b, c], "None".into(), "a solution".into()),
                Err(p) => exceeded |= stop(&mut rep, "egcd", vec![a, b, c], p),
            }
            // crt with moduli |a|, |b| below 2^30
            let (m1, m2) = (a.abs(), b.abs());
            if m1 < 1 << 30 && m2 < 1 << 30 {
                let a1 = rng.below(m1 as u64) as i128;
                let a2 = rng.below(m2 as u64) as i128;
                counted::arm(OP_BUDGET);
                let r = catch(|| lib!(crt(Counted(a1), Counted(m1), Counted(a2), Counted(m2))));
                max_ticks = max_ticks.max(counted::disarm());
                rep.inc("termination_calls");
                match r {
                    Ok(got) => {
                        let want = own_crt(a1, m1, a2, m2);
                        if got.map(|x| x.0) != want {
                            bad(&mut rep, "crt", "not the unique solution in [0, lcm) / none", vec![a1, m1, a2, m2], format!("{:?}", got.map(|x| x.0)), format!("{:?}", want));
                        }
                    }
                    Err(p) => exceeded |= stop(&mut rep, "crt", vec![a1, m1, a2, m2], p),
                }
            }
        }
        if exceeded {
            break;
        }
    }
    rep.max("max_arithmetic_operations_of_one_call", max_ticks as i64);
    report.merge(rep);
    report.extra("termination_operation_budget", OP_BUDGET);
    exceeded
}

// ------------------------------------------------------------------------------------------------
// many threads inside long Euclid chains at the same moment: the functions are pure, so what one call returns cannot
// depend on how many other calls are in progress. 64 threads, released together, each solving a*x + b*y = c and pairs of
// congruences on consecutive Fibonacci numbers below 2^20 (the deepest recursions inside the stated magnitudes); every
// result judged by the definition as everywhere else.

fn run_concurrent(thorough: bool, report: &mut Report) {
    let nthreads = 64usize;
    let calls = if thorough { 200_000usize } else { 12_000 };
    let fib: Vec<i128> = fib_table().into_iter().filter(|&f| f >= 3 && f < B).collect();
    let barrier = std::sync::Arc::new(std::sync::Barrier::new(nthreads));
    let hs: Vec<_> = (0..nthreads)
        .map(|t| {
            let b = barrier.clone();
            let fib = fib.clone();
            std::thread::spawn(move || {
                let mut rng = Rng::new(mix(&[0xC0C0, t as u64]));
                let mut bad: Vec<(String, Vec<i128>, String)> = Vec::new();
                let mut n = 0u64;
                b.wait();
                for _ in 0..calls {
                    let k = fib.len() - 1 - rng.usize_below(3.min(fib.len() - 1));
                    let (a, bb) = (fib[k] as i64, fib[k - 1] as i64);
                    let c = rng.range_i64(-1000, 1000);
                    n += 1;
                    match catch(|| lib!(egcd(a, bb, c))) {
                        Ok(Some((x, y))) => {
                            if a as i128 * x as i128 + bb as i128 * y as i128 != c as i128 && bad.len() < 3 {
                                bad.push(("egcd".into(), vec![a as i128, bb as i128, c as i128], format!("({}, {})", x, y)));
                            }
                        }
                        Ok(None) => {
                            // consecutive Fibonacci numbers are coprime: every c is solvable
                            if bad.len() < 3 {
                                bad.push(("egcd".into(), vec![a as i128, bb as i128, c as i128], "None".into()));
                            }
                        }
                        Err(p) => {
                            if bad.len() < 3 {
                                bad.push(("egcd".into(), vec![a as i128, bb as i128, c as i128], format!("panic: {}", p.msg)));
                            }
                        }
                    }
                    let (a1, a2) = (rng.range_i64(0, a - 1), rng.range_i64(0, bb - 1));
                    n += 1;
                    match catch(|| lib!(crt(a1, a, a2, bb))) {
                        Ok(got) => {
                            let want = own_crt(a1 as i128, a as i128, a2 as i128, bb as i128);
                            if got.map(|x| x as i128) != want && bad.len() < 3 {
                                bad.push(("crt".into(), vec![a1 as i128, a as i128, a2 as i128, bb as i128], format!("{:?} (want {:?})", got, want)));
                            }
                        }
                        Err(p) => {
                            if bad.len() < 3 {
                                bad.push(("crt".into(), vec![a1 as i128, a as i128, a2 as i128, bb as i128], format!("panic: {}", p.msg)));
                            }
                        }
                    }
                }
                (n, bad)
            })
        })
        .collect();
    for h in hs {
        match h.join() {
            Ok((n, bad)) => {
                report.count("concurrent_calls", n);
                for (f, inputs, got) in bad {
                    report.violation(
                        format!("{}:concurrent", f),
                        Json::obj()
                            .set("fn", f.as_str())
                            .set("what", "with 64 threads inside the function at once a call returned something else than the same call alone (the definition is violated)")
                            .set("inputs", format!("{:?}", inputs))
                            .set("got", got),
                        vec!["--mode".into(), "concurrent".into()],
                    );
                }
            }
            Err(_) => report.inconclusive("a worker of the concurrent phase died".to_string()),
        }
    }
}

fn main() {
    let eng = Engine::start("gcdmon");
    let a = &eng.args;
    let mut report = Report::new();
    report.sample_cap = 12;
    self_check(&mut report);
    report.extra("rule", RULE);
    report.extra("overflow_checks_profile", cfg!(debug_assertions));

    if let Some(case) = a.opt("case") {
        replay_case(&case, &mut report);
        eng.finish(report);
    }

    let mode = a.str("mode", "all");
    let thorough = a.thorough();
    let seed = a.seed();
    let threads = a.threads();
    // thorough runs make ~10^8 calls: only every 32nd non-trivial hash is kept (all are counted)
    let stride: u64 = if thorough { 32 } else { 1 };
    report.extra("mode", mode.as_str());
    report.extra("nontrivial_hash_stride", stride);
    report.extra(
        "nontrivial_note",
        "distinct non-trivial hashes are recorded for tuples whose hash is divisible by nontrivial_hash_stride; counter nontrivial_calls counts all of them",
    );
    if !["all", "exhaustive", "sampled", "types", "termination", "concurrent"].contains(&mode.as_str()) {
        panic!("unknown mode {}", mode);
    }
    if run_termination(seed, thorough, &mut report) || mode == "termination" {
        if mode != "termination" {
            report.extra("skipped", "all phases on the native integer types: the termination monitor found a call that does not return within its operation budget");
        }
        report.extra("exhaustive", false);
        eng.finish(report);
    }
    if mode == "all" || mode == "concurrent" {
        run_concurrent(thorough, &mut report);
    }
    if mode == "all" || mode == "exhaustive" {
        run_exhaustive(threads, thorough, stride, &mut report);
    }
    if mode == "all" || mode == "sampled" {
        let total = a.u64("calls", if thorough { 100_000_000 } else { 1_500_000 });
        run_sampled(threads, total, seed, stride, &mut report);
    }
    if mode == "all" || mode == "types" {
        run_types(threads, thorough, seed, stride, &mut report);
    }
    report.extra("exhaustive", mode == "exhaustive");
    eng.finish(report);
}
