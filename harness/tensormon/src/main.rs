//! tensormon - runtime monitor for C19: `Tensor<T, D>` indexing is a row-major bijection with
//! per-dimension bounds checks; constructors reject zero extents and wrong lengths; write -> read is
//! the identity; equality looks at shape *and* elements.
//!
//! Exhaustive: every shape of rank 1..=4 with extents 1..=5 (780 shapes) is one *case*; the thorough
//! tier additionally covers extents up to 7 (rank <= 3) and 6 (rank 4). The oracle is the engine's own
//! Horner formula offset = ((i0*d1 + i1)*d2 + i2)..., its own odometer over the valid indices and its
//! own rendering of the text grammar; expected panics are observed with `common::panics`.
//!
//!   tensormon [--tier quick|thorough] [--seed N] [--threads K] [--out result.json]
//!   tensormon [--seed N] --case 2x3x4          (replay all checks of one shape, verbosely)
//!
//! The seed only chooses the element values of the IO round trips (boundary values, markers and
//! random bits for the twelve integer types, random printable tokens for String); everything about
//! shapes, indices and probes is enumerated.

use common::{catch, hash_of, lib, mix, panics, show_bytes, Engine, Json, Report, Rng, WorkQueue};
use rlib_io::{Readable, Reader, Writable, Writer};
use rlib_tensor::Tensor;
use std::cell::Cell;
use std::fmt::{Debug, Display};

// ------------------------------------------------------------------------------------------------
// per-case context

struct Cx<'a> {
    rep: &'a mut Report,
    verbose: bool,
    seed: u64,
    /// "2x3x4"
    case: String,
    rank: usize,
    /// extent bound used to enumerate the other shapes with the same product
    bound: usize,
    /// the library function most recently entered (attribution of an unexpected panic)
    stage: Cell<&'static str>,
}

impl Cx<'_> {
    fn replay(&self) -> Vec<String> {
        vec!["--seed".into(), self.seed.to_string(), "--case".into(), self.case.clone()]
    }
    /// signature = "<check>:D<rank>"
    fn viol(&mut self, check: &str, detail: Json) {
        let sig = format!("{}:D{}", check, self.rank);
        self.viol_sig(sig, detail);
    }
    fn viol_sig(&mut self, sig: String, detail: Json) {
        if self.verbose {
            eprintln!("  VIOLATION {}: {}", sig, detail.dump());
        }
        let d = detail.set("shape", self.case.as_str());
        let r = self.replay();
        self.rep.violation(sig, d, r);
    }
    fn say(&self, s: impl FnOnce() -> String) {
        if self.verbose {
            eprintln!("  {}", s());
        }
    }
}

/// A call into the code under test: remembers which function it is and attributes a panic to the library.
macro_rules! call {
    ($cx:expr, $name:expr, $e:expr) => {{
        $cx.stage.set($name);
        lib!($e)
    }};
}

/// Runs one group of checks; a panic raised inside a `call!` is a violation "panic:<fn>:D<rank>",
/// any other panic is a harness error.
fn guarded(cx: &mut Cx, group: &str, f: impl FnOnce(&mut Cx)) {
    let r = catch(|| f(cx));
    if let Err(p) = r {
        if p.in_lib {
            let check = format!("panic:{}", cx.stage.get());
            cx.viol(
                &check,
                Json::obj()
                    .set("what", "the library panicked on a lawful call")
                    .set("group", group)
                    .set("panic", p.msg.as_str())
                    .set("at", format!("{}:{}", p.file, p.line)),
            );
        } else {
            cx.rep.inconclusive(format!("harness panic in {} of shape {} at {}:{}: {}", group, cx.case, p.file, p.line, p.msg));
        }
    }
}

// ------------------------------------------------------------------------------------------------
// the oracle: row-major layout, odometer, text grammar, nested debug rendering

fn shape_str(dims: &[usize]) -> String {
    dims.iter().map(|d| d.to_string()).collect::<Vec<_>>().join("x")
}

/// offset = ((i0*d1 + i1)*d2 + i2)...
fn horner<const D: usize>(dims: &[usize; D], idx: &[usize; D]) -> usize {
    let mut o = 0usize;
    for k in 0..D {
        o = o * dims[k] + idx[k];
    }
    o
}

/// what a flattening *without* per-dimension checks would compute (wrapping), from explicit strides
fn naive_offset<const D: usize>(dims: &[usize; D], idx: &[usize; D]) -> usize {
    let mut stride = [1usize; D];
    for k in (0..D.saturating_sub(1)).rev() {
        stride[k] = stride[k + 1].wrapping_mul(dims[k + 1]);
    }
    let mut o = 0usize;
    for k in 0..D {
        o = o.wrapping_add(idx[k].wrapping_mul(stride[k]));
    }
    o
}

/// all valid multi-indices in row-major order (last index fastest), by an odometer with carry
fn all_indices<const D: usize>(dims: &[usize; D]) -> Vec<[usize; D]> {
    let len: usize = dims.iter().product();
    let mut out = Vec::with_capacity(len);
    let mut idx = [0usize; D];
    'outer: loop {
        out.push(idx);
        let mut k = D;
        loop {
            if k == 0 {
                break 'outer;
            }
            k -= 1;
            idx[k] += 1;
            if idx[k] < dims[k] {
                break;
            }
            idx[k] = 0;
        }
    }
    out
}

/// The text of a tensor: elements in row-major order; between two consecutive elements, with `pos` the
/// most significant dimension in which their indices differ: one space if pos is the last dimension,
/// otherwise D-pos-1 newlines. No trailing separator.
fn expected_text<const D: usize>(dims: &[usize; D], tokens: &[String]) -> String {
    let idxs = all_indices(dims);
    assert_eq!(idxs.len(), tokens.len());
    let mut s = String::new();
    for j in 0..tokens.len() {
        if j > 0 {
            let pos = (0..D).find(|&k| idxs[j - 1][k] != idxs[j][k]).expect("consecutive indices differ");
            if pos == D - 1 {
                s.push(' ');
            } else {
                for _ in 0..D - pos - 1 {
                    s.push('\n');
                }
            }
        }
        s.push_str(&tokens[j]);
    }
    s
}

/// what `{:?}` of the nested `Vec<Vec<..>>` holding the row-major data prints
fn nested_debug<T: Debug>(dims: &[usize], data: &[T]) -> String {
    if dims.len() == 1 {
        format!("[{}]", data.iter().map(|x| format!("{:?}", x)).collect::<Vec<_>>().join(", "))
    } else {
        let chunk = data.len() / dims[0];
        format!("[{}]", data.chunks(chunk).map(|c| nested_debug(&dims[1..], c)).collect::<Vec<_>>().join(", "))
    }
}

fn self_check(rep: &mut Report) {
    let toks: Vec<String> = (0..12).map(|x| x.to_string()).collect();
    let mut ok = expected_text(&[2, 2, 3], &toks) == "0 1 2\n3 4 5\n\n6 7 8\n9 10 11";
    ok &= expected_text(&[12], &toks) == "0 1 2 3 4 5 6 7 8 9 10 11";
    ok &= expected_text(&[3, 4], &toks) == "0 1 2 3\n4 5 6 7\n8 9 10 11";
    ok &= expected_text(&[2, 1, 2, 3], &toks) == "0 1 2\n3 4 5\n\n\n6 7 8\n9 10 11";
    ok &= expected_text(&[3, 4, 1], &toks) == "0\n1\n2\n3\n\n4\n5\n6\n7\n\n8\n9\n10\n11";
    if !ok {
        rep.inconclusive("harness self-check failed: expected_text");
    }
    let v2 = vec![vec![0, 1], vec![2, 3]];
    let v3 = vec![vec![vec![0, 1, 2]], vec![vec![3, 4, 5]]];
    if nested_debug(&[2, 2], &[0, 1, 2, 3]) != format!("{:?}", v2)
        || nested_debug(&[2, 1, 3], &[0, 1, 2, 3, 4, 5]) != format!("{:?}", v3)
        || nested_debug(&[2], &["a", "b"]) != format!("{:?}", vec!["a", "b"])
    {
        rep.inconclusive("harness self-check failed: nested_debug");
    }
    let idxs = all_indices(&[2usize, 3, 2]);
    let good = idxs.len() == 12
        && idxs[1] == [0, 0, 1]
        && idxs[2] == [0, 1, 0]
        && idxs[6] == [1, 0, 0]
        && idxs.iter().enumerate().all(|(j, i)| horner(&[2, 3, 2], i) == j && naive_offset(&[2, 3, 2], i) == j);
    if !good {
        rep.inconclusive("harness self-check failed: odometer / offset formula");
    }
    if naive_offset(&[2usize, 3], &[0, 3]) != 3 || naive_offset(&[2usize, 3], &[1, usize::MAX]) != 2 {
        rep.inconclusive("harness self-check failed: naive_offset");
    }
}

// ------------------------------------------------------------------------------------------------
// element values for the IO round trips

trait IntVal: Sized + Copy {
    fn bounds() -> Vec<Self>;
    fn from_bits(x: u128) -> Self;
}
macro_rules! impl_intval {
    ($($t:ty),*) => {$(
        impl IntVal for $t {
            fn bounds() -> Vec<$t> {
                // MIN, MAX, 0, 1, -1 (signed; MAX again for unsigned), MIN+1, MAX-1
                vec![<$t>::MIN, <$t>::MAX, 0, 1, (0 as $t).wrapping_sub(1), <$t>::MIN.wrapping_add(1), <$t>::MAX - 1]
            }
            fn from_bits(x: u128) -> $t {
                x as $t
            }
        }
    )*};
}
impl_intval!(i8, u8, i16, u16, i32, u32, i64, u64, i128, u128, isize, usize);

/// boundary values, position markers and random bit patterns, interleaved
fn int_data<T: IntVal>(len: usize, rng: &mut Rng) -> Vec<T> {
    let b = T::bounds();
    let rot = rng.usize_below(3);
    let rot2 = rng.usize_below(b.len());
    (0..len)
        .map(|j| match (j + rot) % 3 {
            0 => b[(j / 3 + rot2) % b.len()],
            1 => T::from_bits(j as u128),
            _ => {
                let bits = ((rng.next_u64() as u128) << 64) | rng.next_u64() as u128;
                let v = bits >> rng.below(128);
                if rng.chance(1, 3) {
                    // decimal structure: a few leading digits, then a long run of zeros (or nines), then a few digits
                    let g = 1 + rng.below(30) as u32;
                    let pg = 10u128.pow(g);
                    let low = rng.below(1000) as u128 % pg;
                    let hi = (v / pg) % 1000 + 1;
                    let cand = hi.wrapping_mul(pg).wrapping_add(if rng.chance(1, 2) { low } else { pg - 1 - low });
                    T::from_bits(cand)
                } else {
                    T::from_bits(v)
                }
            }
        })
        .collect()
}

/// non-empty tokens of printable ASCII without whitespace
fn string_data(len: usize, rng: &mut Rng) -> Vec<String> {
    let mut v = string_data_short(len, rng);
    // now and then one element (not the first) is longer than the writer's and the reader's buffer
    if len >= 2 && rng.chance(1, 25) {
        let at = 1 + rng.usize_below(len - 1);
        let n = rng.range_usize(65_530, 70_000);
        v[at] = (0..n).map(|i| (0x21 + ((i * 7 + at) % 94) as u8) as char).collect();
    }
    v
}

fn string_data_short(len: usize, rng: &mut Rng) -> Vec<String> {
    const FIXED: &[&str] = &["-", "0", "-5", "[", ",", "\"q\"", "a\\b", "~", "!", "007"];
    (0..len)
        .map(|j| match rng.below(4) {
            0 => format!("s{}", j),
            1 => FIXED[rng.usize_below(FIXED.len())].to_string(),
            _ => {
                // any byte that is not ASCII whitespace (space, \t, \n, \x0c, \r) may occur inside a token: printable
                // characters mostly, now and then a control character (\x0b is NOT whitespace for the reader)
                let n = rng.range_usize(1, 6);
                (0..n)
                    .map(|_| {
                        if rng.chance(1, 12) {
                            *rng.pick(&[0x0bu8, 0x01, 0x08, 0x0e, 0x1b, 0x1f, 0x7f, 0x00]) as char
                        } else {
                            (0x21 + rng.below(0x7e - 0x21 + 1) as u8) as char
                        }
                    })
                    .collect()
            }
        })
        .collect()
}

/// several tensors through ONE writer and ONE reader, more than a buffer of text in all, arranged so that a run of
/// separators inside a tensor (the blank line between two blocks) straddles the reader's / writer's buffer edge at
/// every possible split
fn stream_boundary_checks(rep: &mut Report) {
    let buf = Writer::verif_buf_size();
    let replay = vec!["--stream".to_string()];
    for (vi, dims) in [[2usize, 1, 2], [2, 2, 1], [3, 1, 1]].iter().enumerate() {
        for shift in 0..4usize {
            rep.inc("evaluations");
            rep.inc("stream_boundary_cases");
            let r = catch(|| {
                let len: usize = dims.iter().product();
                let data: Vec<u64> = (0..len as u64).map(|j| 1000 + 37 * j + vi as u64).collect();
                let t = lib!(Tensor::<u64, 3>::from_vec(*dims, data.clone()));
                let text = write_out(&t);
                // offset of the first run of two or more newlines inside the tensor's text
                let run_at = text.windows(2).position(|w| w == b"\n\n").expect("blank line between blocks");
                // filler token + '\n' + tensor text: the run starts at buf - 1 - shift + 1 .. so that it covers the edge
                let want_start = buf + 1 - shift.min(2) - if shift == 3 { 3 } else { 0 };
                let filler_len = want_start - 1 - run_at;
                let filler = "f".repeat(filler_len);
                let tail: Vec<u64> = (0..300u64).map(|j| j * j + 7).collect();
                let mut v: Vec<u8> = Vec::new();
                {
                    let mut w = lib!(Writer::new(Box::new(&mut v)));
                    lib!(w.write(&filler));
                    lib!(w.write_char('\n'));
                    lib!(w.write(&t));
                    lib!(w.write_char('\n'));
                    lib!(w.write(&t));
                    lib!(w.write_char('\n'));
                    lib!(w.write(&tail));
                    lib!(w.write_char('\n'));
                    lib!(w.flush());
                }
                let mut reader = reader_over(&v);
                let f2: String = lib!(reader.read());
                let t1 = lib!(Tensor::<u64, 3>::read(*dims, &mut reader));
                let t2 = lib!(Tensor::<u64, 3>::read(*dims, &mut reader));
                let tl: Vec<u64> = lib!(reader.read_vec(300));
                let ok = f2 == filler && t1 == t && t2 == t && tl == tail;
                (ok, v.len(), t1.iter().cloned().collect::<Vec<u64>>(), data)
            });
            match r {
                Ok((true, n, _, _)) => rep.max("max_stream_bytes", n as i64),
                Ok((false, n, got, want)) => rep.violation(
                    "stream_roundtrip:D3:u64",
                    Json::obj()
                        .set("what", "tensors written one after another through one writer and read back through one reader differ from the originals (a separator run straddles the buffer edge)")
                        .set("dims", dims.to_vec())
                        .set("shift", shift)
                        .set("stream_bytes", n)
                        .set("first_tensor_back", got)
                        .set("want", want),
                    replay.clone(),
                ),
                Err(p) => {
                    if p.in_lib {
                        rep.violation("panic:stream_roundtrip", Json::obj().set("panic", p.msg.as_str()).set("at", format!("{}:{}", p.file, p.line)).set("dims", dims.to_vec()).set("shift", shift), replay.clone());
                    } else {
                        rep.inconclusive(format!("harness panic at {}:{}: {}", p.file, p.line, p.msg));
                    }
                }
            }
        }
    }
}

// ------------------------------------------------------------------------------------------------
// long streams: 5..11 tensors of a 64- or 128-bit element type (1500..4000 dense-digit elements each, several hundred
// kilobytes in all) written one after another through one writer and read back through one reader whose source hands the
// text over in large or in shrinking pieces; the text ends with the last digit of the last element (Tensor::write emits
// no trailing separator), so the reader's buffer has been refilled many times when it meets the end of input.

struct ShrinkingSource {
    data: Vec<u8>,
    pos: usize,
    next_len: usize,
}

impl std::io::Read for ShrinkingSource {
    fn read(&mut self, buf: &mut [u8]) -> std::io::Result<usize> {
        let n = self.next_len.min(buf.len()).min(self.data.len() - self.pos);
        buf[..n].copy_from_slice(&self.data[self.pos..self.pos + n]);
        self.pos += n;
        // every piece a little shorter than the one before, then long again
        self.next_len = if self.next_len > 3000 { self.next_len * 7 / 8 } else { 1 << 20 };
        Ok(n)
    }
}

fn long_stream_checks(seed: u64, rep: &mut Report) {
    macro_rules! one {
        ($t:ty, $name:expr, $gen:expr) => {{
            for variant in 0..3u64 {
                let mut rng = Rng::new(common::mix(&[seed, 0x10_57, variant, common::hash_str($name)]));
                rep.inc("evaluations");
                rep.inc("long_stream_cases");
                let replay = vec!["--long-stream".to_string()];
                let r = catch(|| {
                    let k = rng.range_usize(5, 11);
                    let mut tensors: Vec<Tensor<$t, 2>> = Vec::new();
                    let mut v: Vec<u8> = Vec::new();
                    {
                        let mut w = lib!(Writer::new(Box::new(&mut v)));
                        for i in 0..k {
                            let dims = [rng.range_usize(1, 60), rng.range_usize(25, 70)];
                            let len = dims[0] * dims[1];
                            let f: fn(&mut Rng) -> $t = $gen;
                            let data: Vec<$t> = (0..len).map(|_| f(&mut rng)).collect();
                            let t = lib!(Tensor::<$t, 2>::from_vec(dims, data));
                            if i > 0 {
                                lib!(w.write_char('\n'));
                            }
                            lib!(w.write(&t));
                            tensors.push(t);
                        }
                        lib!(w.flush());
                    }
                    let total = v.len();
                    let mut reader = if variant == 1 {
                        Reader::new(Box::new(ShrinkingSource { data: v.clone(), pos: 0, next_len: 1 << 20 }))
                    } else if variant == 2 {
                        Reader::new(Box::new(ShrinkingSource { data: v.clone(), pos: 0, next_len: 50_000 }))
                    } else {
                        reader_over(&v)
                    };
                    let mut first_bad: Option<usize> = None;
                    for (i, t) in tensors.iter().enumerate() {
                        let dims = [t.dim(0), t.dim(1)];
                        let back = lib!(Tensor::<$t, 2>::read(dims, &mut reader));
                        if back != *t && first_bad.is_none() {
                            first_bad = Some(i);
                        }
                    }
                    (first_bad, k, total)
                });
                match r {
                    Ok((None, _, n)) => rep.max("max_stream_bytes", n as i64),
                    Ok((Some(i), k, n)) => rep.violation(
                        format!("stream_roundtrip:long:{}", $name),
                        Json::obj()
                            .set("what", "tensors written one after another through one writer and read back through one reader differ from the originals (long stream, text ends with the last element)")
                            .set("element_type", $name)
                            .set("tensors", k)
                            .set("first_tensor_that_differs", i)
                            .set("stream_bytes", n)
                            .set("source", ["one large piece", "shrinking pieces from 2^20 bytes", "shrinking pieces from 50000 bytes"][variant as usize]),
                        replay.clone(),
                    ),
                    Err(p) => {
                        if p.in_lib {
                            rep.violation("panic:stream_roundtrip".to_string(), Json::obj().set("panic", p.msg.as_str()).set("at", format!("{}:{}", p.file, p.line)).set("element_type", $name), replay.clone());
                        } else {
                            rep.inconclusive(format!("harness panic at {}:{}: {}", p.file, p.line, p.msg));
                        }
                    }
                }
            }
        }};
    }
    one!(u64, "u64", |r| if r.chance(1, 6) { r.next_u64() >> r.below(64) } else { r.next_u64() });
    one!(i64, "i64", |r| if r.chance(1, 6) { (r.next_u64() >> r.below(64)) as i64 } else { r.next_u64() as i64 });
    one!(i128, "i128", |r| (((r.next_u64() as u128) << 64 | r.next_u64() as u128) >> r.below(100)) as i128 * if r.chance(1, 2) { -1 } else { 1 });
    one!(usize, "usize", |r| r.next_u64() as usize);
    one!(u32, "u32", |r| r.next_u64() as u32);
}

// ------------------------------------------------------------------------------------------------
// IO helpers (the real Writer / Reader over in-memory buffers)

fn write_out<W: Writable>(t: &W) -> Vec<u8> {
    let mut v: Vec<u8> = Vec::new();
    {
        let mut w = Writer::new(Box::new(&mut v));
        w.write(t);
        w.flush();
    }
    v
}

fn reader_over(bytes: &[u8]) -> Reader<'static> {
    Reader::new(Box::new(std::io::Cursor::new(bytes.to_vec())))
}

/// write -> exact text -> read -> equal, for one element type
fn io_roundtrip<T, const D: usize>(cx: &mut Cx, dims: [usize; D], data: &[T], ty: &str, sample: bool)
where
    T: Clone + PartialEq + Debug + Display + Readable + Writable,
{
    let tokens: Vec<String> = data.iter().map(|x| x.to_string()).collect();
    let want_text = expected_text(&dims, &tokens);
    let t = call!(cx, "from_slice", Tensor::<T, D>::from_slice(dims, data));
    let written = call!(cx, "write", write_out(&t));
    cx.rep.inc("writes_compared_with_grammar");
    cx.rep.max("max_text_bytes", written.len() as i64);
    cx.say(|| format!("[{}] written \"{}\"", ty, show_bytes(&written)));
    if written != want_text.as_bytes() {
        // separators wrong, or an element rendered wrongly?
        let got_s = String::from_utf8_lossy(&written).to_string();
        let got_tokens: Vec<&str> = got_s.split_ascii_whitespace().collect();
        let same_tokens = got_tokens.len() == tokens.len() && got_tokens.iter().zip(tokens.iter()).all(|(a, b)| a == b);
        let detail = Json::obj()
            .set("type", ty)
            .set("data", Json::from(tokens.clone()))
            .set("got", show_bytes(&written))
            .set("want", show_bytes(want_text.as_bytes()));
        if same_tokens {
            cx.viol("write_grammar", detail.set("what", "separators differ: one space inside the last dimension, D-pos-1 newlines between blocks, no trailing separator"));
        } else {
            cx.viol_sig(format!("write_element:D{}:{}", D, ty), detail.set("what", "the written tokens are not the row-major elements in decimal / literal form"));
        }
    }
    // the same tensor written behind pending output that leaves the writer's buffer 0, 1, 2 bytes short of full, exactly
    // full after the first element, and one byte short of that (separators and elements then straddle the buffer edge)
    if written == want_text.as_bytes() && (ty == "i64" || ty == "String" || ty == "u8") {
        let buf = Writer::verif_buf_size();
        let t0 = tokens[0].len();
        for k in [0usize, 1, 2, t0, t0 + 1, t0 + 2] {
            if k > buf {
                continue;
            }
            let prefill = "p".repeat(buf - k);
            let mut v: Vec<u8> = Vec::new();
            {
                let mut w = call!(cx, "new", Writer::new(Box::new(&mut v)));
                call!(cx, "write", w.write(&prefill));
                call!(cx, "write", w.write(&t));
                call!(cx, "flush", w.flush());
            }
            cx.rep.inc("writes_behind_pending_output");
            if v.len() != prefill.len() + want_text.len() || &v[prefill.len()..] != want_text.as_bytes() || v[..prefill.len()].iter().any(|&b| b != b'p') {
                let tail = &v[prefill.len().min(v.len())..];
                cx.viol_sig(
                    format!("write_behind_pending_output:D{}:{}", D, ty),
                    Json::obj()
                        .set("what", "the tensor's text written behind pending output of almost one buffer is not its row-major text")
                        .set("type", ty)
                        .set("pending_bytes_before", buf - k)
                        .set("buffer_size", buf)
                        .set("got_len", v.len())
                        .set("want_len", prefill.len() + want_text.len())
                        .set("got_tail", show_bytes(&tail[..tail.len().min(200)]))
                        .set("want_tail", show_bytes(&want_text.as_bytes()[..want_text.len().min(200)])),
                );
                break;
            }
        }
    }
    let mut reader = reader_over(&written);
    let back = call!(cx, "read", Tensor::<T, D>::read(dims, &mut reader));
    cx.rep.inc("roundtrips");
    cx.rep.see_str("roundtrip_types", ty);
    let eq = call!(cx, "eq", back == t);
    let back_dims = *call!(cx, "dims", back.dims());
    let back_data: Vec<T> = call!(cx, "iter", back.iter().cloned().collect());
    if !eq || back_dims != dims || back_data.as_slice() != data {
        cx.viol_sig(
            format!("roundtrip:D{}:{}", D, ty),
            Json::obj()
                .set("what", "read(dims, write(t)) is not equal to t")
                .set("type", ty)
                .set("text", show_bytes(&written))
                .set("eq", eq)
                .set("dims_back", back_dims.to_vec())
                .set("data", Json::from(tokens.clone()))
                .set("data_back", Json::from(back_data.iter().map(|x| x.to_string()).collect::<Vec<_>>())),
        );
    }
    if sample {
        cx.rep.sample(
            Json::obj()
                .set("shape", dims.to_vec())
                .set("type", ty)
                .set("data", Json::from(tokens))
                .set("written_text", show_bytes(&written))
                .set("read_back_equal", eq),
        );
    }
}

// ------------------------------------------------------------------------------------------------
// one case = one shape

const SAMPLE_SHAPES: &[&str] = &["2x3", "2x2x3", "2x1x2x2"];

fn run_shape<const D: usize>(dims: [usize; D], cx: &mut Cx) {
    let len: usize = dims.iter().product();
    let data: Vec<i64> = (0..len as i64).collect();
    let idxs = all_indices(&dims);
    let want_sample = SAMPLE_SHAPES.contains(&cx.case.as_str());
    cx.rep.inc("evaluations");
    cx.rep.inc(&format!("shapes_rank{}", D));
    cx.rep.max("max_elements", len as i64);
    let big = dims.iter().filter(|&&d| d > 1).count();
    if big >= 2 || (D == 1 && dims[0] > 1) {
        cx.rep.see("nontrivial", hash_of(&(D, dims.to_vec())));
    }
    cx.say(|| format!("shape {:?} rank {} len {} data 0..{}", dims, D, len, len));

    // oracle sanity (harness side): the odometer order is the Horner order
    if idxs.len() != len || idxs.iter().enumerate().any(|(j, i)| horner(&dims, i) != j) {
        cx.rep.inconclusive(format!("harness self-check failed: odometer vs horner on {}", cx.case));
        return;
    }
    let tokens: Vec<String> = data.iter().map(|x| x.to_string()).collect();
    let text = expected_text(&dims, &tokens);
    let flat_text = tokens.join(" ");

    // ---- construction consistency ---------------------------------------------------------------
    guarded(cx, "construction", |cx| {
        let mut built: Vec<(&'static str, Tensor<i64, D>)> = Vec::new();
        built.push(("from_vec", call!(cx, "from_vec", Tensor::from_vec(dims, data.clone()))));
        built.push(("from_slice", call!(cx, "from_slice", Tensor::from_slice(dims, &data))));
        {
            let mut t = call!(cx, "new", Tensor::<i64, D>::new(dims, -7));
            let fill: Vec<i64> = call!(cx, "iter", t.iter().cloned().collect());
            if fill != vec![-7i64; len] {
                cx.viol("construct_new_fill", Json::obj().set("what", "new(dims, v) is not len copies of v").set("got", fill));
            }
            for (j, idx) in idxs.iter().enumerate() {
                call!(cx, "index_mut", t[*idx] = data[j]);
                cx.rep.inc("index_probes");
            }
            built.push(("new+index_mut", t));
        }
        {
            // the text in the tensor's own layout, followed by one more token that must be left unread
            let mut r = reader_over(format!("{}\n777", text).as_bytes());
            let t = call!(cx, "read", Tensor::<i64, D>::read(dims, &mut r));
            let next: i64 = lib!(r.read());
            if next != 777 {
                cx.viol("read_consumes", Json::obj().set("what", "read(dims) did not consume exactly product(dims) tokens").set("next_token", next).set("text", show_bytes(text.as_bytes())));
            }
            built.push(("read", t));
        }
        {
            // all tokens on one line (the layout is not significant when reading)
            let mut r = reader_over(flat_text.as_bytes());
            built.push(("read_one_line", call!(cx, "read", Tensor::<i64, D>::read(dims, &mut r))));
        }
        for (path, t) in built.iter() {
            cx.rep.inc(&format!("constructions_{}", path));
            let got_dims = *call!(cx, "dims", t.dims());
            let got_dim: Vec<usize> = (0..D).map(|i| call!(cx, "dim", t.dim(i))).collect();
            if got_dims != dims || got_dim != dims.to_vec() {
                cx.viol(&format!("construct_dims:{}", path), Json::obj().set("dims()", got_dims.to_vec()).set("dim(i)", got_dim).set("want", dims.to_vec()));
            }
            let it: Vec<i64> = call!(cx, "iter", t.iter().cloned().collect());
            if it != data {
                cx.viol(&format!("construct_iter:{}", path), Json::obj().set("what", "iter() is not the row-major data").set("got", it).set("want", data.clone()));
            }
            else {
                // iter() through random scripts of Iterator calls (nth, by_ref adaptors, fold-based terminals)
                let mut r = Rng::new(common::mix(&[0x7e50, len as u64, data[0] as u64, D as u64]));
                cx.rep.inc("iterator_protocol_scripts");
                if let Err(e) = common::iter_protocol(t.iter().cloned(), &data, &mut r, 8) {
                    cx.viol(&format!("construct_iter_protocol:{}", path), Json::obj().set("what", "iter() seen through standard Iterator calls is not the row-major data").set("script", e));
                }
            }
            for (j, idx) in idxs.iter().enumerate() {
                let got = call!(cx, "index", t[*idx]);
                cx.rep.inc("index_probes");
                if got != data[j] {
                    cx.viol(
                        &format!("index_offset:{}", path),
                        Json::obj().set("what", "t[idx] is not the element at the row-major offset").set("idx", idx.to_vec()).set("offset", j).set("got", got).set("want", data[j]),
                    );
                    break;
                }
            }
        }
        for a in 0..built.len() {
            for b in 0..built.len() {
                let eq = call!(cx, "eq", built[a].1 == built[b].1);
                let ne = call!(cx, "ne", built[a].1 != built[b].1);
                cx.rep.inc("eq_true_checks");
                if !eq || ne {
                    cx.viol("eq_same", Json::obj().set("what", "tensors with equal shape and data built by two constructors do not compare equal").set("a", built[a].0).set("b", built[b].0).set("eq", eq).set("ne", ne));
                }
            }
        }
        for (path, t) in built.into_iter() {
            let t2 = call!(cx, "clone", t.clone());
            let v: Vec<i64> = call!(cx, "into_iter", t.into_iter().collect());
            if v != data {
                cx.viol(&format!("construct_into_iter:{}", path), Json::obj().set("got", v).set("want", data.clone()));
            } else {
                let mut r = Rng::new(common::mix(&[0x7e51, len as u64, data[0] as u64, D as u64]));
                if let Err(e) = common::iter_protocol(t2.into_iter(), &data, &mut r, 8) {
                    cx.viol(&format!("construct_into_iter_protocol:{}", path), Json::obj().set("what", "into_iter() seen through standard Iterator calls is not the row-major data").set("script", e));
                }
            }
        }
    });

    // ---- indexing: offsets, bijection, single-position writes ---------------------------------------
    guarded(cx, "indexing", |cx| {
        let mut t = call!(cx, "from_vec", Tensor::from_vec(dims, data.clone()));
        let mut seen = vec![false; len];
        for (j, idx) in idxs.iter().enumerate() {
            let want = horner(&dims, idx);
            debug_assert_eq!(want, j);
            let got = call!(cx, "get_index", t.get_index(*idx));
            cx.rep.inc("index_probes");
            if got != want {
                cx.viol("get_index", Json::obj().set("idx", idx.to_vec()).set("got", got).set("want", want));
            }
            if got >= len || seen[got] {
                cx.viol("bijection", Json::obj().set("what", "two valid indices share an offset, or an offset is outside 0..len").set("idx", idx.to_vec()).set("offset", got).set("len", len));
            } else {
                seen[got] = true;
            }
            let v = call!(cx, "index", t[*idx]);
            cx.rep.inc("index_probes");
            if v != data[want] {
                cx.viol("index_offset", Json::obj().set("idx", idx.to_vec()).set("offset", want).set("got", v).set("want", data[want]));
            }
        }
        if seen.iter().any(|s| !s) {
            cx.viol("bijection", Json::obj().set("what", "the valid indices do not cover 0..len").set("missing", seen.iter().position(|s| !s)));
        }
        // unique marker through index_mut: exactly one position of iter() changes
        let mut shadow = data.clone();
        for (j, idx) in idxs.iter().enumerate() {
            let marker = 1_000_000 + j as i64;
            shadow[j] = marker;
            call!(cx, "index_mut", t[*idx] = marker);
            cx.rep.inc("index_probes");
            cx.rep.inc("single_position_write_checks");
            let ok = call!(cx, "iter", t.iter().eq(shadow.iter()));
            if !ok {
                let got: Vec<i64> = t.iter().cloned().collect();
                cx.viol("index_mut_effect", Json::obj().set("what", "a write through index_mut did not change exactly the row-major position").set("idx", idx.to_vec()).set("offset", j).set("got", got).set("want", shadow.clone()));
                // resynchronise and go on
                t = call!(cx, "from_vec", Tensor::from_vec(dims, shadow.clone()));
            }
        }
    });

    // ---- bounds ---------------------------------------------------------------------------------------
    guarded(cx, "bounds", |cx| {
        let mut t = call!(cx, "from_vec", Tensor::from_vec(dims, data.clone()));
        let mut sampled = !want_sample;
        // (index, label of the dimensions out of range)
        let mut probes: Vec<([usize; D], String, bool)> = Vec::new();
        for k in 0..D {
            let bad = [dims[k], dims[k] + 1, usize::MAX / 2, usize::MAX];
            // all combinations of valid other coordinates = all valid indices with idx[k] == 0
            let bases: Vec<&[usize; D]> = idxs.iter().filter(|i| i[k] == 0).collect();
            for (bi, base) in bases.iter().enumerate() {
                for b in bad {
                    let mut idx = **base;
                    idx[k] = b;
                    probes.push((idx, format!("dim{}of{}", k, D), true));
                }
                // values whose product with a power-of-two stride wraps around to a valid offset: j + 2^e
                let all_e = bi == 0 || bi + 1 == bases.len() || bi == bases.len() / 2;
                for e in 1..usize::BITS {
                    if !(all_e || e >= usize::BITS - 3) {
                        continue;
                    }
                    for j in [0, 1, dims[k] - 1] {
                        let b = (1usize << e) + j;
                        if b < dims[k] {
                            continue;
                        }
                        let mut idx = **base;
                        idx[k] = b;
                        probes.push((idx, format!("dim{}of{}:2^e+j", k, D), true));
                    }
                }
            }
        }
        // a few indices out of range in two or more dimensions
        if D >= 2 {
            let last: [usize; D] = std::array::from_fn(|k| dims[k] - 1);
            for k1 in 0..D {
                for k2 in k1 + 1..D {
                    for base in [[0usize; D], last] {
                        for (b1, b2) in [(dims[k1], dims[k2]), (usize::MAX, dims[k2]), (dims[k1] + 1, usize::MAX)] {
                            let mut idx = base;
                            idx[k1] = b1;
                            idx[k2] = b2;
                            probes.push((idx, format!("dims{}+{}of{}", k1, k2, D), false));
                        }
                    }
                }
            }
            probes.push((dims, format!("alldimsof{}", D), false));
            probes.push(([usize::MAX; D], format!("alldimsof{}", D), false));
        }
        for (idx, label, single) in probes.iter() {
            let naive = naive_offset(&dims, idx);
            let inside = naive < len;
            let mut got_index: Option<i64> = None;
            let mut got_off: Option<usize> = None;
            let p_index = panics(|| {
                got_index = Some(t[*idx]);
            });
            let p_mut = panics(|| {
                t[*idx] = -1;
            });
            let p_get = panics(|| {
                got_off = Some(t.get_index(*idx));
            });
            for (f, p) in [("index", p_index), ("index_mut", p_mut), ("get_index", p_get)] {
                if p {
                    cx.rep.inc(if *single { "oob_probes" } else { "oob_probes_two_or_more_dims" });
                    if inside && *single {
                        cx.rep.inc("oob_probes_offset_inside_storage");
                    }
                } else {
                    cx.viol_sig(
                        format!("oob_not_rejected:{}:{}", f, label),
                        Json::obj()
                            .set("what", "an out-of-range index was accepted instead of rejected with a panic")
                            .set("fn", f)
                            .set("idx", idx.to_vec().into_iter().map(|x| x.to_string()).collect::<Vec<_>>())
                            .set("dims", dims.to_vec())
                            .set("flattened_offset_without_check", naive.to_string())
                            .set("offset_inside_storage", inside)
                            .set("returned_element", got_index)
                            .set("returned_offset", got_off),
                    );
                }
            }
            if !p_mut {
                t = call!(cx, "from_vec", Tensor::from_vec(dims, data.clone()));
            }
            if !sampled && *single && inside && p_index && p_mut && p_get {
                sampled = true;
                cx.rep.sample(
                    Json::obj()
                        .set("shape", dims.to_vec())
                        .set("oob_probe_idx", idx.to_vec())
                        .set("out_of_range_in", label.as_str())
                        .set("flattened_offset_without_check", naive)
                        .set("aliases_valid_idx", idxs[naive].to_vec())
                        .set("index_panicked", p_index)
                        .set("index_mut_panicked", p_mut)
                        .set("get_index_panicked", p_get),
                );
            }
        }
        cx.say(|| format!("{} out-of-range probes x 3 functions", probes.len()));
        let after: Vec<i64> = call!(cx, "iter", t.iter().cloned().collect());
        if after != data {
            cx.viol("oob_write_effect", Json::obj().set("what", "rejected out-of-range writes changed the tensor").set("got", after).set("want", data.clone()));
        }
    });

    // ---- constructors must reject ---------------------------------------------------------------------
    guarded(cx, "constructor_rejections", |cx| {
        let mut zero_shapes: Vec<[usize; D]> = Vec::new();
        for k in 0..D {
            let mut z = dims;
            z[k] = 0;
            zero_shapes.push(z);
        }
        if D >= 2 {
            zero_shapes.push([0; D]);
            let mut z = dims;
            z[0] = 0;
            z[D - 1] = 0;
            zero_shapes.push(z);
        }
        for z in zero_shapes.iter() {
            let z = *z;
            let mut outcomes: Vec<(&str, bool)> = Vec::new();
            // product is 0: with an empty data vector only the extent check can reject
            outcomes.push(("from_vec", panics(|| drop(Tensor::<i64, D>::from_vec(z, Vec::new())))));
            outcomes.push(("from_vec", panics(|| drop(Tensor::<i64, D>::from_vec(z, data.clone())))));
            outcomes.push(("from_slice", panics(|| drop(Tensor::<i64, D>::from_slice(z, &[])))));
            outcomes.push(("from_slice", panics(|| drop(Tensor::<i64, D>::from_slice(z, &data)))));
            outcomes.push(("new", panics(|| drop(Tensor::<i64, D>::new(z, 5)))));
            let mut r = reader_over(text.as_bytes());
            outcomes.push(("read", panics(|| drop(Tensor::<i64, D>::read(z, &mut r)))));
            for (f, p) in outcomes {
                if p {
                    cx.rep.inc("constructor_rejections");
                    cx.rep.inc("constructor_rejections_zero_extent");
                } else {
                    cx.viol(&format!("ctor_accepts_zero_extent:{}", f), Json::obj().set("fn", f).set("dims", z.to_vec()));
                }
            }
        }
        let mut lens = vec![len - 1, len + 1, 0, 2 * len];
        lens.sort();
        lens.dedup();
        lens.retain(|&l| l != len);
        for l in lens {
            let d: Vec<i64> = (0..l as i64).collect();
            let p1 = panics(|| drop(Tensor::<i64, D>::from_vec(dims, d.clone())));
            let p2 = panics(|| drop(Tensor::<i64, D>::from_slice(dims, &d)));
            for (f, p) in [("from_vec", p1), ("from_slice", p2)] {
                if p {
                    cx.rep.inc("constructor_rejections");
                    cx.rep.inc("constructor_rejections_bad_len");
                } else {
                    cx.viol(&format!("ctor_accepts_bad_len:{}", f), Json::obj().set("fn", f).set("dims", dims.to_vec()).set("data_len", l).set("product", len));
                }
            }
        }
    });

    // ---- write -> text grammar -> read ------------------------------------------------------------------
    guarded(cx, "io_markers", |cx| {
        io_roundtrip::<i64, D>(cx, dims, &data, "i64", want_sample);
    });
    let mut rng = Rng::new(mix(&[cx.seed, hash_of(&(D, dims.to_vec()))]));
    macro_rules! rt {
        ($($t:ty),*) => {$(
            let d: Vec<$t> = int_data::<$t>(len, &mut rng);
            guarded(cx, concat!("io_", stringify!($t)), |cx| io_roundtrip::<$t, D>(cx, dims, &d, stringify!($t), false));
        )*};
    }
    rt!(i8, u8, i16, u16, i32, u32, i64, u64, i128, u128, isize, usize);
    let sdata = string_data(len, &mut rng);
    guarded(cx, "io_String", |cx| io_roundtrip::<String, D>(cx, dims, &sdata, "String", false));

    // ---- equality ---------------------------------------------------------------------------------------
    guarded(cx, "equality", |cx| {
        let a = call!(cx, "from_vec", Tensor::from_vec(dims, data.clone()));
        let b = call!(cx, "from_slice", Tensor::from_slice(dims, &data));
        let (e1, e2) = (call!(cx, "eq", a == b), call!(cx, "eq", b == a));
        let (n1, r1) = (call!(cx, "ne", a != b), call!(cx, "eq", a == a));
        cx.rep.inc("eq_true_checks");
        if !e1 || !e2 || n1 || !r1 {
            cx.viol("eq_same", Json::obj().set("a==b", e1).set("b==a", e2).set("a!=b", n1).set("a==a", r1));
        }
        // elements that are not equal to themselves: a tensor holding a NaN is not equal to itself (nor to its clone)
        {
            let mut fd: Vec<f64> = data.iter().map(|&x| x as f64).collect();
            fd[len / 2] = f64::NAN;
            let t = call!(cx, "from_vec", Tensor::from_vec(dims, fd));
            let (s1, s2) = (call!(cx, "eq", t == t), call!(cx, "eq", t == t.clone()));
            cx.rep.inc("eq_nan_checks");
            if s1 || s2 {
                cx.viol("eq_nan", Json::obj().set("what", "a tensor with a NaN element compares equal (to itself / to its clone) although that element does not").set("t==t", s1).set("t==clone", s2));
            }
        }
        // zero-sized elements: all such tensors share one (dangling) data pointer; shape still decides
        {
            let z = call!(cx, "new", Tensor::<(), D>::new(dims, ()));
            let mut other = dims;
            other.reverse();
            let z2 = call!(cx, "new", Tensor::<(), D>::new(other, ()));
            let mut longer = dims;
            longer[0] += 1;
            let z3 = call!(cx, "new", Tensor::<(), D>::new(longer, ()));
            cx.rep.inc("eq_zero_sized_checks");
            let same = call!(cx, "eq", z == z2);
            let grown = call!(cx, "eq", z == z3);
            if (same && other != dims) || grown {
                cx.viol("eq_ignores_shape", Json::obj().set("what", "tensors of zero-sized elements with different shapes compare equal").set("shape_a", dims.to_vec()).set("shape_b", other.to_vec()).set("a==reversed", same).set("a==longer", grown));
            }
        }
        // iter() / into_iter() driven from both ends
        {
            let mut r = Rng::new(common::mix(&[0x7e52, len as u64, D as u64]));
            if let Err(e) = common::iter_protocol_de(a.iter().cloned(), &data, &mut r, 8) {
                cx.viol("iter_double_ended", Json::obj().set("what", "iter() driven from both ends is not the row-major data").set("script", e));
            }
            if let Err(e) = common::iter_protocol_de(a.clone().into_iter(), &data, &mut r, 8) {
                cx.viol("into_iter_double_ended", Json::obj().set("what", "into_iter() driven from both ends is not the row-major data").set("script", e));
            }
        }
        // any single-element difference
        for j in 0..len {
            let mut d2 = data.clone();
            d2[j] = len as i64 + j as i64;
            let c = call!(cx, "from_vec", Tensor::from_vec(dims, d2));
            let (e1, e2, n) = (call!(cx, "eq", a == c), call!(cx, "eq", c == a), call!(cx, "ne", a != c));
            cx.rep.inc("single_element_difference_checks");
            if e1 || e2 || !n {
                cx.viol("eq_single_difference", Json::obj().set("what", "tensors differing in one element compare equal").set("position", j).set("idx", idxs[j].to_vec()).set("a==c", e1).set("c==a", e2).set("a!=c", n));
                break;
            }
        }
        // equal data under every other shape of the same rank with the same product
        let mut reported = false;
        let mut reported_cf = false;
        let mut others = 0u64;
        let mut other = [1usize; D];
        'shapes: loop {
            if other != dims && other.iter().product::<usize>() == len {
                others += 1;
                let b = call!(cx, "from_vec", Tensor::from_vec(other, data.clone()));
                let (e1, n1) = (call!(cx, "eq", a == b), call!(cx, "ne", a != b));
                cx.rep.inc("eq_pairs_same_data_different_shape");
                // Clone::clone_from into a tensor of another shape with the same number of elements
                let mut d = call!(cx, "from_vec", Tensor::from_vec(other, vec![-7i64; len]));
                call!(cx, "clone_from", d.clone_from(&a));
                cx.rep.inc("clone_from_checks");
                let ok = call!(cx, "eq", d == a) && *call!(cx, "dims", d.dims()) == dims && call!(cx, "iter", d.iter().eq(data.iter()))
                    && !panics(|| {
                        let _ = d[idxs[len - 1]];
                    });
                if !ok && !reported_cf {
                    reported_cf = true;
                    cx.viol(
                        "clone_from",
                        Json::obj()
                            .set("what", "after dst.clone_from(&src) dst is not a copy of src (shape, elements or indexing differ)")
                            .set("shape_src", dims.to_vec())
                            .set("shape_dst_before", other.to_vec())
                            .set("dims_after", d.dims().to_vec()),
                    );
                }
                if (e1 || !n1) && !reported {
                    reported = true;
                    cx.viol(
                        "eq_ignores_shape",
                        Json::obj()
                            .set("what", "tensors with equal data but different shapes compare equal")
                            .set("shape_a", dims.to_vec())
                            .set("shape_b", other.to_vec())
                            .set("data", data.clone())
                            .set("a==b", e1)
                            .set("a!=b", n1),
                    );
                }
            }
            let mut k = D;
            loop {
                if k == 0 {
                    break 'shapes;
                }
                k -= 1;
                other[k] += 1;
                if other[k] <= cx.bound {
                    break;
                }
                other[k] = 1;
            }
        }
        cx.rep.max("max_other_shapes_with_same_product", others as i64);
        cx.say(|| format!("{} other shapes of rank {} with product {} (extents <= {})", others, D, len, cx.bound));
    });

    // ---- clone, iter_mut ----------------------------------------------------------------------------------
    guarded(cx, "clone_iter_mut", |cx| {
        let mut a = call!(cx, "from_vec", Tensor::from_vec(dims, data.clone()));
        let mut c = call!(cx, "clone", a.clone());
        let eq = call!(cx, "eq", c == a);
        let same_dims = *call!(cx, "dims", c.dims()) == dims;
        if !eq || !same_dims || !c.iter().eq(data.iter()) {
            cx.viol("clone", Json::obj().set("what", "a clone is not equal to the original").set("eq", eq).set("same_dims", same_dims));
        }
        for &j in &[0usize, len / 2, len - 1] {
            let idx = idxs[j];
            call!(cx, "index_mut", c[idx] = -100 - j as i64);
            let orig: Vec<i64> = call!(cx, "iter", a.iter().cloned().collect());
            let cl = call!(cx, "index", c[idx]);
            cx.rep.inc("clone_independence_checks");
            if orig != data || cl != -100 - j as i64 {
                cx.viol("clone", Json::obj().set("what", "writing to the clone changed the original (or was lost)").set("idx", idx.to_vec()).set("original", orig).set("clone_elem", cl));
            }
        }
        let snapshot: Vec<i64> = c.iter().cloned().collect();
        call!(cx, "index_mut", a[idxs[len - 1]] = 4242);
        let after: Vec<i64> = call!(cx, "iter", c.iter().cloned().collect());
        if after != snapshot {
            cx.viol("clone", Json::obj().set("what", "writing to the original changed the clone").set("clone_before", snapshot).set("clone_after", after));
        }
        // clone_from from / into a tensor with a different number of elements
        {
            let small = call!(cx, "new", Tensor::<i64, D>::new([1usize; D], 9));
            let mut d = small.clone();
            call!(cx, "clone_from", d.clone_from(&a));
            cx.rep.inc("clone_from_checks");
            if !(call!(cx, "eq", d == a) && *d.dims() == *a.dims() && d.iter().eq(a.iter())) {
                cx.viol("clone_from", Json::obj().set("what", "after dst.clone_from(&src) (dst smaller) dst is not a copy of src").set("dims_after", d.dims().to_vec()));
            }
            let mut e = a.clone();
            call!(cx, "clone_from", e.clone_from(&small));
            cx.rep.inc("clone_from_checks");
            if !(call!(cx, "eq", e == small) && *e.dims() == [1usize; D] && e.iter().count() == 1) {
                cx.viol("clone_from", Json::obj().set("what", "after dst.clone_from(&src) (dst larger) dst is not a copy of src").set("dims_after", e.dims().to_vec()));
            }
        }
        // iter_mut visits the storage in row-major order
        let mut t = call!(cx, "new", Tensor::<i64, D>::new(dims, 0));
        let mut n = 0usize;
        for (j, x) in call!(cx, "iter_mut", t.iter_mut()).enumerate() {
            *x = 5000 + j as i64;
            n += 1;
        }
        if n != len {
            cx.viol("iter_mut", Json::obj().set("what", "iter_mut() does not yield product(dims) elements").set("got", n).set("want", len));
        }
        for idx in idxs.iter() {
            let want = 5000 + horner(&dims, idx) as i64;
            let got = call!(cx, "index", t[*idx]);
            cx.rep.inc("index_probes");
            if got != want {
                cx.viol("iter_mut", Json::obj().set("what", "a write through iter_mut is not visible at the row-major index").set("idx", idx.to_vec()).set("got", got).set("want", want));
                break;
            }
        }
    });

    // ---- Debug ----------------------------------------------------------------------------------------------
    guarded(cx, "debug", |cx| {
        let t = call!(cx, "from_vec", Tensor::from_vec(dims, data.clone()));
        let want = nested_debug(&dims, &data);
        let got = call!(cx, "fmt::Debug", format!("{:?}", t));
        cx.rep.inc("debug_renderings");
        cx.say(|| format!("debug {}", got));
        // the Debug rendering is not part of the property (only write/read and indexing are): counted, never a verdict
        if got != want {
            cx.rep.inc("debug_renderings_differing_from_nested_list_form");
        }
        let ts = call!(cx, "from_vec", Tensor::<String, D>::from_vec(dims, sdata.clone()));
        let want = nested_debug(&dims, &sdata);
        let got = call!(cx, "fmt::Debug", format!("{:?}", ts));
        cx.rep.inc("debug_renderings");
        if got != want {
            cx.rep.inc("debug_renderings_differing_from_nested_list_form");
        }
    });
}

fn run_case(dims: &[usize], seed: u64, bound: usize, rep: &mut Report, verbose: bool) {
    let bound = bound.max(dims.iter().cloned().max().unwrap_or(1));
    let mut cx = Cx { rep, verbose, seed, case: shape_str(dims), rank: dims.len(), bound, stage: Cell::new("-") };
    if verbose {
        eprintln!("case {}", cx.case);
    }
    match dims.len() {
        1 => run_shape::<1>([dims[0]], &mut cx),
        2 => run_shape::<2>([dims[0], dims[1]], &mut cx),
        3 => run_shape::<3>([dims[0], dims[1], dims[2]], &mut cx),
        4 => run_shape::<4>([dims[0], dims[1], dims[2], dims[3]], &mut cx),
        r => cx.rep.inconclusive(format!("unsupported rank {}", r)),
    }
}

fn enumerate_shapes(rank: usize, max_extent: usize) -> Vec<Vec<usize>> {
    let mut out = Vec::new();
    let mut cur = vec![1usize; rank];
    'outer: loop {
        out.push(cur.clone());
        let mut k = rank;
        loop {
            if k == 0 {
                break 'outer;
            }
            k -= 1;
            cur[k] += 1;
            if cur[k] <= max_extent {
                break;
            }
            cur[k] = 1;
        }
    }
    out
}

/// extent bound per rank
fn bound_for(rank: usize, thorough: bool) -> usize {
    if !thorough {
        5
    } else if rank <= 3 {
        7
    } else {
        6
    }
}

fn main() {
    let eng = Engine::start("tensormon");
    let a = &eng.args;
    let thorough = a.thorough();
    let seed = a.seed();
    let mut report = Report::new();
    self_check(&mut report);
    report.extra("exhaustive", true);
    report.extra(
        "rule",
        "a shape is non-trivial when at least two extents are > 1 (rank 1: extent > 1), i.e. the flattening actually mixes dimensions",
    );
    report.extra("eq_pairs", "ordered pairs (a, b) of distinct shapes with equal rank and product, built from the same data vector; a == b must be false");
    report.extra("oob_values", "extent, extent+1, usize::MAX/2, usize::MAX in one dimension x every combination of valid other coordinates, for index, index_mut, get_index");

    if let Some(case) = a.opt("case") {
        let dims: Vec<usize> = case.split('x').map(|s| s.trim().parse().expect("case = <d0>x<d1>x...")).collect();
        assert!(!dims.is_empty() && dims.len() <= 4 && dims.iter().all(|&d| d >= 1 && d <= 12), "case: rank 1..4, extents 1..12");
        let bound = bound_for(dims.len(), thorough);
        let rep = common::run_big_stack(|| {
            let mut rep = Report::new();
            rep.sample_cap = 0;
            run_case(&dims, seed, bound, &mut rep, true);
            rep
        });
        report.merge(rep);
        eng.finish(report);
    }

    let mut shapes: Vec<Vec<usize>> = Vec::new();
    let mut scopes = Vec::new();
    for rank in 1..=4usize {
        let b = bound_for(rank, thorough);
        let s = enumerate_shapes(rank, b);
        scopes.push(Json::obj().set("rank", rank).set("max_extent", b).set("shapes", s.len()));
        shapes.extend(s);
    }
    if !thorough && shapes.len() != 780 {
        report.inconclusive(format!("harness self-check failed: {} shapes instead of 780", shapes.len()));
    }
    report.extra("scopes", Json::Arr(scopes));
    report.extra("shapes", shapes.len());
    // The order of the cases has no influence on any verdict, only on which witness is kept per
    // signature (first one wins). The small shapes (product <= 6, those with product 6 first) run
    // sequentially up front so that the kept witnesses are small and the same in every run; the rest is
    // sharded, big shapes first (load balance).
    let prod = |s: &Vec<usize>| s.iter().product::<usize>();
    let (mut small, mut shapes): (Vec<Vec<usize>>, Vec<Vec<usize>>) = shapes.into_iter().partition(|s| prod(s) <= 6);
    small.sort_by_key(|s| (prod(s) != 6, prod(s), s.len(), s.clone()));
    let first = common::run_big_stack(|| {
        let mut rep = Report::new();
        rep.sample_cap = 8;
        for dims in small.iter() {
            run_case(dims, seed, bound_for(dims.len(), thorough), &mut rep, false);
        }
        rep
    });
    report.sample_cap = 8;
    report.merge(first);
    shapes.sort_by_key(|s| std::cmp::Reverse(prod(s)));
    let q = WorkQueue::new(shapes.len() as u64);
    let shapes = &shapes;
    let rep = common::run_sharded(a.threads(), |_shard, rep| {
        rep.sample_cap = 8;
        while let Some(i) = q.take() {
            let dims = &shapes[i as usize];
            run_case(dims, seed, bound_for(dims.len(), thorough), rep, false);
        }
    });
    report.merge(rep);
    {
        let mut rep = Report::new();
        stream_boundary_checks(&mut rep);
        long_stream_checks(seed, &mut rep);
        report.merge(rep);
    }
    // deterministic sample order
    report.samples.sort_by_key(|s| s.dump());
    eng.finish(report);
}
