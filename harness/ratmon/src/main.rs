//! ratmon - runtime monitor for `Rational<T>` (C07: arithmetic exact and canonical; order, equality and
//! hashing follow the value; floor/ceil for both signs).
//!
//! Every case is one pair of fractions given RAW as (a, b), (c, d): non-zero denominators of either
//! sign, not necessarily in lowest terms. The operands are built with `Rational::new`, then every
//! operator form is evaluated on the real library and compared FIELD BY FIELD with an exact oracle over
//! i128 that is normalised by the engine's own gcd and uses formulas different from the library's
//! (lcm form for +/-, cross-cancellation for x and /).
//!
//!   ratmon [--tier quick|thorough] [--seed N] [--threads K] [--out f]
//!   ratmon --case "<i32|i64|i128>:<a>,<b>,<c>,<d>"          (replay one pair verbosely)

use common::{catch, hash_of, lib, mix, Engine, Json, Report, Rng, WorkQueue};
use rlib_num_traits::ZeroOne;
use rlib_rational::{Rational, SignedInteger};
use std::cmp::Ordering;
use std::collections::HashMap;
use std::hash::Hash;

// ------------------------------------------------------------------------------------------------
// the integer types under test

trait Int: SignedInteger + Copy + Hash + Send + Sync + 'static {
    const NAME: &'static str;
    const ID: u64;
    /// magnitudes of raw numerators / denominators stay <= 2^BOUND_LOG2
    const BOUND_LOG2: u32;
    const BITS: u32;
    fn from_i128(v: i128) -> Self;
    fn to_i128(self) -> i128;
}
impl Int for i32 {
    const NAME: &'static str = "i32";
    const ID: u64 = 32;
    const BOUND_LOG2: u32 = 14;
    const BITS: u32 = 32;
    fn from_i128(v: i128) -> Self {
        i32::try_from(v).expect("harness: value does not fit i32")
    }
    fn to_i128(self) -> i128 {
        self as i128
    }
}
impl Int for i64 {
    const NAME: &'static str = "i64";
    const ID: u64 = 64;
    const BOUND_LOG2: u32 = 30;
    const BITS: u32 = 64;
    fn from_i128(v: i128) -> Self {
        i64::try_from(v).expect("harness: value does not fit i64")
    }
    fn to_i128(self) -> i128 {
        self as i128
    }
}
impl Int for i128 {
    const NAME: &'static str = "i128";
    const ID: u64 = 128;
    const BOUND_LOG2: u32 = 60;
    const BITS: u32 = 128;
    fn from_i128(v: i128) -> Self {
        v
    }
    fn to_i128(self) -> i128 {
        self
    }
}

// ------------------------------------------------------------------------------------------------
// oracle: exact fractions over i128, own gcd, checked arithmetic (None = the ORACLE would overflow,
// which is a harness problem, never a verdict)

fn ogcd(a: i128, b: i128) -> i128 {
    let mut x = a.unsigned_abs();
    let mut y = b.unsigned_abs();
    if x == 0 {
        return y as i128;
    }
    if y == 0 {
        return x as i128;
    }
    // binary gcd (deliberately not the Euclid loop of rlib_gcd)
    let shift = (x | y).trailing_zeros();
    x >>= x.trailing_zeros();
    loop {
        y >>= y.trailing_zeros();
        if x > y {
            std::mem::swap(&mut x, &mut y);
        }
        y -= x;
        if y == 0 {
            break;
        }
    }
    (x << shift) as i128
}

#[derive(Clone, Copy, PartialEq, Eq, Debug)]
struct Q {
    n: i128,
    d: i128,
}

fn qnorm(n: i128, d: i128) -> Option<Q> {
    if d == 0 {
        return None;
    }
    let g = ogcd(n, d);
    let (mut n, mut d) = (n / g, d / g);
    if d < 0 {
        n = n.checked_neg()?;
        d = d.checked_neg()?;
    }
    Some(Q { n, d })
}
fn qneg(x: Q) -> Option<Q> {
    Some(Q { n: x.n.checked_neg()?, d: x.d })
}
/// x + y through the least common denominator
fn qadd(x: Q, y: Q) -> Option<Q> {
    let g = ogcd(x.d, y.d);
    let l = x.n.checked_mul(y.d / g)?;
    let r = y.n.checked_mul(x.d / g)?;
    qnorm(l.checked_add(r)?, (x.d / g).checked_mul(y.d)?)
}
fn qsub(x: Q, y: Q) -> Option<Q> {
    qadd(x, qneg(y)?)
}
/// x * y with cross-cancellation before multiplying
fn qmul(x: Q, y: Q) -> Option<Q> {
    let g1 = ogcd(x.n, y.d);
    let g2 = ogcd(y.n, x.d);
    qnorm((x.n / g1).checked_mul(y.n / g2)?, (x.d / g2).checked_mul(y.d / g1)?)
}
fn qdiv(x: Q, y: Q) -> Option<Q> {
    if y.n == 0 {
        return None;
    }
    let inv = if y.n < 0 { Q { n: y.d.checked_neg()?, d: y.n.checked_neg()? } } else { Q { n: y.d, d: y.n } };
    qmul(x, inv)
}
fn qcmp(x: Q, y: Q) -> Option<Ordering> {
    // denominators are positive
    Some(x.n.checked_mul(y.d)?.cmp(&y.n.checked_mul(x.d)?))
}
fn qfloor(x: Q) -> i128 {
    x.n.div_euclid(x.d)
}
fn qceil(x: Q) -> i128 {
    -((-x.n).div_euclid(x.d))
}
fn bits(v: i128) -> i64 {
    (128 - v.unsigned_abs().leading_zeros()) as i64
}

fn oracle_self_check(rep: &mut Report) {
    let q = |n, d| qnorm(n, d).unwrap();
    let mut ok = true;
    ok &= q(2, -4) == Q { n: -1, d: 2 } && q(0, -7) == Q { n: 0, d: 1 } && q(-6, -3) == Q { n: 2, d: 1 };
    ok &= qadd(q(1, 2), q(1, 3)) == Some(Q { n: 5, d: 6 }) && qsub(q(1, 2), q(1, 2)) == Some(Q { n: 0, d: 1 });
    ok &= qadd(q(1, 6), q(1, 3)) == Some(Q { n: 1, d: 2 });
    ok &= qmul(q(2, 3), q(3, 4)) == Some(Q { n: 1, d: 2 }) && qdiv(q(2, 3), q(-4, 9)) == Some(Q { n: -3, d: 2 });
    ok &= qcmp(q(-1, 2), q(-1, 3)) == Some(Ordering::Less) && qcmp(q(2, 4), q(1, 2)) == Some(Ordering::Equal);
    ok &= qfloor(q(-1, 2)) == -1 && qceil(q(-1, 2)) == 0 && qfloor(q(7, 2)) == 3 && qceil(q(7, 2)) == 4;
    ok &= qfloor(q(-4, 2)) == -2 && qceil(q(-4, 2)) == -2 && qfloor(q(0, 5)) == 0 && qceil(q(-7, 2)) == -3;
    ok &= ogcd(0, 0) == 0 && ogcd(0, -5) == 5 && ogcd(12, -18) == 6 && ogcd(1 << 60, 1 << 40) == 1 << 40;
    // the oracle must not overflow at the extreme magnitudes of the widest instantiation
    let b = 1i128 << 60;
    ok &= qadd(q(b, b - 1), q(b - 1, b)).is_some() && qcmp(q(b, b - 1), q(-b, b - 1)).is_some();
    ok &= qmul(q(b, b - 1), q(b - 1, b)) == Some(Q { n: 1, d: 1 }) && qdiv(q(b - 1, b), q(-b, b - 1)).is_some();
    if !ok {
        rep.inconclusive("harness self-check failed: the i128 fraction oracle is wrong");
    }
}

// ------------------------------------------------------------------------------------------------
// primes for the boundary pool (deterministic Miller-Rabin on u64)

fn mulmod(a: u64, b: u64, m: u64) -> u64 {
    ((a as u128 * b as u128) % m as u128) as u64
}
fn powmod(mut a: u64, mut e: u64, m: u64) -> u64 {
    let mut r = 1u64;
    a %= m;
    while e > 0 {
        if e & 1 == 1 {
            r = mulmod(r, a, m);
        }
        a = mulmod(a, a, m);
        e >>= 1;
    }
    r
}
fn is_prime(n: u64) -> bool {
    if n < 2 {
        return false;
    }
    const BASES: [u64; 12] = [2, 3, 5, 7, 11, 13, 17, 19, 23, 29, 31, 37];
    for p in BASES {
        if n % p == 0 {
            return n == p;
        }
    }
    let s = (n - 1).trailing_zeros();
    let d = (n - 1) >> s;
    'outer: for a in BASES {
        let mut x = powmod(a, d, n);
        if x == 1 || x == n - 1 {
            continue;
        }
        for _ in 1..s {
            x = mulmod(x, x, n);
            if x == n - 1 {
                continue 'outer;
            }
        }
        return false;
    }
    true
}
fn primes_below(limit: u64, count: usize) -> Vec<i128> {
    let mut v = Vec::new();
    let mut n = limit;
    while v.len() < count && n >= 2 {
        if is_prime(n) {
            v.push(n as i128);
        }
        n -= 1;
    }
    v
}

// ------------------------------------------------------------------------------------------------
// workload: boundary-biased raw quadruples with |a|,|b|,|c|,|d| <= B = 2^k, b,d != 0

struct Pool {
    k: u32,
    b: i128,
    /// sqrt-ish bound: products of two "half" values stay <= B
    hb: i128,
    /// non-negative magnitudes <= B
    specials: Vec<i128>,
    /// positive magnitudes <= hb
    half_specials: Vec<i128>,
}

const SMALL_PRIMES: [i128; 25] = [2, 3, 5, 7, 11, 13, 17, 19, 23, 29, 31, 37, 41, 43, 47, 53, 59, 61, 67, 71, 73, 79, 83, 89, 97];

impl Pool {
    fn new(k: u32) -> Pool {
        let b = 1i128 << k;
        let hk = k / 2;
        let hb = 1i128 << hk;
        let mut specials = vec![0, 1, 2, 3, 4, 6, 10, 12, b, b - 1, b - 2, b - 3, b / 2, b / 2 + 1, b / 2 - 1, b / 3, hb, hb + 1, hb - 1];
        for j in 0..=k {
            specials.push(1i128 << j);
        }
        specials.extend(SMALL_PRIMES.iter().filter(|&&p| p <= b));
        specials.extend(primes_below(b as u64, 8));
        specials.extend(primes_below(hb as u64, 4));
        // products of two primes just below sqrt(B) and highly composite values
        let hp = primes_below(hb as u64, 3);
        specials.push(hp[0] * hp[1]);
        specials.push(hp[0] * hp[0]);
        specials.push(hp[1] * hp[2]);
        let mut hc = 1i128;
        for p in SMALL_PRIMES {
            if hc * p > b {
                break;
            }
            hc *= p;
        }
        specials.push(hc);
        specials.retain(|&v| v >= 0 && v <= b);
        let mut half_specials = vec![1, 2, 3, 4, 5, 6, 7, 8, 9, 10, 12, hb, hb - 1, hb / 2];
        for j in 0..=hk {
            half_specials.push(1i128 << j);
        }
        half_specials.extend(SMALL_PRIMES.iter().filter(|&&p| p <= hb));
        half_specials.extend(hp.iter());
        half_specials.retain(|&v| v >= 1 && v <= hb);
        Pool { k, b, hb, specials, half_specials }
    }
    fn sign(rng: &mut Rng, v: i128) -> i128 {
        if rng.chance(1, 2) {
            -v
        } else {
            v
        }
    }
    fn uniform(rng: &mut Rng, hi: i128) -> i128 {
        // 0..=hi, hi <= 2^60
        rng.below(hi as u64 + 1) as i128
    }
    /// signed value with |v| <= B
    fn val(&self, rng: &mut Rng) -> i128 {
        let m = match rng.weighted(&[34, 22, 14, 12, 10, 8]) {
            0 => *rng.pick(&self.specials),
            1 => Self::uniform(rng, self.b),
            2 => Self::uniform(rng, 20),
            3 => Self::uniform(rng, self.hb),
            4 => {
                // 2^j + {-1, 0, 1}
                let j = rng.below(self.k as u64 + 1) as u32;
                ((1i128 << j) + rng.below(3) as i128 - 1).clamp(0, self.b)
            }
            _ => self.b - Self::uniform(rng, 40).min(self.b),
        };
        Self::sign(rng, m)
    }
    fn nonzero(&self, rng: &mut Rng) -> i128 {
        let v = self.val(rng);
        if v != 0 {
            v
        } else {
            let m = *rng.pick(&[1, 1, 2, self.b, self.b - 1]);
            Self::sign(rng, m)
        }
    }
    /// positive magnitude <= sqrt-ish bound
    fn half(&self, rng: &mut Rng) -> i128 {
        match rng.weighted(&[5, 3, 2]) {
            0 => *rng.pick(&self.half_specials),
            1 => 1 + Self::uniform(rng, self.hb - 1),
            _ => 1 + Self::uniform(rng, 11),
        }
    }
    /// multiplier k != 0 (either sign) together with a fraction (n, d) such that |k n|, |k d| <= B
    fn scaled(&self, rng: &mut Rng) -> (i128, i128, i128) {
        let km = match rng.below(4) {
            0 => *rng.pick(&[1i128, 2, 3, 5, 7]),
            1 => 1i128 << rng.below(self.k as u64 / 2 + 1),
            2 => self.half(rng),
            _ => 1 + Self::uniform(rng, 30),
        };
        let lim = self.b / km;
        let pickm = |rng: &mut Rng| -> i128 {
            match rng.below(4) {
                0 => lim - Self::uniform(rng, 2).min(lim),
                1 => Self::uniform(rng, lim),
                2 => Self::uniform(rng, lim.min(30)),
                _ => (*rng.pick(&self.specials)).min(lim),
            }
        };
        let (nm, dm) = (pickm(rng), pickm(rng));
        let n = Self::sign(rng, nm);
        let mut d = Self::sign(rng, dm);
        if d == 0 {
            d = Self::sign(rng, 1);
        }
        (Self::sign(rng, km), n, d)
    }

    fn gen_pair(&self, rng: &mut Rng) -> ([i128; 4], &'static str) {
        if self.k >= 40 && rng.chance(1, 16) {
            // two numerators over one denominator that agree in their low 16 / 32 bits; the first is coprime to the
            // denominator, the second is not (whatever is remembered about the first pair - under a key that keeps only part
            // of the operands - must not be applied to the second)
            let d = 2 + Self::uniform(rng, 5000);
            let shift = *rng.pick(&[16u32, 32, 32, 32]);
            let mut n1 = 1 + Self::uniform(rng, 1 << 20);
            while ogcd(n1, d) != 1 {
                n1 += 1;
            }
            let p = (2..=d).find(|q| d % q == 0).unwrap_or(d);
            let t = (1..=p).find(|t| (n1 + t * (1i128 << shift)) % p == 0);
            if let Some(t) = t {
                let n2 = n1 + t * (1i128 << shift);
                if n2 <= self.b {
                    let s = Self::sign(rng, 1);
                    return ([n1, d, s * n2, s * d], "low_bits_twins");
                }
            }
        }
        if rng.chance(1, 14) {
            // result-directed: both denominators powers of two, odd numerators whose sum or difference is a power of two
            // again (or zero, or a small odd multiple of one) - the unreduced numerator and denominator of x + y / x - y
            // are then large powers of two and everything cancels in the normalisation
            let e1 = rng.below(self.k as u64 + 1) as u32;
            let e2 = if rng.chance(3, 4) { e1 } else { rng.below(e1 as u64 + 1) as u32 };
            // a / 2^e1 + c / 2^e2 = target / 2^e1 with target = 2^t, 3 * 2^t or 0 (e2 <= e1)
            let t = rng.below(self.k as u64 + 1) as u32;
            let target = (1i128 << t) * *rng.pick(&[1i128, 1, 1, 3, 0]);
            let mut a = 1 + 2 * Self::uniform(rng, (self.b - 1) / 2);
            if rng.chance(1, 2) {
                a = -a;
            }
            let rest = target - a;
            if rest % (1i128 << (e1 - e2)) == 0 {
                let c = rest >> (e1 - e2);
                let s = Self::sign(rng, 1);
                // x + y hits the target with (a, c); x - y with (a, -c)
                let q = if rng.chance(1, 2) { [a, 1i128 << e1, c, 1i128 << e2] } else { [a, 1i128 << e1, -c * s, (1i128 << e2) * s] };
                if q.iter().all(|v| v.abs() <= self.b) && c != 0 {
                    return (q, "dyadic_power_of_two_result");
                }
            }
        }
        let (mut q, shape): ([i128; 4], &'static str) = match rng.weighted(&[22, 22, 12, 8, 8, 10, 8, 10]) {
            0 => ([self.val(rng), self.nonzero(rng), self.val(rng), self.nonzero(rng)], "independent"),
            1 => {
                // products sharing factors ACROSS the two fractions
                let p = self.half(rng);
                let s = self.half(rng);
                let (f1, f2, f3, f4) = (self.half(rng), self.half(rng), self.half(rng), self.half(rng));
                let sg = |rng: &mut Rng, v: i128| Self::sign(rng, v);
                match rng.below(6) {
                    0 => ([sg(rng, p * f1), self.nonzero(rng), self.val(rng), sg(rng, p * f2)], "shared_a_d"),
                    1 => ([self.val(rng), sg(rng, s * f1), sg(rng, s * f2), self.nonzero(rng)], "shared_b_c"),
                    2 => ([sg(rng, p * f1), sg(rng, s * f3), sg(rng, s * f4), sg(rng, p * f2)], "shared_a_d_and_b_c"),
                    3 => ([self.val(rng), sg(rng, p * f1), self.val(rng), sg(rng, p * f2)], "shared_b_d"),
                    4 => ([sg(rng, p * f1), self.nonzero(rng), sg(rng, p * f2), self.nonzero(rng)], "shared_a_c"),
                    _ => ([sg(rng, p * f1), sg(rng, p * f2), sg(rng, p * f3), sg(rng, p * f4)], "shared_all"),
                }
            }
            2 => {
                // the same value in two representations
                let (k1, n, d) = self.scaled(rng);
                let k2m = if rng.chance(1, 2) { 1 } else { 1 + Self::uniform(rng, (self.b / n.abs().max(d.abs())).min(9) - 1) };
                let k2 = Self::sign(rng, k2m);
                ([k2 * n, k2 * d, k1 * n, k1 * d], "equal_values")
            }
            3 => {
                let (a, b) = (self.val(rng), self.nonzero(rng));
                if rng.chance(1, 2) {
                    ([a, b, -a, b], "negatives")
                } else {
                    ([a, b, a, -b], "negatives")
                }
            }
            4 => {
                let (a, b) = (self.nonzero(rng), self.nonzero(rng));
                let s = Self::sign(rng, 1);
                ([a, b, s * b, a], "reciprocals")
            }
            5 => {
                // neighbours: the order must separate values that differ by one unit in one field
                let (a, b) = (self.val(rng), self.nonzero(rng));
                let step = Self::sign(rng, 1);
                let (mut c, mut d) = (a, b);
                if rng.chance(1, 2) {
                    c = if (a + step).abs() <= self.b { a + step } else { a - step };
                } else {
                    d = if (b + step).abs() <= self.b && b + step != 0 { b + step } else { b - step };
                    if d == 0 {
                        d = b;
                    }
                }
                let s = Self::sign(rng, 1);
                ([a, b, s * c, s * d], "neighbours")
            }
            6 => {
                let one = |rng: &mut Rng| Self::sign(rng, 1);
                match rng.below(3) {
                    0 => ([self.val(rng), one(rng), self.val(rng), one(rng)], "integers"),
                    1 => ([self.val(rng), one(rng), self.val(rng), self.nonzero(rng)], "integers"),
                    _ => ([self.val(rng), self.nonzero(rng), self.val(rng), one(rng)], "integers"),
                }
            }
            _ => {
                let b = self.nonzero(rng);
                ([self.val(rng), b, self.val(rng), Self::sign(rng, b)], "same_denominator")
            }
        };
        if rng.chance(1, 8) {
            q.swap(0, 2);
            q.swap(1, 3);
        }
        for i in [1, 3] {
            if q[i] == 0 {
                q[i] = 1;
            }
        }
        for v in q.iter_mut() {
            *v = (*v).clamp(-self.b, self.b);
        }
        (q, shape)
    }
}

/// exhaustive box: a, c in -m..=m; b, d in -m..=m without 0
fn box_total(m: i128) -> u64 {
    let (w, z) = ((2 * m + 1) as u64, (2 * m) as u64);
    w * z * w * z
}
fn box_decode(m: i128, mut idx: u64) -> [i128; 4] {
    let (w, z) = ((2 * m + 1) as u64, (2 * m) as u64);
    let den = |i: u64| -> i128 {
        let v = i as i128 - m;
        if v >= 0 {
            v + 1
        } else {
            v
        }
    };
    let d = den(idx % z);
    idx /= z;
    let c = (idx % w) as i128 - m;
    idx /= w;
    let b = den(idx % z);
    idx /= z;
    let a = (idx % w) as i128 - m;
    [a, b, c, d]
}

// ------------------------------------------------------------------------------------------------
// checking context

#[derive(Default)]
struct Tally {
    c: HashMap<&'static str, u64>,
}
impl Tally {
    fn bump(&mut self, k: &'static str) {
        *self.c.entry(k).or_insert(0) += 1;
    }
    fn flush(&mut self, rep: &mut Report) {
        for (k, v) in self.c.drain() {
            rep.count(k, v);
        }
    }
}

struct Cx<'a> {
    rep: &'a mut Report,
    tally: &'a mut Tally,
    ty: &'static str,
    raw: [i128; 4],
    verbose: bool,
}

impl Cx<'_> {
    fn replay(&self) -> Vec<String> {
        let [a, b, c, d] = self.raw;
        vec!["--case".into(), format!("{}:{},{},{},{}", self.ty, a, b, c, d)]
    }
    fn base_detail(&self, op: &str) -> Json {
        let [a, b, c, d] = self.raw;
        Json::obj()
            .set("type", self.ty)
            .set("check", op)
            .set("x_raw", format!("{}/{}", a, b))
            .set("y_raw", format!("{}/{}", c, d))
            .set("raw_quadruple", vec![a, b, c, d])
    }
    fn viol(&mut self, op: &str, detail: Json) {
        if self.verbose {
            eprintln!("  VIOLATION {}:{} {}", op, self.ty, detail.dump());
        }
        let r = self.replay();
        self.rep.violation(format!("{}:{}", op, self.ty), detail, r);
    }
    /// one call into the library; a panic inside it is a violation "panic:<op>:<type>"
    fn call<R>(&mut self, op: &'static str, f: impl FnOnce() -> R) -> Option<R> {
        self.tally.bump(op);
        self.tally.bump("operator_evaluations");
        match catch(|| lib!(f())) {
            Ok(r) => Some(r),
            Err(p) => {
                if p.in_lib {
                    let d = self
                        .base_detail(op)
                        .set("what", "the library panicked on operands inside the stated magnitudes")
                        .set("panic", p.msg.as_str())
                        .set("at", format!("{}:{}", p.file, p.line));
                    self.viol(&format!("panic:{}", op), d);
                } else {
                    self.rep.inconclusive(format!("harness panic at {}:{}: {}", p.file, p.line, p.msg));
                }
                None
            }
        }
    }
    /// result fields must equal the oracle's canonical fraction field by field
    fn expect_q<T: Int>(&mut self, op: &'static str, note: &str, got: Option<Rational<T>>, want: Q) -> bool {
        let Some(g) = got else { return false };
        let (ga, gb) = (g.a.to_i128(), g.b.to_i128());
        if self.verbose {
            eprintln!("  {:<18} {:<14} got {}/{}  want {}/{}", op, note, ga, gb, want.n, want.d);
        }
        if ga != want.n || gb != want.d {
            let d = self
                .base_detail(op)
                .set("what", "result differs field by field from the exact value in lowest terms with positive denominator")
                .set("operand", note)
                .set("got", vec![ga, gb])
                .set("want", vec![want.n, want.d]);
            self.viol(op, d);
            return false;
        }
        true
    }
    fn expect_eq<V: PartialEq + std::fmt::Debug>(&mut self, op: &'static str, note: &str, got: Option<V>, want: V) -> bool {
        let Some(g) = got else { return false };
        if self.verbose {
            eprintln!("  {:<18} {:<14} got {:?}  want {:?}", op, note, g, want);
        }
        if g != want {
            let d = self.base_detail(op).set("operand", note).set("got", format!("{:?}", g)).set("want", format!("{:?}", want));
            self.viol(op, d);
            return false;
        }
        true
    }
}

macro_rules! binop {
    ($cx:ident, $x:ident, $y:ident, $want:expr, $op:tt, $opa:tt, $r:literal, $c:literal, $ar:literal, $ac:literal) => {{
        let want: Q = $want;
        let g = $cx.call($r, || $x $op &$y);
        $cx.expect_q($r, "x,y", g, want);
        let g = $cx.call($c, || $x $op $y);
        $cx.expect_q($c, "x,y", g, want);
        let g = $cx.call($ar, || {
            let mut z = $x;
            z $opa &$y;
            z
        });
        $cx.expect_q($ar, "x,y", g, want);
        let g = $cx.call($ac, || {
            let mut z = $x;
            z $opa $y;
            z
        });
        $cx.expect_q($ac, "x,y", g, want);
    }};
}

fn ord_name(o: Ordering) -> &'static str {
    match o {
        Ordering::Less => "cmp_less",
        Ordering::Equal => "cmp_equal",
        Ordering::Greater => "cmp_greater",
    }
}

/// All checks for one raw pair. Returns false when the pair could not be judged (harness side).
fn check_pair<T: Int>(raw: [i128; 4], shape: &'static str, rep: &mut Report, tally: &mut Tally, verbose: bool) {
    let [a, b, c, d] = raw;
    rep.inc("evaluations");
    tally.bump(match T::ID {
        32 => "pairs_i32",
        64 => "pairs_i64",
        _ => "pairs_i128",
    });
    // ---- oracle first, outside the library
    let oracle = (|| {
        let x = qnorm(a, b)?;
        let y = qnorm(c, d)?;
        let quot = if y.n != 0 { Some(qdiv(x, y)?) } else { None };
        Some((x, y, qadd(x, y)?, qsub(x, y)?, qmul(x, y)?, quot, qcmp(x, y)?, qneg(x)?, qneg(y)?))
    })();
    let Some((x, y, sum, diff, prod, quot, ord, negx, negy)) = oracle else {
        rep.inconclusive(format!("oracle overflow or zero denominator on {}:{:?}", T::NAME, raw));
        return;
    };
    // every oracle value must be canonical and representable in T (else the workload left the property's bounds)
    let limit_bits = (T::BITS - 1) as i64;
    for q in [Some(x), Some(y), Some(sum), Some(diff), Some(prod), quot].into_iter().flatten() {
        if q.d <= 0 || ogcd(q.n, q.d) != 1 || bits(q.n) >= limit_bits || bits(q.d) >= limit_bits {
            rep.inconclusive(format!("oracle value {:?} not canonical / not representable on {}:{:?}", q, T::NAME, raw));
            return;
        }
        rep.max(
            match T::ID {
                32 => "max_result_bits_i32",
                64 => "max_result_bits_i64",
                _ => "max_result_bits_i128",
            },
            bits(q.n).max(bits(q.d)),
        );
    }
    // ---- classification (evidence only)
    let g_raw_x = ogcd(a, b);
    let g_raw_y = ogcd(c, d);
    // gcd of the unreduced results the cross-product formulas produce from the canonical operands
    // (evidence only; wrapping so that an out-of-bounds replay cannot panic here)
    let wm = |p: i128, q: i128| p.wrapping_mul(q);
    let g_add = ogcd(wm(x.n, y.d).wrapping_add(wm(x.d, y.n)), wm(x.d, y.d));
    let g_sub = ogcd(wm(x.n, y.d).wrapping_sub(wm(x.d, y.n)), wm(x.d, y.d));
    let g_mul = ogcd(wm(x.n, y.n), wm(x.d, y.d));
    let g_div = if y.n != 0 { ogcd(wm(x.n, y.d), wm(x.d, y.n)) } else { 1 };
    let negden = b < 0 || d < 0 || (y.n < 0); // a negative divisor numerator becomes a negative denominator
    let reduced = g_raw_x > 1 || g_raw_y > 1 || g_add > 1 || g_sub > 1 || g_mul > 1 || g_div > 1;
    if b < 0 || d < 0 {
        tally.bump("negative_denominators");
    }
    if b < 0 && d < 0 {
        tally.bump("both_denominators_negative");
    }
    if g_raw_x > 1 || g_raw_y > 1 {
        tally.bump("raw_not_in_lowest_terms");
    }
    if g_add > 1 || g_sub > 1 || g_mul > 1 || g_div > 1 {
        tally.bump("result_reduced_by_gcd");
    }
    let shared = (x.n != 0 && ogcd(x.n, y.d) > 1) || (y.n != 0 && ogcd(y.n, x.d) > 1) || ogcd(x.d, y.d) > 1 || (x.n != 0 && y.n != 0 && ogcd(x.n, y.n) > 1);
    if shared {
        tally.bump("shared_factor_pairs");
    }
    if reduced || negden {
        rep.see("nontrivial", mix(&[T::ID, hash_of(&raw)]));
    }
    rep.see_str("shapes", shape);
    tally.bump(ord_name(ord));
    if verbose {
        eprintln!("case {}:{},{},{},{}  shape={}", T::NAME, a, b, c, d, shape);
        eprintln!("  oracle: x={}/{} y={}/{} x+y={}/{} x-y={}/{} x*y={}/{} x/y={} cmp={:?}", x.n, x.d, y.n, y.d, sum.n, sum.d, diff.n, diff.d, prod.n, prod.d, quot.map(|q| format!("{}/{}", q.n, q.d)).unwrap_or("undefined".into()), ord);
        eprintln!("  unreduced gcds: raw_x={} raw_y={} add={} sub={} mul={} div={}", g_raw_x, g_raw_y, g_add, g_sub, g_mul, g_div);
    }

    let (ta, tb, tc, td) = (T::from_i128(a), T::from_i128(b), T::from_i128(c), T::from_i128(d));
    let mut cx = Cx { rep, tally, ty: T::NAME, raw, verbose };

    // ---- constructors
    let gx = cx.call("new", || Rational::<T>::new(ta, tb));
    let okx = cx.expect_q("new", "x", gx, x);
    let gy = cx.call("new", || Rational::<T>::new(tc, td));
    let oky = cx.expect_q("new", "y", gy, y);
    let gi = cx.call("new_int", || Rational::<T>::new_int(ta));
    cx.expect_q("new_int", "a", gi, Q { n: a, d: 1 });
    if !(okx && oky) {
        // operands are not what they should be: everything downstream would only repeat this finding
        return;
    }
    let (xl, yl) = (gx.unwrap(), gy.unwrap());
    if let Some(gi) = gi {
        let g1 = cx.call("new", || Rational::<T>::new(ta, T::ONE));
        let e = cx.call("eq", || g1.map(|g1| g1 == gi));
        cx.expect_eq("eq", "new_int(a),new(a,1)", e.flatten(), true);
    }

    // ---- the four operators in their four forms, unary minus
    binop!(cx, xl, yl, sum, +, +=, "add_ref", "add_copy", "add_assign_ref", "add_assign_copy");
    binop!(cx, xl, yl, diff, -, -=, "sub_ref", "sub_copy", "sub_assign_ref", "sub_assign_copy");
    binop!(cx, xl, yl, prod, *, *=, "mul_ref", "mul_copy", "mul_assign_ref", "mul_assign_copy");
    if let Some(quot) = quot {
        binop!(cx, xl, yl, quot, /, /=, "div_ref", "div_copy", "div_assign_ref", "div_assign_copy");
    } else {
        cx.tally.bump("div_skipped_zero_divisor");
    }
    let g = cx.call("neg", || -xl);
    cx.expect_q("neg", "x", g, negx);
    let nxl = g;
    let g = cx.call("neg", || -yl);
    cx.expect_q("neg", "y", g, negy);

    // ---- identities with the ZeroOne constants and with the operand itself (aliasing)
    let zero = Rational::<T>::ZERO;
    let one = Rational::<T>::ONE;
    cx.expect_q("zero_const", "ZERO", Some(zero), Q { n: 0, d: 1 });
    cx.expect_q("one_const", "ONE", Some(one), Q { n: 1, d: 1 });
    let g = cx.call("add_zero", || xl + &zero);
    cx.expect_q("add_zero", "x", g, x);
    let g = cx.call("mul_one", || xl * &one);
    cx.expect_q("mul_one", "x", g, x);
    let g = cx.call("sub_self", || xl - &xl);
    cx.expect_q("sub_self", "x", g, Q { n: 0, d: 1 });
    let g = cx.call("mul_zero", || yl * &zero);
    cx.expect_q("mul_zero", "y", g, Q { n: 0, d: 1 });
    if x.n != 0 {
        let g = cx.call("div_self", || xl / &xl);
        cx.expect_q("div_self", "x", g, Q { n: 1, d: 1 });
    }

    // ---- equality, order
    let veq = x == y;
    if veq != (ord == Ordering::Equal) {
        cx.rep.inconclusive("oracle: structural equality of canonical forms disagrees with cross-multiplication");
        return;
    }
    let g = cx.call("eq", || xl == yl);
    cx.expect_eq("eq", "x,y", g, veq);
    let g = cx.call("ne", || xl != yl);
    cx.expect_eq("ne", "x,y", g, !veq);
    let g = cx.call("cmp", || xl.cmp(&yl));
    cx.expect_eq("cmp", "x,y", g, ord);
    let g = cx.call("cmp", || yl.cmp(&xl));
    cx.expect_eq("cmp", "y,x", g, ord.reverse());
    let g = cx.call("cmp", || xl.cmp(&xl));
    cx.expect_eq("cmp", "x,x", g, Ordering::Equal);
    let g = cx.call("partial_cmp", || xl.partial_cmp(&yl));
    cx.expect_eq("partial_cmp", "x,y", g, Some(ord));
    let g = cx.call("lt", || xl < yl);
    cx.expect_eq("lt", "x,y", g, ord == Ordering::Less);
    let g = cx.call("le", || xl <= yl);
    cx.expect_eq("le", "x,y", g, ord != Ordering::Greater);
    let g = cx.call("gt", || xl > yl);
    cx.expect_eq("gt", "x,y", g, ord == Ordering::Greater);
    let g = cx.call("ge", || xl >= yl);
    cx.expect_eq("ge", "x,y", g, ord != Ordering::Less);
    let g = cx.call("max_min", || (std::cmp::max(xl, yl), std::cmp::min(xl, yl)));
    if let Some((mx, mn)) = g {
        let (wmx, wmn) = if ord == Ordering::Greater { (x, y) } else { (y, x) };
        cx.expect_q("max_min", "max(x,y)", Some(mx), wmx);
        cx.expect_q("max_min", "min(x,y)", Some(mn), wmn);
    }

    // ---- hashing: equal values hash equally, in whatever representation they were given
    if veq {
        let g = cx.call("hash", || (hash_of(&xl), hash_of(&yl)));
        if let Some((hx, hy)) = g {
            cx.tally.bump("hash_equal_value_pairs");
            if verbose {
                eprintln!("  hash               x,y            {:#x} {:#x}", hx, hy);
            }
            if hx != hy {
                let d = cx.base_detail("hash").set("what", "equal values hash differently").set("hash_x", format!("{:#x}", hx)).set("hash_y", format!("{:#x}", hy));
                cx.viol("hash", d);
            }
        }
    }
    let bound = 1i128 << T::BOUND_LOG2;
    for k in [-1i128, 2, -3, c, -7] {
        if k == 0 || k.abs() > bound || a.abs() > bound || b.abs() > bound || (k * a).abs() > bound || (k * b).abs() > bound {
            continue;
        }
        let (ka, kb) = (T::from_i128(k * a), T::from_i128(k * b));
        let g = cx.call("new", || Rational::<T>::new(ka, kb));
        if !cx.expect_q("new", "k*a,k*b", g, x) {
            continue;
        }
        let xk = g.unwrap();
        cx.tally.bump("hash_scaled_representations");
        let g = cx.call("hash", || (hash_of(&xl), hash_of(&xk)));
        if let Some((h1, h2)) = g {
            if h1 != h2 {
                let d = cx.base_detail("hash").set("what", "new(a,b) and new(k*a,k*b) hash differently").set("k", k);
                cx.viol("hash", d);
            }
        }
        let g = cx.call("eq", || xl == xk);
        cx.expect_eq("eq", "x,new(ka,kb)", g, true);
        let g = cx.call("cmp", || xl.cmp(&xk));
        cx.expect_eq("cmp", "x,new(ka,kb)", g, Ordering::Equal);
    }

    // ---- floor / ceil for negative, positive and integral values
    let mut fc: Vec<(&'static str, Rational<T>, Q)> = vec![("x", xl, x), ("y", yl, y)];
    if let Some(n) = nxl {
        fc.push(("-x", n, negx));
    }
    for (note, v, q) in fc {
        let class = if q.d == 1 { 0 } else if q.n < 0 { 1 } else { 2 };
        cx.tally.bump(["floor_integral", "floor_negative", "floor_positive"][class]);
        cx.tally.bump(["ceil_integral", "ceil_negative", "ceil_positive"][class]);
        let g = cx.call("floor", || v.floor());
        cx.expect_q("floor", note, g, Q { n: qfloor(q), d: 1 });
        let g = cx.call("ceil", || v.ceil());
        cx.expect_q("ceil", note, g, Q { n: qceil(q), d: 1 });
    }

    // ---- Display / Debug: the textual form is not part of the property (only that equal values are represented
    // equally); the calls are made (a panic would still be reported) and renderings of equal values are compared
    for (note, v, q) in [("x", xl, x), ("y", yl, y)] {
        let _ = (note, q);
        let g = cx.call("display", || format!("{}", v));
        let g2 = cx.call("display", || format!("{}", v.clone()));
        if let Some(g2) = g2 {
            cx.expect_eq("display", "a value and its clone render differently", g, g2);
        }
        let _ = cx.call("debug", || format!("{:?}", v));
    }

    if cx.rep.wants_sample() && reduced && negden && x.d > 1 && y.d > 1 && !veq {
        let f = |q: Q| format!("{}/{}", q.n, q.d);
        let s = Json::obj()
            .set("type", T::NAME)
            .set("shape", shape)
            .set("raw_quadruple", vec![a, b, c, d])
            .set("x", f(x))
            .set("y", f(y))
            .set("x+y", f(sum))
            .set("x-y", f(diff))
            .set("x*y", f(prod))
            .set("x/y", quot.map(f))
            .set("cmp", format!("{:?}", ord))
            .set("floor_x", qfloor(x))
            .set("ceil_x", qceil(x))
            .set("unreduced_gcds_add_sub_mul_div", vec![g_add, g_sub, g_mul, g_div]);
        cx.rep.sample(s);
    }
}

// ------------------------------------------------------------------------------------------------
// equality and hashing need no arithmetic: for Rational<i32> they are judged on parts up to 2^30 (the magnitudes the
// property states), far beyond the box in which the *operators* of a 32-bit rational stay exact. Pairs: the same value in
// two representations, independent values, and "wrap twins" whose cross products a*d and c*b agree modulo 2^32 without
// being equal.

fn check_eq_wide_i32(rng: &mut Rng, rep: &mut Report, tally: &mut Tally) {
    const B: i128 = 1 << 30;
    let wide = |rng: &mut Rng| -> i128 {
        let m = match rng.below(6) {
            0 => *rng.pick(&[1i128 << 16, (1 << 16) + 1, (1 << 16) - 1, 46_340, 46_341, 46_349, 1 << 30, (1 << 30) - 1, 1 << 24, 65_537, 1 << 20]),
            1 => 1i128 << rng.below(31),
            2 => 1 + rng.below(1 << 16) as i128,
            _ => 1 + rng.below(B as u64) as i128,
        };
        if rng.chance(1, 2) {
            -m
        } else {
            m
        }
    };
    let (a, b) = (wide(rng), wide(rng));
    let (c, d, shape) = match rng.below(4) {
        0 => {
            // the same value, scaled
            let g = ogcd(a, b);
            let (n, dd) = (a / g, b / g);
            let kmax = (B / n.abs().max(dd.abs())).max(1);
            let k = (1 + rng.below(kmax.min(1 << 20) as u64) as i128) * if rng.chance(1, 2) { -1 } else { 1 };
            (n * k, dd * k, "eq_wide_same_value")
        }
        1 => {
            // wrap twin: same numerator with s trailing zero bits, denominators 2^(32 - s) * t apart
            let s_bits = 3 + rng.below(18) as u32;
            let a2 = ((a.abs() >> s_bits).max(1) | 1) << s_bits;
            let step = 1i128 << (32 - s_bits);
            let d2 = b + step * (1 + rng.below(3) as i128) * if b > 0 { -1 } else { 1 };
            if a2 <= B && d2 != 0 && d2.abs() <= B {
                // (a2 / b vs a2 / d2)
                return check_eq_wide_quad([a2, b, a2, d2], "eq_wide_wrap_twins", rep, tally);
            }
            (wide(rng), wide(rng), "eq_wide_independent")
        }
        _ => (wide(rng), wide(rng), "eq_wide_independent"),
    };
    check_eq_wide_quad([a, b, c, d], shape, rep, tally)
}

fn check_eq_wide_quad(raw: [i128; 4], shape: &'static str, rep: &mut Report, tally: &mut Tally) {
    let [a, b, c, d] = raw;
    tally.bump("eq_wide_pairs_i32");
    tally.bump(shape);
    let want_eq = a * d == c * b;
    let replay = vec!["--eq-wide-case".to_string(), format!("{},{},{},{}", a, b, c, d)];
    let r = catch(|| {
        let x = lib!(Rational::<i32>::new(a as i32, b as i32));
        let y = lib!(Rational::<i32>::new(c as i32, d as i32));
        let eq = lib!(x == y);
        let ne = lib!(x != y);
        let eq_rev = lib!(y == x);
        (eq, ne, eq_rev, hash_of(&x), hash_of(&y), x, y)
    });
    let detail = |what: &str| Json::obj().set("type", "i32").set("check", "eq_wide").set("what", what).set("x_raw", format!("{}/{}", a, b)).set("y_raw", format!("{}/{}", c, d)).set("shape", shape);
    match r {
        Ok((eq, ne, eq_rev, hx, hy, x, y)) => {
            if eq != want_eq || ne == want_eq || eq_rev != want_eq {
                rep.violation(
                    "eq:i32".to_string(),
                    detail("== / != on two constructed values disagrees with numeric equality").set("eq", eq).set("ne", ne).set("eq_reversed", eq_rev).set("numerically_equal", want_eq).set("x", format!("{}/{}", x.a, x.b)).set("y", format!("{}/{}", y.a, y.b)),
                    replay,
                );
            } else if want_eq && hx != hy {
                rep.violation("hash:i32".to_string(), detail("equal values hash differently"), replay);
            }
        }
        Err(p) => {
            if p.in_lib {
                rep.violation("panic:eq:i32".to_string(), detail("constructing / comparing two values panicked (equality needs no arithmetic on the parts)").set("panic", p.msg.as_str()).set("at", format!("{}:{}", p.file, p.line)), replay);
            } else {
                rep.inconclusive(format!("harness panic at {}:{}: {}", p.file, p.line, p.msg));
            }
        }
    }
}

// ------------------------------------------------------------------------------------------------

#[derive(Clone, Copy, Debug, PartialEq)]
enum Ty {
    I32,
    I64,
    I128,
}
impl Ty {
    fn name(self) -> &'static str {
        match self {
            Ty::I32 => "i32",
            Ty::I64 => "i64",
            Ty::I128 => "i128",
        }
    }
    fn bound_log2(self) -> u32 {
        match self {
            Ty::I32 => <i32 as Int>::BOUND_LOG2,
            Ty::I64 => <i64 as Int>::BOUND_LOG2,
            Ty::I128 => <i128 as Int>::BOUND_LOG2,
        }
    }
    fn id(self) -> u64 {
        match self {
            Ty::I32 => 32,
            Ty::I64 => 64,
            Ty::I128 => 128,
        }
    }
    fn check(self, raw: [i128; 4], shape: &'static str, rep: &mut Report, tally: &mut Tally, verbose: bool) {
        match self {
            Ty::I32 => check_pair::<i32>(raw, shape, rep, tally, verbose),
            Ty::I64 => check_pair::<i64>(raw, shape, rep, tally, verbose),
            Ty::I128 => check_pair::<i128>(raw, shape, rep, tally, verbose),
        }
    }
}

#[derive(Clone, Copy, Debug)]
enum Kind {
    Box(i128),
    Sample,
}
struct Job {
    ty: Ty,
    kind: Kind,
    count: u64,
}

fn main() {
    let eng = Engine::start("ratmon");
    let a = &eng.args;
    let thorough = a.thorough();
    let seed = a.seed();
    let mut report = Report::new();
    oracle_self_check(&mut report);
    report.extra(
        "rule",
        "evaluations = raw pairs (a/b, c/d), each judged by ALL check families (constructors, 16 operator forms, neg, identities, ==, order, hash, floor/ceil, Display/Debug); \
         operator_evaluations = individual library calls compared with the oracle; nontrivial = pairs where a gcd reduction actually happened \
         (raw input not in lowest terms or gcd of an unreduced +,-,*,/ result > 1) or a raw denominator / divisor numerator was negative",
    );

    if let Some(case) = a.opt("eq-wide-case") {
        let v: Vec<i128> = case.split(',').map(|s| s.trim().parse().expect("integer")).collect();
        let mut rep = Report::new();
        let mut tally = Tally::default();
        check_eq_wide_quad([v[0], v[1], v[2], v[3]], "replay", &mut rep, &mut tally);
        tally.flush(&mut rep);
        report.merge(rep);
        eng.finish(report);
    }
    if let Some(case) = a.opt("case") {
        let (tn, rest) = case.split_once(':').expect("case = <type>:<a>,<b>,<c>,<d>");
        let ty = match tn {
            "i32" => Ty::I32,
            "i64" => Ty::I64,
            "i128" => Ty::I128,
            t => panic!("unknown type {}", t),
        };
        let v: Vec<i128> = rest.split(',').map(|s| s.trim().parse().expect("integer")).collect();
        assert!(v.len() == 4, "case needs four integers");
        let raw = [v[0], v[1], v[2], v[3]];
        let b = 1i128 << ty.bound_log2();
        if raw[1] == 0 || raw[3] == 0 {
            report.inconclusive("replay: zero denominator is outside the property");
            eng.finish(report);
        }
        if raw.iter().any(|x| x.abs() > b) {
            eprintln!("note: the quadruple exceeds the bound 2^{} the engine uses for {}", ty.bound_log2(), ty.name());
        }
        let mut rep = Report::new();
        let mut tally = Tally::default();
        let r = catch(|| ty.check(raw, "replay", &mut rep, &mut tally, true));
        if let Err(p) = r {
            rep.inconclusive(format!("harness panic at {}:{}: {}", p.file, p.line, p.msg));
        }
        tally.flush(&mut rep);
        report.merge(rep);
        eng.finish(report);
    }

    let jobs: Vec<Job> = if thorough {
        vec![
            Job { ty: Ty::I64, kind: Kind::Box(10), count: box_total(10) },
            Job { ty: Ty::I32, kind: Kind::Box(6), count: box_total(6) },
            Job { ty: Ty::I128, kind: Kind::Box(6), count: box_total(6) },
            Job { ty: Ty::I64, kind: Kind::Sample, count: a.u64("samples", 600_000) },
            Job { ty: Ty::I32, kind: Kind::Sample, count: a.u64("samples", 600_000) / 4 },
            Job { ty: Ty::I128, kind: Kind::Sample, count: a.u64("samples", 600_000) / 4 },
        ]
    } else {
        vec![
            Job { ty: Ty::I64, kind: Kind::Box(6), count: box_total(6) },
            Job { ty: Ty::I32, kind: Kind::Box(4), count: box_total(4) },
            Job { ty: Ty::I128, kind: Kind::Box(4), count: box_total(4) },
            Job { ty: Ty::I64, kind: Kind::Sample, count: a.u64("samples", 160_000) },
            Job { ty: Ty::I32, kind: Kind::Sample, count: a.u64("samples", 160_000) / 4 },
            Job { ty: Ty::I128, kind: Kind::Sample, count: a.u64("samples", 160_000) / 4 },
        ]
    };
    let pools = [Pool::new(Ty::I32.bound_log2()), Pool::new(Ty::I64.bound_log2()), Pool::new(Ty::I128.bound_log2())];
    let pool_of = |ty: Ty| match ty {
        Ty::I32 => &pools[0],
        Ty::I64 => &pools[1],
        Ty::I128 => &pools[2],
    };
    let total: u64 = jobs.iter().map(|j| j.count).sum();
    let q = WorkQueue::new(total);
    let jobs = &jobs;
    let rep = common::run_sharded(a.threads(), |shard, rep| {
        let mut tally = Tally::default();
        while let Some((lo, hi)) = q.take_block(128) {
            for idx in lo..hi {
                let mut k = idx;
                let mut job = &jobs[0];
                for j in jobs.iter() {
                    if k < j.count {
                        job = j;
                        break;
                    }
                    k -= j.count;
                }
                match job.kind {
                    Kind::Box(m) => {
                        rep.sample_cap = if shard % 4 == 0 { 1 } else { 0 };
                        tally.bump("pairs_exhaustive_box");
                        job.ty.check(box_decode(m, k), "box", rep, &mut tally, false);
                    }
                    Kind::Sample => {
                        let mut rng = Rng::new(mix(&[seed, job.ty.id(), k]));
                        let (raw, shape) = pool_of(job.ty).gen_pair(&mut rng);
                        rep.sample_cap = 1;
                        tally.bump("pairs_sampled");
                        job.ty.check(raw, shape, rep, &mut tally, false);
                        if job.ty == Ty::I32 {
                            check_eq_wide_i32(&mut rng, rep, &mut tally);
                        }
                    }
                }
            }
        }
        tally.flush(rep);
    });
    report.merge(rep);
    let descr: Vec<String> = jobs
        .iter()
        .filter_map(|j| match j.kind {
            Kind::Box(m) => Some(format!("Rational<{}>: all {} pairs with |a|,|b|,|c|,|d| <= {}, b,d != 0 (both signs of both denominators)", j.ty.name(), j.count, m)),
            Kind::Sample => None,
        })
        .collect();
    report.extra("exhaustive", descr.join("; "));
    let sampled: Vec<String> = jobs
        .iter()
        .filter_map(|j| match j.kind {
            Kind::Sample => Some(format!("Rational<{}>: {} boundary-biased pairs with |a|,|b|,|c|,|d| <= 2^{}", j.ty.name(), j.count, j.ty.bound_log2())),
            Kind::Box(_) => None,
        })
        .collect();
    report.extra("sampled", sampled.join("; "));
    report.extra("operator_forms", "x op &y, x op y (Copy), x op= &y, x op= y for + - * /; unary -; / only for non-zero divisors");
    eng.finish(report);
}
