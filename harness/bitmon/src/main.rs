//! bitmon - runtime monitor for `Bitset<N>` (C12: bitset operations agree with a set of indices).
//!
//! The real `Bitset<N>` (N in {1, 2, 3, 4, 10, 17}) runs in lock step with a plain `Vec<bool>` of
//! length 64*N. Two workloads:
//!
//! * random: histories of 0..=60 operations over a pool of 3 live bitsets (point operations,
//!   `from_u64`, the three binary operators and their assigning forms, complement, clone, `new`,
//!   `Default`). After every operation the touched bitset (and every 8th operation plus at the end
//!   all of them) is observed completely: `test(i)` for every i, `count()`, `iter_bits()`,
//!   `==` / `!=` against a bitset rebuilt from the model (and against one differing in a single
//!   boundary bit), `Display`, `Debug`.
//! * pairwise: a fixed family of >= 40 structured sets per N; all ordered pairs under `&`, `|`, `^`,
//!   `&=`, `|=`, `^=` and complement, each result observed completely.
//!
//!   bitmon [--mode all|random|pairwise] [--tier quick|thorough] [--seed S]
//!   bitmon --case <N>:<case_seed>                  (replay one random history)
//!   bitmon --mode pairwise --case <N>:<i>:<j>      (replay one ordered pair of family sets)

use common::{catch, hash_str, lib, mix, Engine, Json, Report, Rng, WorkQueue};
use rlib_bitset::Bitset;

const NS: [usize; 11] = [1, 2, 3, 4, 10, 17, 33, 64, 130, 200, 4096];
const POOL: usize = 3;
const MAX_OPS: usize = 60;
/// every this many operations (and at the end of a history) all pool members are observed
const FULL_EVERY: usize = 8;
const FAMILY_MIN: usize = 40;
const FAMILY_MIN_RANDOM: usize = 8;
const FAMILY_EXTRA_THOROUGH: usize = 80;

macro_rules! dispatch {
    ($n:expr, $f:ident ( $($args:expr),* )) => {
        match $n {
            1 => $f::<1>($($args),*),
            2 => $f::<2>($($args),*),
            3 => $f::<3>($($args),*),
            4 => $f::<4>($($args),*),
            10 => $f::<10>($($args),*),
            17 => $f::<17>($($args),*),
            33 => $f::<33>($($args),*),
            64 => $f::<64>($($args),*),
            130 => $f::<130>($($args),*),
            200 => $f::<200>($($args),*),
            4096 => $f::<4096>($($args),*),
            other => panic!("N = {} is not instantiated (use one of {:?})", other, NS),
        }
    };
}

// ------------------------------------------------------------------------------------------------
// operations

#[derive(Clone, Copy, Debug, PartialEq)]
enum Bin {
    And,
    Or,
    Xor,
}

const BINS: [Bin; 3] = [Bin::And, Bin::Or, Bin::Xor];

impl Bin {
    fn sym(self) -> &'static str {
        match self {
            Bin::And => "&",
            Bin::Or => "|",
            Bin::Xor => "^",
        }
    }
    fn name(self) -> &'static str {
        match self {
            Bin::And => "and",
            Bin::Or => "or",
            Bin::Xor => "xor",
        }
    }
    fn assign_name(self) -> &'static str {
        match self {
            Bin::And => "and_assign",
            Bin::Or => "or_assign",
            Bin::Xor => "xor_assign",
        }
    }
    /// the set-theoretic meaning, on membership
    fn on(self, x: bool, y: bool) -> bool {
        match self {
            Bin::And => x && y,
            Bin::Or => x || y,
            Bin::Xor => x != y,
        }
    }
}

/// pool members are named b0, b1, b2
#[derive(Clone, Debug)]
enum Op {
    Set(usize, usize),
    Remove(usize, usize),
    Flip(usize, usize),
    /// a run of `set` calls
    SetBatch(usize, Vec<usize>),
    Clear(usize),
    FromU64(usize, u64),
    /// dst = &a <op> &b
    Bin(Bin, usize, usize, usize),
    /// a <op>= &b
    Assign(Bin, usize, usize),
    /// dst = !src.clone()
    Not(usize, usize),
    /// dst = src.clone()
    Clone(usize, usize),
    Default(usize),
    New(usize),
}

const OP_KINDS: usize = 16;

impl Op {
    fn kind(&self) -> &'static str {
        match self {
            Op::Set(..) => "set",
            Op::Remove(..) => "remove",
            Op::Flip(..) => "flip",
            Op::SetBatch(..) => "set_batch",
            Op::Clear(..) => "clear",
            Op::FromU64(..) => "from_u64",
            Op::Bin(b, ..) => b.name(),
            Op::Assign(b, ..) => b.assign_name(),
            Op::Not(..) => "not",
            Op::Clone(..) => "clone",
            Op::Default(..) => "default",
            Op::New(..) => "new",
        }
    }
    fn show(&self) -> String {
        match self {
            Op::Set(p, i) => format!("b{}.set({})", p, i),
            Op::Remove(p, i) => format!("b{}.remove({})", p, i),
            Op::Flip(p, i) => format!("b{}.flip({})", p, i),
            Op::SetBatch(p, v) => format!("for i in {:?} {{ b{}.set(i) }}", v, p),
            Op::Clear(p) => format!("b{}.clear()", p),
            Op::FromU64(p, x) => format!("b{} = Bitset::from_u64({:#x})", p, x),
            Op::Bin(b, d, x, y) => format!("b{} = &b{} {} &b{}", d, x, b.sym(), y),
            Op::Assign(b, x, y) => {
                if x == y {
                    format!("b{} {}= &b{}.clone()", x, b.sym(), y)
                } else {
                    format!("b{} {}= &b{}", x, b.sym(), y)
                }
            }
            Op::Not(d, s) => format!("b{} = !b{}.clone()", d, s),
            Op::Clone(d, s) => format!("b{} = b{}.clone()", d, s),
            Op::Default(p) => format!("b{} = Default::default()", p),
            Op::New(p) => format!("b{} = Bitset::new()", p),
        }
    }
    /// changes the contents of one set in place or by a word constructor
    fn is_mutating(&self) -> bool {
        matches!(self, Op::Set(..) | Op::Remove(..) | Op::Flip(..) | Op::SetBatch(..) | Op::Clear(..) | Op::FromU64(..))
    }
    fn is_binary(&self) -> bool {
        matches!(self, Op::Bin(..) | Op::Assign(..))
    }
    /// point-operation index, if any
    fn index(&self) -> Option<usize> {
        match self {
            Op::Set(_, i) | Op::Remove(_, i) | Op::Flip(_, i) => Some(*i),
            _ => None,
        }
    }
}

fn at_word_boundary(i: usize) -> bool {
    i % 64 == 0 || i % 64 == 63
}

/// the positions the property puts emphasis on, inside 0..bits
fn boundary_positions(bits: usize) -> Vec<usize> {
    let mut v: Vec<usize> = [0usize, 1, 62, 63, 64, 65, 127, 128, bits - 2, bits - 1].iter().cloned().filter(|&i| i < bits).collect();
    v.sort();
    v.dedup();
    v
}

fn gen_index(rng: &mut Rng, bits: usize, bnd: &[usize]) -> usize {
    if rng.chance(1, 2) {
        *rng.pick(bnd)
    } else {
        rng.usize_below(bits)
    }
}

fn gen_word(rng: &mut Rng) -> u64 {
    match rng.below(10) {
        0 => 0,
        1 => 1,
        2 => 1u64 << 63,
        3 => u64::MAX,
        4 => rng.next_u64() & rng.next_u64() & rng.next_u64(),
        5 => (1u64 << rng.below(64)) | (1u64 << rng.below(64)),
        6 => !(1u64 << rng.below(64)),
        _ => rng.next_u64(),
    }
}

fn gen_op(rng: &mut Rng, bits: usize, bnd: &[usize]) -> Op {
    // set remove flip batch clear from_u64 | and or xor | and= or= xor= | not clone default new
    const W: [u32; OP_KINDS] = [14, 10, 10, 3, 2, 5, 5, 5, 5, 5, 5, 5, 5, 4, 1, 1];
    let p = rng.usize_below(POOL);
    let q = rng.usize_below(POOL);
    let d = rng.usize_below(POOL);
    match rng.weighted(&W) {
        0 => Op::Set(p, gen_index(rng, bits, bnd)),
        1 => Op::Remove(p, gen_index(rng, bits, bnd)),
        2 => Op::Flip(p, gen_index(rng, bits, bnd)),
        3 => {
            let k = 1 + rng.usize_below((bits / 2).min(48));
            Op::SetBatch(p, (0..k).map(|_| gen_index(rng, bits, bnd)).collect())
        }
        4 => Op::Clear(p),
        5 => Op::FromU64(p, gen_word(rng)),
        6 => Op::Bin(Bin::And, d, p, q),
        7 => Op::Bin(Bin::Or, d, p, q),
        8 => Op::Bin(Bin::Xor, d, p, q),
        9 => Op::Assign(Bin::And, p, q),
        10 => Op::Assign(Bin::Or, p, q),
        11 => Op::Assign(Bin::Xor, p, q),
        12 => Op::Not(d, p),
        13 => Op::Clone(d, p),
        14 => Op::Default(p),
        _ => Op::New(p),
    }
}

// ------------------------------------------------------------------------------------------------
// the model side

fn model_indices(m: &[bool]) -> Vec<usize> {
    m.iter().enumerate().filter(|(_, &b)| b).map(|(i, _)| i).collect()
}

/// character i is '1' iff i is in the set (index 0 first), length 64*N
fn model_string(m: &[bool]) -> String {
    m.iter().map(|&b| if b { '1' } else { '0' }).collect()
}

fn model_set_json(m: &[bool]) -> Json {
    let idx = model_indices(m);
    let shown: Vec<usize> = idx.iter().cloned().take(100).collect();
    Json::obj().set("size", idx.len()).set("indices_first_100", shown)
}

fn short(v: &[usize]) -> String {
    if v.len() <= 120 {
        format!("{:?}", v)
    } else {
        format!("{:?} ... ({} items)", &v[..120], v.len())
    }
}

// ------------------------------------------------------------------------------------------------
// complete observation of one bitset against its model

struct Fail {
    check: &'static str,
    got: String,
    want: String,
}

fn build<const N: usize>(model: &[bool]) -> Bitset<N> {
    let mut b = lib!(Bitset::<N>::new());
    for (i, &m) in model.iter().enumerate() {
        if m {
            lib!(b.set(i));
        }
    }
    b
}

/// Every public observer of `b` must describe exactly the set `model`. `salt` only selects which
/// boundary position the "differs in one bit" comparison uses.
fn verify<const N: usize>(b: &Bitset<N>, model: &[bool], salt: usize, rep: &mut Report) -> Vec<Fail> {
    let bits = 64 * N;
    assert_eq!(model.len(), bits);
    let mut fails = Vec::new();
    rep.inc("verifications");
    let want_idx = model_indices(model);

    // test(i) for every index
    let mut bad: Vec<String> = Vec::new();
    let mut bad_total = 0usize;
    for i in 0..bits {
        let got = lib!(b.test(i));
        if got != model[i] {
            bad_total += 1;
            if bad.len() < 8 {
                bad.push(format!("test({})={}", i, got));
            }
        }
    }
    rep.count("test_calls", bits as u64);
    if bad_total > 0 {
        fails.push(Fail {
            check: "test",
            got: format!("{} ({} wrong indices in all)", bad.join(", "), bad_total),
            want: "test(i) == (i in the model set) for every i".into(),
        });
    }

    // count()
    let got_count = lib!(b.count());
    if got_count != want_idx.len() {
        fails.push(Fail { check: "count", got: got_count.to_string(), want: want_idx.len().to_string() });
    }

    // iter_bits(): strictly ascending and equal to the model's index list (bounded so that a
    // non-terminating iterator shows up as a wrong answer, not as a hang)
    let got_idx: Vec<usize> = lib!(b.iter_bits().take(bits + 2).collect());
    if got_idx != want_idx {
        let ascending = got_idx.windows(2).all(|w| w[0] < w[1]);
        fails.push(Fail {
            check: "iter_bits",
            got: format!("{}{}", short(&got_idx), if ascending { "" } else { " (not strictly ascending)" }),
            want: short(&want_idx),
        });
    }

    // the same iterator through the standard adaptors, also after it has been partly consumed: what is left must
    // always be the remaining ascending indices
    {
        let k = if want_idx.is_empty() { 0 } else { salt % (want_idx.len() + 1) };
        let mut it = lib!(b.iter_bits());
        let mut consumed: Vec<usize> = Vec::new();
        for _ in 0..k {
            if let Some(x) = lib!(it.next()) {
                consumed.push(x);
            }
        }
        let rest_count = lib!(it.count());
        let fresh_count = lib!(b.iter_bits().count());
        let last = lib!(b.iter_bits().last());
        let nth = lib!(b.iter_bits().nth(k));
        let skipped = lib!(b.iter_bits().skip(k).take(bits + 2).count());
        // (nothing is demanded after the iterator has returned None: it is not a FusedIterator)
        let want_rest = want_idx.len() - k.min(want_idx.len());
        rep.inc("iterator_adaptor_checks");
        if consumed[..] != want_idx[..k.min(want_idx.len())]
            || rest_count != want_rest
            || fresh_count != want_idx.len()
            || last != want_idx.last().cloned()
            || nth != want_idx.get(k).cloned()
            || skipped != want_rest
        {
            fails.push(Fail {
                check: "iter_bits",
                got: format!(
                    "after {} next() calls: consumed {}, count() of the rest {}, fresh count() {}, last() {:?}, nth({}) {:?}, skip({}).count() {}",
                    k, short(&consumed), rest_count, fresh_count, last, k, nth, k, skipped
                ),
                want: format!("rest {}, total {}, last {:?}, nth {:?}", want_rest, want_idx.len(), want_idx.last(), want_idx.get(k)),
            });
        }
    }

    // random scripts of Iterator calls (next / nth / by_ref adaptors / terminals, also on a partly consumed iterator)
    // against std's slice iterator over the expected indices
    {
        let mut r = Rng::new(common::mix(&[salt as u64, want_idx.len() as u64, want_idx.first().cloned().unwrap_or(0) as u64, 0x17e2]));
        for _ in 0..2 {
            match common::iter_protocol(b.iter_bits(), &want_idx, &mut r, 12) {
                Ok(calls) => rep.count("iterator_protocol_calls", calls),
                Err(e) => {
                    fails.push(Fail { check: "iter_bits_protocol", got: e, want: format!("the calls behave as on the ascending member list {}", short(&want_idx)) });
                    break;
                }
            }
        }
    }

    // Display / Debug
    let want_s = model_string(model);
    let got_s = lib!(format!("{}", b));
    if got_s != want_s {
        fails.push(Fail { check: "display", got: got_s, want: want_s.clone() });
    }
    let got_d = lib!(format!("{:?}", b));
    if got_d != want_s {
        fails.push(Fail { check: "debug", got: got_d, want: want_s });
    }

    // == / != against the same set rebuilt with `set` calls, and against a set differing in one bit
    let same: Bitset<N> = build(model);
    let bnd = boundary_positions(bits);
    let d = bnd[salt % bnd.len()];
    let mut other_model = model.to_vec();
    other_model[d] = !other_model[d];
    let mut other: Bitset<N> = build(model);
    if other_model[d] {
        lib!(other.set(d));
    } else {
        lib!(other.remove(d));
    }
    let obs = [
        ("b == same", lib!(*b == same), true),
        ("same == b", lib!(same == *b), true),
        ("b != same", lib!(*b != same), false),
        ("b == differing", lib!(*b == other), false),
        ("differing == b", lib!(other == *b), false),
        ("b != differing", lib!(*b != other), true),
    ];
    // the same comparisons between copies at neighbouring places of one array and behind a Box (equal sets whose storage
    // starts at different offsets modulo 16 / 32 / 64 bytes: a comparison that works on aligned blocks splits them differently)
    let placed: [Bitset<N>; 3] = [same.clone(), same.clone(), same.clone()];
    let boxed: Box<(u64, Bitset<N>)> = Box::new((7, same.clone()));
    let boxed2: Box<Bitset<N>> = Box::new(same.clone());
    let mut placed_wrong: Vec<String> = Vec::new();
    for (name, v) in [
        ("array[0] == array[1]", lib!(placed[0] == placed[1])),
        ("array[1] == array[2]", lib!(placed[1] == placed[2])),
        ("array[2] == array[0]", lib!(placed[2] == placed[0])),
        ("b == array[1]", lib!(*b == placed[1])),
        ("array[0] == boxed field behind a u64", lib!(placed[0] == boxed.1)),
        ("array[1] == boxed field behind a u64", lib!(placed[1] == boxed.1)),
        ("boxed == array[1]", lib!(*boxed2 == placed[1])),
        ("boxed == boxed field behind a u64", lib!(*boxed2 == boxed.1)),
        ("!(array[0] != array[1])", !lib!(placed[0] != placed[1])),
        ("!(array[1] == differing)", !lib!(placed[1] == other)),
    ] {
        if !v {
            placed_wrong.push(format!("({}) is false", name));
        }
    }
    rep.count("eq_comparisons", obs.len() as u64 + 10);
    if !placed_wrong.is_empty() {
        fails.push(Fail { check: "eq", got: placed_wrong.join(", "), want: "equal sets compare equal wherever their storage lies".into() });
    }
    let wrong: Vec<String> = obs.iter().filter(|o| o.1 != o.2).map(|o| format!("({}) = {}", o.0, o.1)).collect();
    if !wrong.is_empty() {
        fails.push(Fail {
            check: "eq",
            got: wrong.join(", "),
            want: format!(
                "`same` holds exactly the model set (built by set calls), `differing` differs from it in bit {} only; == must be true for the first and false for the second",
                d
            ),
        });
    }
    rep.max("max_set_size", want_idx.len() as i64);
    fails
}

// ------------------------------------------------------------------------------------------------
// random histories

struct Pool<const N: usize> {
    sets: Vec<Bitset<N>>,
    models: Vec<Vec<bool>>,
}

impl<const N: usize> Pool<N> {
    fn new() -> Self {
        Pool { sets: (0..POOL).map(|_| lib!(Bitset::<N>::new())).collect(), models: vec![vec![false; 64 * N]; POOL] }
    }

    /// applies `op` to the model first and then to the library; returns the pool member it wrote
    fn apply(&mut self, op: &Op) -> usize {
        match op {
            Op::Set(p, i) => {
                self.models[*p][*i] = true;
                lib!(self.sets[*p].set(*i));
                *p
            }
            Op::Remove(p, i) => {
                self.models[*p][*i] = false;
                lib!(self.sets[*p].remove(*i));
                *p
            }
            Op::Flip(p, i) => {
                self.models[*p][*i] = !self.models[*p][*i];
                lib!(self.sets[*p].flip(*i));
                *p
            }
            Op::SetBatch(p, v) => {
                for &i in v {
                    self.models[*p][i] = true;
                }
                for &i in v {
                    lib!(self.sets[*p].set(i));
                }
                *p
            }
            Op::Clear(p) => {
                self.models[*p].iter_mut().for_each(|x| *x = false);
                lib!(self.sets[*p].clear());
                *p
            }
            Op::FromU64(p, x) => {
                let mut m = vec![false; 64 * N];
                for (i, slot) in m.iter_mut().enumerate().take(64) {
                    *slot = (x >> i) & 1 == 1;
                }
                self.models[*p] = m;
                self.sets[*p] = lib!(Bitset::<N>::from_u64(*x));
                *p
            }
            Op::Bin(b, d, x, y) => {
                let m: Vec<bool> = (0..64 * N).map(|i| b.on(self.models[*x][i], self.models[*y][i])).collect();
                let r: Bitset<N> = match b {
                    Bin::And => lib!(&self.sets[*x] & &self.sets[*y]),
                    Bin::Or => lib!(&self.sets[*x] | &self.sets[*y]),
                    Bin::Xor => lib!(&self.sets[*x] ^ &self.sets[*y]),
                };
                self.models[*d] = m;
                self.sets[*d] = r;
                *d
            }
            Op::Assign(b, x, y) => {
                let m: Vec<bool> = (0..64 * N).map(|i| b.on(self.models[*x][i], self.models[*y][i])).collect();
                let rhs: Bitset<N> = lib!(self.sets[*y].clone());
                match b {
                    Bin::And => lib!(self.sets[*x] &= &rhs),
                    Bin::Or => lib!(self.sets[*x] |= &rhs),
                    Bin::Xor => lib!(self.sets[*x] ^= &rhs),
                }
                self.models[*x] = m;
                *x
            }
            Op::Not(d, s) => {
                let m: Vec<bool> = self.models[*s].iter().map(|&x| !x).collect();
                let c: Bitset<N> = lib!(self.sets[*s].clone());
                let r: Bitset<N> = lib!(!c);
                self.models[*d] = m;
                self.sets[*d] = r;
                *d
            }
            Op::Clone(d, s) => {
                let m = self.models[*s].clone();
                let r: Bitset<N> = lib!(self.sets[*s].clone());
                self.models[*d] = m;
                if (*d + *s + self.models[*d].iter().filter(|b| **b).count()) % 2 == 0 {
                    // the other way to spell it: Clone::clone_from into the live destination
                    lib!(self.sets[*d].clone_from(&r));
                } else {
                    self.sets[*d] = r;
                }
                *d
            }
            Op::Default(p) => {
                self.models[*p] = vec![false; 64 * N];
                self.sets[*p] = lib!(<Bitset<N> as Default>::default());
                *p
            }
            Op::New(p) => {
                self.models[*p] = vec![false; 64 * N];
                self.sets[*p] = lib!(Bitset::<N>::new());
                *p
            }
        }
    }
}

fn report_fails(rep: &mut Report, n: usize, fails: Vec<Fail>, base: &Json, replay: &[String]) {
    for f in fails {
        rep.violation(
            format!("{}:N{}", f.check, n),
            base.clone().set("check", f.check).set("got", f.got).set("want", f.want),
            replay.to_vec(),
        );
    }
}

/// One random history, fully determined by (N, case_seed).
fn run_history<const N: usize>(case_seed: u64, rep: &mut Report, verbose: bool) {
    let bits = 64 * N;
    let bnd = boundary_positions(bits);
    let mut rng = Rng::new(case_seed);
    let nops = rng.usize_below(MAX_OPS + 1);
    let replay = vec!["--case".to_string(), format!("{}:{}", N, case_seed)];
    rep.inc("evaluations");
    rep.inc(&format!("histories_N{}", N));
    let mut log: Vec<String> = Vec::new();
    if verbose {
        eprintln!("history N={} ({} bits) case_seed={} ops={}", N, bits, case_seed, nops);
    }
    let r = catch(|| {
        let mut pool: Pool<N> = Pool::new();
        let mut has_mut = false;
        let mut has_bin = false;
        let mut hist_hash = mix(&[N as u64]);
        let mut aborted = false;
        'ops: for step in 0..nops {
            let op = gen_op(&mut rng, bits, &bnd);
            let kind = op.kind();
            rep.inc(&format!("op_{}", kind));
            rep.inc(&format!("ops_N{}", N));
            rep.see_str("op_kinds", kind);
            if let Some(i) = op.index() {
                if at_word_boundary(i) {
                    rep.inc("boundary_index_ops");
                }
                if bnd.contains(&i) {
                    rep.see("boundary_positions_hit", mix(&[N as u64, i as u64]));
                }
            }
            has_mut |= op.is_mutating();
            has_bin |= op.is_binary();
            let text = op.show();
            hist_hash = mix(&[hist_hash, hash_str(&text)]);
            log.push(text);
            let touched = pool.apply(&op);
            let all = (step + 1) % FULL_EVERY == 0 || step + 1 == nops;
            if verbose {
                let idx = model_indices(&pool.models[touched]);
                eprintln!("  [{:2}] {:<44} => b{} has {} elements {}", step, log[step], touched, idx.len(), short(&idx[..idx.len().min(24)]));
            }
            for p in 0..POOL {
                if p != touched && !all {
                    continue;
                }
                let fails = verify(&pool.sets[p], &pool.models[p], step + p, rep);
                if !fails.is_empty() {
                    if verbose {
                        for f in &fails {
                            eprintln!("      VIOLATION {} on b{}: got {} want {}", f.check, p, f.got, f.want);
                        }
                    }
                    let base = Json::obj()
                        .set("N", N)
                        .set("what", "after the last operation of the history an observer of the bitset disagrees with the model set")
                        .set("observed_member", format!("b{}", p))
                        .set("step", step)
                        .set("history", log.clone())
                        .set("model_set", model_set_json(&pool.models[p]));
                    report_fails(rep, N, fails, &base, &replay);
                    // the bitset no longer matches its model; everything after this is a consequence
                    aborted = true;
                    break 'ops;
                }
            }
        }
        if nops == 0 {
            // new() alone: three empty sets
            for p in 0..POOL {
                let fails = verify(&pool.sets[p], &pool.models[p], p, rep);
                if !fails.is_empty() {
                    let base = Json::obj()
                        .set("N", N)
                        .set("what", "a freshly constructed Bitset::new() is not the empty set")
                        .set("history", Vec::<String>::new())
                        .set("model_set", model_set_json(&pool.models[p]));
                    report_fails(rep, N, fails, &base, &replay);
                    aborted = true;
                }
            }
        }
        if has_mut && has_bin {
            rep.see("nontrivial", hist_hash);
        }
        if !aborted && nops >= 3 && nops <= 6 && has_bin && rep.wants_sample() {
            rep.sample(
                Json::obj()
                    .set("N", N)
                    .set("history", log.clone())
                    .set(
                        "final_sets_as_observed_and_expected",
                        Json::from((0..POOL).map(|p| short(&model_indices(&pool.models[p]))).collect::<Vec<_>>()),
                    )
                    .set("final_counts", Json::from((0..POOL).map(|p| lib!(pool.sets[p].count())).collect::<Vec<_>>())),
            );
        }
    });
    if let Err(p) = r {
        if p.in_lib {
            if verbose {
                eprintln!("      VIOLATION panic in the library: {} at {}:{}", p.msg, p.file, p.line);
            }
            rep.violation(
                format!("panic:N{}", N),
                Json::obj()
                    .set("N", N)
                    .set("what", "the library panicked on a lawful operation (all indices < 64*N)")
                    .set("panic", p.msg.as_str())
                    .set("at", format!("{}:{}", p.file, p.line))
                    .set("history", log.clone()),
                replay,
            );
        } else {
            rep.inconclusive(format!("harness panic at {}:{}: {} (case {}:{})", p.file, p.line, p.msg, N, case_seed));
        }
    }
}

// ------------------------------------------------------------------------------------------------
// pairwise sub-run: a fixed family of structured sets per N, all ordered pairs

fn family(n_words: usize, extra_random: usize) -> Vec<(String, Vec<bool>)> {
    let bits = 64 * n_words;
    let mut fam: Vec<(String, Vec<bool>)> = Vec::new();
    fn add(fam: &mut Vec<(String, Vec<bool>)>, name: String, m: Vec<bool>) -> bool {
        if fam.iter().any(|f| f.1 == m) {
            return false;
        }
        fam.push((name, m));
        true
    }
    let from_fn = |f: &dyn Fn(usize) -> bool| -> Vec<bool> { (0..bits).map(f).collect() };
    add(&mut fam, "empty".into(), vec![false; bits]);
    add(&mut fam, "full".into(), vec![true; bits]);
    let bnd = boundary_positions(bits);
    for &s in &bnd {
        add(&mut fam, format!("{{{}}}", s), from_fn(&|i| i == s));
    }
    let mut ks: Vec<usize> = vec![1, 63, 64, 65, 127, 128, 129, bits.saturating_sub(64), bits.saturating_sub(63), bits - 1];
    ks.retain(|&k| k > 0 && k < bits);
    ks.sort();
    ks.dedup();
    for &k in &ks {
        add(&mut fam, format!("prefix 0..{}", k), from_fn(&|i| i < k));
    }
    let mut ss: Vec<usize> = vec![1, 63, 64, bits.saturating_sub(64), bits - 1];
    ss.retain(|&k| k > 0 && k < bits);
    ss.sort();
    ss.dedup();
    for &k in &ss {
        add(&mut fam, format!("suffix {}..{}", k, bits), from_fn(&|i| i >= k));
    }
    add(&mut fam, "even indices".into(), from_fn(&|i| i % 2 == 0));
    add(&mut fam, "odd indices".into(), from_fn(&|i| i % 2 == 1));
    add(&mut fam, "multiples of 3".into(), from_fn(&|i| i % 3 == 0));
    add(&mut fam, "even words full".into(), from_fn(&|i| (i / 64) % 2 == 0));
    add(&mut fam, "bit 0 of every word".into(), from_fn(&|i| i % 64 == 0));
    add(&mut fam, "bit 63 of every word".into(), from_fn(&|i| i % 64 == 63));
    add(&mut fam, "bits 0 and 63 of every word".into(), from_fn(&|i| at_word_boundary(i)));
    add(&mut fam, "all but the boundary positions".into(), from_fn(&|i| !bnd.contains(&i)));
    add(&mut fam, "alternating nibbles".into(), from_fn(&|i| (i / 4) % 2 == 0));
    // random members, fixed per N (independent of --seed so that <N>:<i>:<j> names a pair for good)
    let mut k = 0u64;
    let mut randoms = 0usize;
    let mut target_extra = extra_random;
    loop {
        let need_base = fam.len() < FAMILY_MIN || randoms < FAMILY_MIN_RANDOM;
        if !need_base {
            if target_extra == 0 {
                break;
            }
            target_extra -= 1;
        }
        // draw until a new set appears (duplicates are practically impossible beyond tiny densities)
        loop {
            let mut rng = Rng::new(mix(&[0xB175_E7, n_words as u64, k]));
            let (num, den) = [(1u64, 2u64), (1, 2), (1, 8), (7, 8), (1, 32), (31, 32)][(k % 6) as usize];
            let m: Vec<bool> = (0..bits).map(|_| rng.chance(num, den)).collect();
            let name = format!("random #{} (density {}/{})", k, num, den);
            k += 1;
            if add(&mut fam, name, m) {
                break;
            }
        }
        randoms += 1;
    }
    fam
}

/// One ordered pair (A, B) of family sets: the three operators, their assigning forms, complement.
fn run_pair<const N: usize>(fam: &[(String, Vec<bool>)], i: usize, j: usize, rep: &mut Report, verbose: bool) {
    let bits = 64 * N;
    let replay = vec!["--mode".to_string(), "pairwise".to_string(), "--case".to_string(), format!("{}:{}:{}", N, i, j)];
    rep.inc("evaluations");
    rep.inc(&format!("pairs_N{}", N));
    let (name_a, ma) = (&fam[i].0, &fam[i].1);
    let (name_b, mb) = (&fam[j].0, &fam[j].1);
    if verbose {
        eprintln!("pair N={} ({} bits)\n  a = #{} {} = {}\n  b = #{} {} = {}", N, bits, i, name_a, short(&model_indices(ma)), j, name_b, short(&model_indices(mb)));
    }
    let current = std::cell::RefCell::new(String::from("construction"));
    let r = catch(|| {
        let salt = i * 31 + j;
        let mut step = 0usize;
        let mut check = |what: &str, b: &Bitset<N>, m: &[bool], rep: &mut Report| {
            step += 1;
            rep.inc("pair_results_checked");
            let fails = verify(b, m, salt + step, rep);
            if verbose {
                eprintln!("  {:<28} expected {} elements {}: {}", what, m.iter().filter(|&&x| x).count(), short(&model_indices(m)[..model_indices(m).len().min(16)]), if fails.is_empty() { "ok" } else { "VIOLATION" });
                for f in &fails {
                    eprintln!("      VIOLATION {}: got {} want {}", f.check, f.got, f.want);
                }
            }
            if !fails.is_empty() {
                let base = Json::obj()
                    .set("N", N)
                    .set("what", "the result of an operation on two family sets is observed to differ from the set-theoretic result")
                    .set("operation", what)
                    .set("history", vec![format!("a = set {} built by set calls", name_a), format!("b = set {} built by set calls", name_b), what.to_string()])
                    .set("a", model_set_json(ma))
                    .set("b", model_set_json(mb))
                    .set("model_set", model_set_json(m));
                report_fails(rep, N, fails, &base, &replay);
            }
        };
        let a: Bitset<N> = build(ma);
        let b: Bitset<N> = build(mb);
        check("a (built by set calls)", &a, ma, rep);
        check("b (built by set calls)", &b, mb, rep);
        for op in BINS {
            let want: Vec<bool> = (0..bits).map(|x| op.on(ma[x], mb[x])).collect();
            let what = format!("&a {} &b", op.sym());
            *current.borrow_mut() = what.clone();
            let r: Bitset<N> = match op {
                Bin::And => lib!(&a & &b),
                Bin::Or => lib!(&a | &b),
                Bin::Xor => lib!(&a ^ &b),
            };
            check(&what, &r, &want, rep);
            rep.inc(&format!("op_{}", op.name()));
            rep.see_str("op_kinds", op.name());
            let what = format!("c = a.clone(); c {}= &b", op.sym());
            *current.borrow_mut() = what.clone();
            let mut c: Bitset<N> = lib!(a.clone());
            match op {
                Bin::And => lib!(c &= &b),
                Bin::Or => lib!(c |= &b),
                Bin::Xor => lib!(c ^= &b),
            }
            check(&what, &c, &want, rep);
            rep.inc(&format!("op_{}", op.assign_name()));
            rep.see_str("op_kinds", op.assign_name());
        }
        let want: Vec<bool> = ma.iter().map(|&x| !x).collect();
        *current.borrow_mut() = "!a.clone()".into();
        let r: Bitset<N> = lib!(!(a.clone()));
        check("!a.clone()", &r, &want, rep);
        let want: Vec<bool> = mb.iter().map(|&x| !x).collect();
        *current.borrow_mut() = "!b.clone()".into();
        let r: Bitset<N> = lib!(!(b.clone()));
        check("!b.clone()", &r, &want, rep);
        rep.count("op_not", 2);
        rep.see_str("op_kinds", "not");
        // the operands themselves are untouched by all of the above
        *current.borrow_mut() = "operands after all operations".into();
        check("a after all operations", &a, ma, rep);
        check("b after all operations", &b, mb, rep);
    });
    // non-trivial pair: two different non-empty, non-full operands
    let ca = ma.iter().filter(|&&x| x).count();
    let cb = mb.iter().filter(|&&x| x).count();
    if i != j && ca > 0 && cb > 0 && ca < bits && cb < bits {
        rep.see("nontrivial", mix(&[0x9A1B, N as u64, i as u64, j as u64]));
    }
    if i + 1 == fam.len() && j == 2 && rep.wants_sample() {
        let and_size = (0..bits).filter(|&x| ma[x] && mb[x]).count();
        let xor_size = (0..bits).filter(|&x| ma[x] != mb[x]).count();
        rep.sample(
            Json::obj()
                .set("N", N)
                .set("pair", format!("a = #{} {}, b = #{} {}", i, name_a, j, name_b))
                .set("sizes_a_b_and_or_xor_nota", vec![ca, cb, and_size, ca + cb - and_size, xor_size, bits - ca])
                .set("all_observers_agreed", true),
        );
    }
    if let Err(p) = r {
        if p.in_lib {
            if verbose {
                eprintln!("      VIOLATION panic in the library: {} at {}:{}", p.msg, p.file, p.line);
            }
            rep.violation(
                format!("panic:N{}", N),
                Json::obj()
                    .set("N", N)
                    .set("what", "the library panicked on a lawful operation")
                    .set("panic", p.msg.as_str())
                    .set("at", format!("{}:{}", p.file, p.line))
                    .set("history", vec![format!("a = set {} built by set calls", name_a), format!("b = set {} built by set calls", name_b), current.borrow().clone()])
                    .set("a", model_set_json(ma))
                    .set("b", model_set_json(mb)),
                replay,
            );
        } else {
            rep.inconclusive(format!("harness panic at {}:{}: {} (pair {}:{}:{})", p.file, p.line, p.msg, N, i, j));
        }
    }
}

// ------------------------------------------------------------------------------------------------

/// harness sanity (never a verdict about the library)
fn self_check(rep: &mut Report) {
    for &n in &NS {
        let bits = 64 * n;
        let q = family(n, 0);
        let t = family(n, FAMILY_EXTRA_THOROUGH);
        if q.len() < FAMILY_MIN || t.len() != q.len() + FAMILY_EXTRA_THOROUGH {
            rep.inconclusive(format!("harness self-check failed: family sizes for N={} are {} / {}", n, q.len(), t.len()));
        }
        if q.iter().zip(t.iter()).any(|(a, b)| a != b) {
            rep.inconclusive(format!("harness self-check failed: quick family is not a prefix of the thorough family for N={}", n));
        }
        if t.iter().any(|f| f.1.len() != bits) {
            rep.inconclusive(format!("harness self-check failed: family member of wrong length for N={}", n));
        }
        let bnd = boundary_positions(bits);
        if bnd.is_empty() || bnd.iter().any(|&i| i >= bits) || !bnd.contains(&(bits - 1)) || !bnd.contains(&0) {
            rep.inconclusive(format!("harness self-check failed: boundary positions for N={}", n));
        }
    }
    let m = [true, false, false, true];
    if model_string(&m) != "1001" || model_indices(&m) != vec![0, 3] {
        rep.inconclusive("harness self-check failed: model rendering");
    }
    if !(Bin::Xor.on(true, false) && !Bin::Xor.on(true, true) && Bin::Or.on(false, true) && !Bin::And.on(true, false)) {
        rep.inconclusive("harness self-check failed: model operators");
    }
}

fn run_history_dyn(n: usize, case_seed: u64, rep: &mut Report, verbose: bool) {
    dispatch!(n, run_history(case_seed, rep, verbose))
}

fn run_pair_dyn(n: usize, fam: &[(String, Vec<bool>)], i: usize, j: usize, rep: &mut Report, verbose: bool) {
    dispatch!(n, run_pair(fam, i, j, rep, verbose))
}

// ------------------------------------------------------------------------------------------------
// one giant capacity (2^26 words = 2^32 indices, 512 MiB): positions up to 2^32 - 1, and an iterator whose internal
// position reaches 2^32 at the end of the last word. The model is the sorted
// list of members; runs on a thread with a stack large enough to hold a few such values.

const GIANT: usize = 1 << 26;

fn run_giant(rep: &mut Report) {
    rep.inc("evaluations");
    rep.see_str("nontrivial", "giant");
    let replay = vec!["--mode".to_string(), "giant".to_string()];
    let r = std::thread::Builder::new()
        .stack_size(6usize << 30)
        .spawn(|| -> Result<(u64, Vec<String>), String> {
          let caught = catch(|| -> Result<(u64, Vec<String>), String> {
            let mut bad: Vec<String> = Vec::new();
            let mut b: Box<Bitset<GIANT>> = Box::new(lib!(Bitset::<GIANT>::new()));
            let bits = 64 * GIANT;
            let mut members: Vec<usize> = vec![5, 63, 64, 1 << 31, (1 << 31) + 1, 4_000_000_000, bits - 129, bits - 65, bits - 64, bits - 1];
            for &i in &members {
                lib!(b.set(i));
            }
            members.sort_unstable();
            let mut checks = 0u64;
            let got: Vec<usize> = lib!(b.iter_bits().take(members.len() + 3).collect());
            checks += 1;
            if got != members {
                bad.push(format!("iter_bits yields {:?}, members are {:?}", got, members));
            }
            let c = lib!(b.count());
            checks += 1;
            if c != members.len() {
                bad.push(format!("count() = {}, want {}", c, members.len()));
            }
            for &i in &members {
                checks += 3;
                if !lib!(b.test(i)) {
                    bad.push(format!("test({}) is false for a member", i));
                }
                if i + 1 < bits && !members.contains(&(i + 1)) && lib!(b.test(i + 1)) {
                    bad.push(format!("test({}) is true for a non-member", i + 1));
                }
                if i >= 1 << 31 && !members.contains(&(i - (1 << 31))) && lib!(b.test(i - (1 << 31))) {
                    bad.push(format!("test({}) is true (alias of member {} modulo 2^31)", i - (1 << 31), i));
                }
            }
            lib!(b.remove(1 << 31));
            lib!(b.flip((1 << 31) + 2));
            members.retain(|&i| i != 1 << 31);
            members.push((1 << 31) + 2);
            members.sort_unstable();
            let got: Vec<usize> = lib!(b.iter_bits().skip(3).take(members.len()).collect());
            checks += 1;
            if got[..] != members[3..] {
                bad.push(format!("after remove / flip beyond 2^31: iter_bits().skip(3) yields {:?}, want {:?}", got, &members[3..]));
            }
            let last = lib!(b.iter_bits().last());
            checks += 1;
            if last != members.last().cloned() {
                bad.push(format!("iter_bits().last() = {:?}, want {:?}", last, members.last()));
            }
            // a second set whose last member is far from the end: the iterator has to walk empty words up to (and its
            // internal position past) index 2^32 before it may stop
            lib!(b.clear());
            let sparse = vec![5usize, 63, 64, 4_000_000_000];
            for &i in &sparse {
                lib!(b.set(i));
            }
            let got: Vec<usize> = lib!(b.iter_bits().take(sparse.len() + 4).collect());
            checks += 1;
            if got != sparse {
                bad.push(format!("sparse set: iter_bits yields {:?}, members are {:?}", got, sparse));
            }
            if !bad.is_empty() {
                // the unbounded calls below may not terminate on an iterator that is already known to be wrong
                return Ok((checks, bad));
            }
            let (c, last) = (lib!(b.iter_bits().count()), lib!(b.iter_bits().nth(3)));
            checks += 2;
            if c != sparse.len() || last != Some(4_000_000_000) {
                bad.push(format!("sparse set: iter_bits().count() = {}, nth(3) = {:?}", c, last));
            }
            lib!(b.clear());
            let none: Vec<usize> = lib!(b.iter_bits().take(3).collect());
            checks += 1;
            if !none.is_empty() {
                bad.push(format!("empty giant set: iter_bits yields {:?}", none));
            }
            Ok((checks, bad))
          });
          match caught {
              Ok(r) => r,
              Err(p) => {
                  if p.in_lib {
                      Ok((0, vec![format!("the library panicked on a lawful call: {} at {}:{}", p.msg, p.file, p.line)]))
                  } else {
                      Err(format!("harness panic at {}:{}: {}", p.file, p.line, p.msg))
                  }
              }
          }
        })
        .map_err(|e| e.to_string())
        .and_then(|h| h.join().map_err(|_| "the thread working on the giant bitset panicked".to_string()));
    match r {
        Ok(Ok((checks, bad))) => {
            rep.count("giant_capacity_checks", checks);
            if !bad.is_empty() {
                rep.violation(
                    "giant:N67108864",
                    Json::obj().set("what", "a bitset of 2^26 words (indices up to 2^32 and beyond) disagrees with its member list").set("problems", Json::from(bad)),
                    replay,
                );
            }
        }
        Ok(Err(e)) => rep.inconclusive(format!("giant capacity: {}", e)),
        Err(e) => {
            // a panic inside the library on lawful calls is a violation; the payload was swallowed by join, so say so
            rep.violation("panic:giant", Json::obj().set("what", "a lawful operation on a bitset of 2^26 words panicked").set("note", e), replay);
        }
    }
}

// ------------------------------------------------------------------------------------------------
// first use: anything the library sets up lazily the first time it renders / counts / iterates is set up once per
// process. A fresh child process releases 12 threads from a spin barrier into their very first calls; the parent
// repeats that many times. Every thread compares what it gets with the model of its own bitset.

fn firstuse_child() -> i32 {
    use std::sync::atomic::{AtomicUsize, Ordering};
    use std::sync::Arc;
    let threads = 12usize;
    let arrived = Arc::new(AtomicUsize::new(0));
    let hs: Vec<_> = (0..threads)
        .map(|t| {
            let arrived = arrived.clone();
            std::thread::spawn(move || -> Vec<String> {
                let mut model = vec![false; 64 * 10];
                let mut x = 0x9E37u64.wrapping_mul(t as u64 + 1);
                for _ in 0..40 {
                    x = x.wrapping_mul(6364136223846793005).wrapping_add(1442695040888963407);
                    model[(x >> 33) as usize % 640] = true;
                }
                let want_s = model_string(&model);
                let want_idx = model_indices(&model);
                arrived.fetch_add(1, Ordering::SeqCst);
                while arrived.load(Ordering::SeqCst) < threads {
                    std::hint::spin_loop();
                }
                // everything from here on is this thread's first call into the library
                let b: Bitset<10> = build::<10>(&model);
                let mut bad = Vec::new();
                let s = format!("{}", b);
                if s != want_s {
                    bad.push(format!("thread {}: Display differs from the member set (first rendering in this process)", t));
                }
                let d = format!("{:?}", b);
                if !d.contains(&want_s) && d != want_s {
                    // Debug is only required to be consistent with Display where the crate makes it so: not judged
                }
                if b.count() != want_idx.len() {
                    bad.push(format!("thread {}: count() = {} want {}", t, b.count(), want_idx.len()));
                }
                let it: Vec<usize> = b.iter_bits().collect();
                if it != want_idx {
                    bad.push(format!("thread {}: iter_bits differs from the member set", t));
                }
                let c = !b.clone();
                if c.count() != 640 - want_idx.len() {
                    bad.push(format!("thread {}: complement count {}", t, c.count()));
                }
                bad
            })
        })
        .collect();
    let mut rc = 0;
    for h in hs {
        match h.join() {
            Ok(bad) => {
                for l in bad {
                    println!("FIRSTUSE-BAD {}", l);
                    rc = 1;
                }
            }
            Err(_) => {
                println!("FIRSTUSE-BAD a thread panicked");
                rc = 1;
            }
        }
    }
    println!("FIRSTUSE-DONE");
    rc
}

fn run_firstuse(rep: &mut Report, runs: usize) {
    let exe = match std::env::current_exe() {
        Ok(e) => e,
        Err(e) => {
            rep.inconclusive(format!("first use: cannot find the engine binary: {}", e));
            return;
        }
    };
    let mut failed = 0usize;
    for k in 0..runs {
        rep.inc("evaluations");
        let o = std::process::Command::new(&exe).arg("--mode").arg("firstuse-child").output();
        let o = match o {
            Ok(o) => o,
            Err(_) => {
                failed += 1;
                continue;
            }
        };
        let text = String::from_utf8_lossy(&o.stdout).to_string();
        if !text.contains("FIRSTUSE-DONE") {
            failed += 1;
            continue;
        }
        rep.inc("first_use_processes");
        let bad: Vec<String> = text.lines().filter(|l| l.starts_with("FIRSTUSE-BAD")).map(|l| l.to_string()).collect();
        if !bad.is_empty() {
            rep.violation(
                "first_use:N10",
                Json::obj()
                    .set("what", "threads whose first library calls happen at the same moment in a fresh process get results that differ from their own member sets")
                    .set("process", k)
                    .set("problems", Json::from(bad)),
                vec!["--mode".to_string(), "firstuse".to_string()],
            );
            break;
        }
    }
    if failed > runs / 10 {
        rep.inconclusive(format!("first use: {} of {} child processes failed to run", failed, runs));
    }
}

fn main() {
    let eng = Engine::start("bitmon");
    let a = &eng.args;
    let mode = a.str("mode", "all");
    if !["all", "random", "pairwise", "giant", "firstuse", "firstuse-child"].contains(&mode.as_str()) {
        panic!("unknown mode {}", mode);
    }
    let thorough = a.thorough();
    let seed = a.seed();
    let mut report = Report::new();
    self_check(&mut report);
    report.extra("mode", mode.as_str());
    report.extra("capacities_N", NS.to_vec());
    report.extra("exhaustive", false);
    report.extra(
        "nontrivial_rule",
        "random history: at least one of set/remove/flip/set_batch/clear/from_u64 and at least one binary operator (plain or assigning); pair: two different operands, both neither empty nor full",
    );

    if let Some(case) = a.opt("case") {
        let parts: Vec<&str> = case.split(':').collect();
        let mut rep = Report::new();
        if mode == "pairwise" {
            assert!(parts.len() == 3, "case = <N>:<i>:<j>");
            let n: usize = parts[0].parse().expect("N");
            let i: usize = parts[1].parse().expect("i");
            let j: usize = parts[2].parse().expect("j");
            assert!(NS.contains(&n), "N must be one of {:?}", NS);
            let fam = family(n, FAMILY_EXTRA_THOROUGH);
            assert!(i < fam.len() && j < fam.len(), "family of N={} has {} members", n, fam.len());
            run_pair_dyn(n, &fam, i, j, &mut rep, true);
        } else {
            assert!(parts.len() == 2, "case = <N>:<case_seed>");
            let n: usize = parts[0].parse().expect("N");
            let cs: u64 = parts[1].parse().expect("case_seed");
            assert!(NS.contains(&n), "N must be one of {:?}", NS);
            run_history_dyn(n, cs, &mut rep, true);
        }
        report.merge(rep);
        eng.finish(report);
    }

    if mode == "firstuse-child" {
        std::process::exit(firstuse_child());
    }
    if mode == "all" || mode == "firstuse" {
        let mut rep = Report::new();
        run_firstuse(&mut rep, if thorough { 400 } else { 60 });
        report.merge(rep);
    }
    if (mode == "all" || mode == "giant") && !cfg!(debug_assertions) {
        let mut rep = Report::new();
        run_giant(&mut rep);
        report.merge(rep);
    }
    if mode == "all" || mode == "random" {
        let per_n: u64 = a.u64("histories-per-n", if thorough { 210_000 } else { 7_000 });
        let total = per_n * NS.len() as u64;
        let q = WorkQueue::new(total);
        let rep = common::run_sharded(a.threads(), |_shard, rep| {
            rep.sample_cap = 1;
            while let Some((lo, hi)) = q.take_block(24) {
                for idx in lo..hi {
                    let n = NS[(idx % NS.len() as u64) as usize];
                    let k = idx / NS.len() as u64;
                    // the large capacities cost proportionally more per observation: a quarter of the histories
                    if n > 17 && k % 8 != 0 {
                        continue;
                    }
                    // 32 KiB bitsets (a per-word counter of 16 bits is full after 4096 words): a handful of histories
                    if n >= 1024 && k % 3500 != 0 {
                        continue;
                    }
                    let case_seed = mix(&[seed, 0xC12, n as u64, k]);
                    run_history_dyn(n, case_seed, rep, false);
                }
            }
        });
        report.merge(rep);
        report.extra("histories_per_N", per_n);
        report.extra("max_history_length", MAX_OPS);
    }

    if mode == "all" || mode == "pairwise" {
        let fams: Vec<Vec<(String, Vec<bool>)>> = NS.iter().map(|&n| family(n, if thorough { FAMILY_EXTRA_THOROUGH } else { 0 })).collect();
        // flatten (N, i, j)
        let mut offsets: Vec<u64> = Vec::new();
        let mut total = 0u64;
        for f in &fams {
            offsets.push(total);
            total += (f.len() * f.len()) as u64;
        }
        let q = WorkQueue::new(total);
        let fams = &fams;
        let offsets = &offsets;
        let rep = common::run_sharded(a.threads(), |_shard, rep| {
            rep.sample_cap = 1;
            while let Some((lo, hi)) = q.take_block(16) {
                for idx in lo..hi {
                    // largest capacities first (they are the expensive ones)
                    let idx = total - 1 - idx;
                    let ni = (0..NS.len()).rev().find(|&t| offsets[t] <= idx).unwrap();
                    let k = (idx - offsets[ni]) as usize;
                    let f = &fams[ni];
                    // the 32 KiB capacity: every member against itself, the empty and the full set, and a tenth of the rest
                    if NS[ni] >= 1024 && !(k / f.len() == k % f.len() || k / f.len() < 2 || k % f.len() < 2 || k % 40 == 0) {
                        continue;
                    }
                    run_pair_dyn(NS[ni], f, k / f.len(), k % f.len(), rep, false);
                }
            }
        });
        report.merge(rep);
        report.extra("pairwise_family_sizes", Json::from(fams.iter().map(|f| f.len()).collect::<Vec<_>>()));
        report.extra("pairwise_family_N3", Json::from(fams[2].iter().map(|f| f.0.clone()).take(44).collect::<Vec<_>>()));
    }
    eng.finish(report);
}
