//! geomon - runtime monitor for the geometry helpers (C10): every reported intersection point lies on
//! both primitives (1e-7), and the reported kind agrees with exact geometry wherever the configuration is
//! not within the library's 1e-9 tolerance of a boundary between kinds (guard band: asserted only for
//! margin exactly 0, |margin| <= 1e-10, or |margin| >= 1e-8; in between the case is "gray" and only the
//! point residuals are checked).
//!
//! modes: lattice  integer configurations (classification decided exactly in i128, exact tangencies through
//!                 Pythagorean normals / offsets)
//!        real     random real-valued configurations, constructed tangencies, margin sweeps at every boundary
//! replay: --mode <m> --case <case_seed>

use common::{catch, lib, mix, Engine, Json, Report, Rng, WorkQueue};
use rlib_geometry::circle::{Circle, PointPosition};
use rlib_geometry::line::Line;
use rlib_geometry::point::Point;
use rlib_geometry::util::{intersect_cc, intersect_cl, intersect_ll, CircleIntersection, CircleLineIntersection};

const ON: f64 = 1e-7; // a returned point must be this close to each primitive
const TAN: f64 = 1e-10; // |margin| <= TAN: tangent kind asserted
const CLEAR: f64 = 1e-8; // |margin| >= CLEAR: non-tangent kind asserted

#[derive(Clone, Copy, Debug)]
struct P2 {
    x: f64,
    y: f64,
}

/// a line given the way the caller gives it: two defining points or three coefficients
#[derive(Clone, Copy, Debug)]
enum LineDef {
    Points(P2, P2),
    Coef(f64, f64, f64),
}

impl LineDef {
    fn build(&self) -> Line {
        match *self {
            LineDef::Points(p, q) => lib!(Line::between(&Point::new(p.x, p.y), &Point::new(q.x, q.y))),
            LineDef::Coef(a, b, c) => lib!(Line::new(a, b, c)),
        }
    }
    /// signed distance of a point from the line, computed from the definition (never from the library's
    /// normalised coefficients)
    fn sdist(&self, p: P2) -> f64 {
        match *self {
            LineDef::Points(u, v) => {
                let (dx, dy) = (v.x - u.x, v.y - u.y);
                (dx * (p.y - u.y) - dy * (p.x - u.x)) / dx.hypot(dy)
            }
            LineDef::Coef(a, b, c) => (a * p.x + b * p.y + c) / a.hypot(b),
        }
    }
    fn dir(&self) -> P2 {
        match *self {
            LineDef::Points(u, v) => P2 { x: v.x - u.x, y: v.y - u.y },
            LineDef::Coef(a, b, _) => P2 { x: -b, y: a },
        }
    }
}

#[derive(Clone, Copy, Debug, PartialEq)]
enum Want {
    Gray,
    NoPoint,
    Tangent,
    TangentIn,
    TangentOut,
    Two,
    Same,
}

fn class3(margin: f64, exact_zero: bool) -> i32 {
    // -1 clearly negative, 0 tangent, +1 clearly positive, 9 gray
    if exact_zero || margin.abs() <= TAN {
        0
    } else if margin >= CLEAR {
        1
    } else if margin <= -CLEAR {
        -1
    } else {
        9
    }
}

struct Cx<'a> {
    rep: &'a mut Report,
    replay: Vec<String>,
    verbose: bool,
    family: String,
}

impl Cx<'_> {
    fn violation(&mut self, sig: &str, d: Json) {
        let d = d.set("family", self.family.as_str());
        self.rep.violation(sig.to_string(), d, self.replay.clone());
    }
}

fn pj(p: P2) -> Json {
    Json::Arr(vec![Json::Float(p.x), Json::Float(p.y)])
}

fn pp(p: &Point) -> P2 {
    P2 { x: p.x, y: p.y }
}

// ------------------------------------------------------------------------------------------------
// circle - line

fn judge_cl(cx: &mut Cx, c: P2, r: f64, ld: LineDef, margin: f64, exact_zero: bool) {
    // margin = dist(centre, line) - r
    cx.rep.inc("evaluations");
    cx.rep.inc("circle_line_cases");
    let want = match class3(margin, exact_zero) {
        0 => Want::Tangent,
        1 => Want::NoPoint,
        -1 => Want::Two,
        _ => Want::Gray,
    };
    cx.rep.inc(&format!("cl_want_{:?}", want));
    let circle = lib!(Circle::new(Point::new(c.x, c.y), r));
    let line = ld.build();
    let got = lib!(intersect_cl(&circle, &line));
    let (kind, pts): (Want, Vec<P2>) = match &got {
        CircleLineIntersection::None => (Want::NoPoint, vec![]),
        CircleLineIntersection::Touch(p) => (Want::Tangent, vec![pp(p)]),
        CircleLineIntersection::Intersect(p, q) => (Want::Two, vec![pp(p), pp(q)]),
    };
    // IntoIterator yields the same points, from either end and through any mix of iterator calls
    {
        let want_bits: Vec<(u64, u64)> = pts.iter().map(|p| (p.x.to_bits(), p.y.to_bits())).collect();
        let mut r = Rng::new(common::mix(&[want_bits.len() as u64, c.x.to_bits(), r.to_bits()]));
        let again = lib!(intersect_cl(&circle, &line));
        if let Err(e) = common::iter_protocol_de(again.into_iter().map(|p| (p.x.to_bits(), p.y.to_bits())), &want_bits, &mut r, 6) {
            cx.violation("cl_into_iter", Json::obj().set("what", "IntoIterator of CircleLineIntersection, driven from both ends, does not yield exactly the reported points").set("script", e));
        }
    }
    let it: Vec<P2> = got.into_iter().map(|p| pp(&p)).collect();
    if it.len() != pts.len() {
        cx.violation("cl_into_iter", Json::obj().set("what", "IntoIterator of CircleLineIntersection yields a different number of points"));
    }
    let detail = |what: &str| {
        Json::obj()
            .set("what", what)
            .set("centre", pj(c))
            .set("r", r)
            .set("line", format!("{:?}", ld))
            .set("margin_dist_minus_r", margin)
            .set("exactly_tangent", exact_zero)
            .set("got_kind", format!("{:?}", kind))
            .set("got_points", Json::Arr(pts.iter().map(|p| pj(*p)).collect()))
    };
    for p in &pts {
        cx.rep.inc("points_checked");
        let rc = ((p.x - c.x).hypot(p.y - c.y) - r).abs();
        let rl = ld.sdist(*p).abs();
        cx.rep.max("worst_point_residual_x1e12", ((rc.max(rl)) * 1e12).min(9e18) as i64);
        if !(rc <= ON) || !(rl <= ON) {
            let sig = if kind == Want::Tangent { "cl_touch_point_off_objects" } else { "cl_point_off_objects" };
            let d = detail("a reported circle-line intersection point does not lie on both the circle and the line")
                .set("residual_on_circle", rc)
                .set("residual_on_line", rl);
            cx.violation(sig, d);
            break;
        }
    }
    if want != Want::Gray && kind != want {
        let sig = format!("cl_kind:want_{:?}_got_{:?}", want, kind).to_lowercase();
        cx.violation(&sig, detail("the reported kind of circle-line contact disagrees with exact geometry outside the tolerance band").set("want_kind", format!("{:?}", want)));
    }
    if kind == Want::Two && pts.len() == 2 && want == Want::Two {
        // two distinct points (they are 2*sqrt(r^2-d^2) apart)
        let dd = (pts[0].x - pts[1].x).hypot(pts[0].y - pts[1].y);
        let d0 = margin + r;
        let chord = 2.0 * (r * r - d0 * d0).max(0.0).sqrt();
        if (dd - chord).abs() > 1e-6 * (1.0 + chord) {
            cx.violation("cl_chord_length", detail("the two reported points are not a chord of the right length").set("got_chord", dd).set("want_chord", chord));
        }
    }
    // Line::contains / Circle::position on the reported points and on the centre
    if cx.verbose {
        eprintln!("  circle-line margin {:e} want {:?} got {:?} {:?}", margin, want, kind, pts);
    }
}

// ------------------------------------------------------------------------------------------------
// circle - circle

#[allow(clippy::too_many_arguments)]
fn judge_cc(cx: &mut Cx, c1: P2, r1: f64, c2: P2, r2: f64, m_out: f64, m_in: f64, z_out: bool, z_in: bool, identical: bool, near_identical: bool) {
    // m_out = d - (r1 + r2), m_in = d - |r1 - r2|
    cx.rep.inc("evaluations");
    cx.rep.inc("circle_circle_cases");
    let want = if identical {
        Want::Same
    } else if near_identical {
        Want::Gray
    } else {
        let co = class3(m_out, z_out);
        let ci = class3(m_in, z_in);
        if co == 0 {
            Want::TangentOut
        } else if ci == 0 {
            Want::TangentIn
        } else if co == 1 || ci == -1 {
            Want::NoPoint
        } else if co == -1 && ci == 1 {
            Want::Two
        } else {
            Want::Gray
        }
    };
    cx.rep.inc(&format!("cc_want_{:?}", want));
    let a = lib!(Circle::new(Point::new(c1.x, c1.y), r1));
    let b = lib!(Circle::new(Point::new(c2.x, c2.y), r2));
    for order in 0..2 {
        let got = if order == 0 { lib!(intersect_cc(&a, &b)) } else { lib!(intersect_cc(&b, &a)) };
        let (kind, pts): (Want, Vec<P2>) = match &got {
            CircleIntersection::None => (Want::NoPoint, vec![]),
            CircleIntersection::Same => (Want::Same, vec![]),
            CircleIntersection::TouchInside(p) => (Want::TangentIn, vec![pp(p)]),
            CircleIntersection::TouchOutside(p) => (Want::TangentOut, vec![pp(p)]),
            CircleIntersection::Intersect(p, q) => (Want::Two, vec![pp(p), pp(q)]),
        };
        {
            let want_bits: Vec<(u64, u64)> = pts.iter().map(|p| (p.x.to_bits(), p.y.to_bits())).collect();
            let mut r = Rng::new(common::mix(&[want_bits.len() as u64, c1.x.to_bits(), r2.to_bits(), order as u64]));
            let again = if order == 0 { lib!(intersect_cc(&a, &b)) } else { lib!(intersect_cc(&b, &a)) };
            if let Err(e) = common::iter_protocol_de(again.into_iter().map(|p| (p.x.to_bits(), p.y.to_bits())), &want_bits, &mut r, 6) {
                cx.violation("cc_into_iter", Json::obj().set("what", "IntoIterator of CircleIntersection, driven from both ends, does not yield exactly the reported points").set("script", e));
            }
        }
        let it: Vec<P2> = got.into_iter().map(|p| pp(&p)).collect();
        if it.len() != pts.len() {
            cx.violation("cc_into_iter", Json::obj().set("what", "IntoIterator of CircleIntersection yields a different number of points"));
        }
        let detail = |what: &str| {
            Json::obj()
                .set("what", what)
                .set("c1", pj(c1))
                .set("r1", r1)
                .set("c2", pj(c2))
                .set("r2", r2)
                .set("argument_order", if order == 0 { "(1,2)" } else { "(2,1)" })
                .set("margin_d_minus_sum", m_out)
                .set("margin_d_minus_absdiff", m_in)
                .set("got_kind", format!("{:?}", kind))
                .set("got_points", Json::Arr(pts.iter().map(|p| pj(*p)).collect()))
        };
        for p in &pts {
            cx.rep.inc("points_checked");
            let ra = ((p.x - c1.x).hypot(p.y - c1.y) - r1).abs();
            let rb = ((p.x - c2.x).hypot(p.y - c2.y) - r2).abs();
            cx.rep.max("worst_point_residual_x1e12", ((ra.max(rb)) * 1e12).min(9e18) as i64);
            if !(ra <= ON) || !(rb <= ON) {
                let d = detail("a reported circle-circle intersection point does not lie on both circles").set("residual_on_circle_1", ra).set("residual_on_circle_2", rb);
                cx.violation("cc_point_off_objects", d);
                break;
            }
        }
        if want != Want::Gray && kind != want {
            let sig = format!("cc_kind:want_{:?}_got_{:?}", want, kind).to_lowercase();
            cx.violation(&sig, detail("the reported kind of circle-circle contact disagrees with exact geometry outside the tolerance band").set("want_kind", format!("{:?}", want)));
        }
        if cx.verbose {
            eprintln!("  circle-circle m_out {:e} m_in {:e} want {:?} got {:?} {:?}", m_out, m_in, want, kind, pts);
        }
    }
}

// ------------------------------------------------------------------------------------------------
// line - line

fn judge_ll(cx: &mut Cx, l1: LineDef, l2: LineDef, parallel: Option<bool>, inside_box: bool) {
    // parallel: Some(true) exactly parallel, Some(false) clearly not parallel, None gray
    cx.rep.inc("evaluations");
    cx.rep.inc("line_line_cases");
    let a = l1.build();
    let b = l2.build();
    let got = lib!(intersect_ll(&a, &b));
    let detail = |what: &str| Json::obj().set("what", what).set("line1", format!("{:?}", l1)).set("line2", format!("{:?}", l2)).set("got", format!("{:?}", got));
    match parallel {
        Some(true) => {
            cx.rep.inc("ll_parallel");
            if got.is_some() {
                cx.violation("ll_kind:parallel_lines_intersect", detail("parallel lines are reported to intersect"));
            }
        }
        Some(false) => {
            cx.rep.inc("ll_crossing");
            match got {
                None => cx.violation("ll_kind:crossing_lines_do_not_intersect", detail("clearly non-parallel lines are reported not to intersect")),
                Some(p) => {
                    if inside_box {
                        cx.rep.inc("points_checked");
                        let p = pp(&p);
                        let (d1, d2) = (l1.sdist(p).abs(), l2.sdist(p).abs());
                        cx.rep.max("worst_point_residual_x1e12", ((d1.max(d2)) * 1e12).min(9e18) as i64);
                        if !(d1 <= ON) || !(d2 <= ON) {
                            cx.violation("ll_point_off_objects", detail("the reported line-line intersection point does not lie on both lines").set("residual_on_line_1", d1).set("residual_on_line_2", d2));
                        }
                    }
                }
            }
        }
        None => {
            cx.rep.inc("ll_gray");
        }
    }
}

// ------------------------------------------------------------------------------------------------
// point classification: Circle::position and Line::contains

fn judge_position(cx: &mut Cx, c: P2, r: f64, p: P2, margin: f64, exact_zero: bool) {
    // margin = dist(p, centre) - r. The library applies its 1e-9 relative to the radius; "the same tolerance" can be
    // read as absolute or relative, so a class is asserted only where both readings agree.
    cx.rep.inc("evaluations");
    cx.rep.inc("position_cases");
    let want = if exact_zero || margin.abs() <= TAN.min(TAN * r) {
        Some(PointPosition::Border)
    } else if margin >= CLEAR.max(CLEAR * r) {
        Some(PointPosition::Outside)
    } else if margin <= -(CLEAR.max(CLEAR * r)) {
        Some(PointPosition::Inside)
    } else {
        None
    };
    let circle = lib!(Circle::new(Point::new(c.x, c.y), r));
    let got = lib!(circle.position(&Point::new(p.x, p.y)));
    match want {
        None => cx.rep.inc("position_gray"),
        Some(w) => {
            cx.rep.inc(&format!("position_want_{:?}", w));
            if got != w {
                let sig = format!("position:want_{:?}_got_{:?}", w, got).to_lowercase();
                cx.violation(&sig, Json::obj().set("what", "Circle::position disagrees with exact geometry outside the tolerance band").set("centre", pj(c)).set("r", r).set("point", pj(p)).set("margin_dist_minus_r", margin));
            }
        }
    }
}

fn judge_contains(cx: &mut Cx, ld: LineDef, p: P2, dist: f64, exact_zero: bool) {
    cx.rep.inc("evaluations");
    cx.rep.inc("contains_cases");
    let want = if exact_zero || dist.abs() <= TAN {
        Some(true)
    } else if dist.abs() >= CLEAR {
        Some(false)
    } else {
        None
    };
    let line = ld.build();
    let got = lib!(line.contains(&Point::new(p.x, p.y)));
    // Line::dist must be the Euclidean distance whatever scale the coefficients were given in
    let ld_dist = lib!(line.dist(&Point::new(p.x, p.y)));
    if (ld_dist - dist.abs()).abs() > 1e-7 {
        cx.violation("line_dist", Json::obj().set("what", "Line::dist is not the Euclidean point-line distance").set("line", format!("{:?}", ld)).set("point", pj(p)).set("got", ld_dist).set("want", dist.abs()));
    }
    match want {
        None => cx.rep.inc("contains_gray"),
        Some(w) => {
            cx.rep.inc(&format!("contains_want_{}", w));
            if got != w {
                let sig = format!("contains:want_{}_got_{}", w, got);
                cx.violation(&sig, Json::obj().set("what", "Line::contains disagrees with exact geometry outside the tolerance band").set("line", format!("{:?}", ld)).set("point", pj(p)).set("distance", dist));
            }
        }
    }
}

// ------------------------------------------------------------------------------------------------
// lattice configurations (exact classification in i128)

const TRIPLES: [(i64, i64, i64); 10] = [(3, 4, 5), (4, 3, 5), (5, 12, 13), (12, 5, 13), (8, 15, 17), (15, 8, 17), (7, 24, 25), (24, 7, 25), (20, 21, 29), (21, 20, 29)];

fn f(p: (i64, i64)) -> P2 {
    P2 { x: p.0 as f64, y: p.1 as f64 }
}

/// exact margin dist - r for integer circle (x0,y0,r) and integer line a x + b y + c = 0
fn lattice_cl_margin(x0: i64, y0: i64, r: i64, a: i64, b: i64, c: i64) -> (f64, bool) {
    let n = (a as i128 * x0 as i128 + b as i128 * y0 as i128 + c as i128).abs();
    let l2 = a as i128 * a as i128 + b as i128 * b as i128;
    let num = n * n - r as i128 * r as i128 * l2; // sign of d - r
    if num == 0 {
        return (0.0, true);
    }
    let l = (l2 as f64).sqrt();
    // d - r = (n - r l)/l = num / ((n + r l) l)
    let m = num as f64 / ((n as f64 + r as f64 * l) * l);
    (m, false)
}

fn lattice_line(rng: &mut Rng, p: (i64, i64), q: (i64, i64)) -> (LineDef, i64, i64, i64) {
    let a = p.1 - q.1;
    let b = q.0 - p.0;
    let c = -(a * p.0 + b * p.1);
    let def = match rng.below(3) {
        0 => LineDef::Points(f(p), f(q)),
        1 => LineDef::Points(f(q), f(p)),
        _ => {
            let k = *rng.pick(&[1i64, -1, 2, 7, -3]);
            LineDef::Coef((a * k) as f64, (b * k) as f64, (c * k) as f64)
        }
    };
    (def, a, b, c)
}

fn run_lattice_case(case_seed: u64, rep: &mut Report, verbose: bool) {
    let mut rng = Rng::new(case_seed);
    let replay = vec!["--mode".into(), "lattice".into(), "--case".into(), format!("{}", case_seed)];
    let mut cx = Cx { rep, replay, verbose, family: String::new() };
    cx.rep.see_counted("nontrivial", 1); // case seeds are distinct by construction (mix of seed, mode, index)
    let rr = *rng.pick(&[5i64, 20, 100, 400]);
    let pt = |rng: &mut Rng| (rng.range_i64(-rr, rr), rng.range_i64(-rr, rr));
    let res = catch(|| {
        match rng.below(10) {
            0 | 1 => {
                cx.family = "lattice: random circle and line".into();
                let (x0, y0) = pt(&mut rng);
                let r = rng.range_i64(1, rr);
                let p = pt(&mut rng);
                let mut q = pt(&mut rng);
                if q == p {
                    q.0 += 1;
                }
                let (def, a, b, c) = lattice_line(&mut rng, p, q);
                let (m, z) = lattice_cl_margin(x0, y0, r, a, b, c);
                judge_cl(&mut cx, f((x0, y0)), r as f64, def, m, z);
            }
            2 | 3 => {
                cx.family = "lattice: exact circle-line tangency (Pythagorean normal or axis-parallel)".into();
                let (x0, y0) = pt(&mut rng);
                let r = rng.range_i64(1, rr);
                let (pn, qn, h) = if rng.chance(1, 4) { *rng.pick(&[(1i64, 0i64, 1i64), (0, 1, 1)]) } else { *rng.pick(&TRIPLES) };
                let sgn = if rng.chance(1, 2) { 1 } else { -1 };
                let (pn, qn) = if rng.chance(1, 2) { (pn, qn) } else { (-pn, qn) };
                let c = -(pn * x0 + qn * y0) + sgn * r * h;
                // also near misses: shift c by k to leave tangency by k/h
                let k = *rng.pick(&[0i64, 0, 0, 1, -1]);
                let c = c + k;
                // the line through two lattice points, when they exist close by
                let mut def = LineDef::Coef(pn as f64, qn as f64, c as f64);
                if rng.chance(1, 2) {
                    // find integer points on p x + q y + c = 0
                    'outer: for x in x0 - 40..=x0 + 40 {
                        let rest = -c - pn * x;
                        if qn != 0 && rest % qn == 0 {
                            let y = rest / qn;
                            let p1 = (x, y);
                            let t = *rng.pick(&[1i64, -1, 2, 3]);
                            let p2 = (x + qn * t, y - pn * t);
                            def = LineDef::Points(f(p1), f(p2));
                            break 'outer;
                        } else if qn == 0 && pn != 0 && (-c) % pn == 0 {
                            let xx = -c / pn;
                            def = LineDef::Points(f((xx, y0 - 3)), f((xx, y0 + 4)));
                            break 'outer;
                        }
                    }
                }
                let (m, z) = lattice_cl_margin(x0, y0, r, pn, qn, c);
                if z {
                    cx.rep.inc("exact_tangencies");
                }
                judge_cl(&mut cx, f((x0, y0)), r as f64, def, m, z);
            }
            4 | 5 => {
                cx.family = "lattice: random circle pair".into();
                let c1 = pt(&mut rng);
                let mut c2 = pt(&mut rng);
                if rng.chance(1, 12) {
                    c2 = c1;
                }
                let r1 = rng.range_i64(1, rr);
                let r2 = if rng.chance(1, 8) { r1 } else { rng.range_i64(1, rr) };
                lattice_cc(&mut cx, c1, r1, c2, r2);
            }
            6 | 7 => {
                cx.family = "lattice: exact circle-circle tangency (Pythagorean offset)".into();
                let c1 = pt(&mut rng);
                let (pn, qn, h) = if rng.chance(1, 4) { *rng.pick(&[(1i64, 0i64, 1i64), (0, 1, 1)]) } else { *rng.pick(&TRIPLES) };
                let t = rng.range_i64(1, 12);
                let (sx, sy) = (*rng.pick(&[1i64, -1]), *rng.pick(&[1i64, -1]));
                let c2 = (c1.0 + sx * pn * t, c1.1 + sy * qn * t);
                let d = h * t;
                let (r1, r2) = if rng.chance(1, 2) {
                    // outside: r1 + r2 = d
                    if d < 2 {
                        (1, 1)
                    } else {
                        let r1 = rng.range_i64(1, d - 1);
                        (r1, d - r1)
                    }
                } else {
                    // inside: r1 - r2 = d
                    let r2 = rng.range_i64(1, 50);
                    (r2 + d, r2)
                };
                let k = *rng.pick(&[0i64, 0, 0, 1, -1]);
                let r1 = (r1 + k).max(1);
                let (r1, r2) = if rng.chance(1, 2) { (r1, r2) } else { (r2, r1) };
                lattice_cc(&mut cx, c1, r1, c2, r2);
            }
            8 => {
                cx.family = "lattice: line pair".into();
                let p = pt(&mut rng);
                let mut q = pt(&mut rng);
                if q == p {
                    q.1 += 1;
                }
                let u = pt(&mut rng);
                let mut v = pt(&mut rng);
                let mut q = q;
                if rng.chance(1, 4) {
                    // parallel (or identical) by construction
                    let k = *rng.pick(&[1i64, -1, 2, -3]);
                    v = (u.0 + k * (q.0 - p.0), u.1 + k * (q.1 - p.1));
                } else if rng.chance(1, 3) {
                    // nearly parallel lattice lines: directions (k, 1) and (k+1, 1) have cross product -1, so the angle is
                    // about 1/k^2 - from 0.1 rad down to 1e-6 rad, far above the 1e-9 band: they must intersect
                    let k = *rng.pick(&[3i64, 10, 30, 100, 150, 300, 500, 700, 1000]);
                    let (sx, sy) = (*rng.pick(&[1i64, -1]), *rng.pick(&[1i64, -1]));
                    let swap = rng.chance(1, 2);
                    let d1 = if swap { (sy, sx * k) } else { (sx * k, sy) };
                    let d2 = if swap { (sy, sx * (k + 1)) } else { (sx * (k + 1), sy) };
                    let base = (rng.range_i64(-200, 200), rng.range_i64(-200, 200));
                    // both through `base` (intersection inside the box), the second one optionally shifted by one step
                    let sh = if rng.chance(1, 2) { (0, 0) } else { (*rng.pick(&[0i64, 1]), *rng.pick(&[0i64, 1, -1])) };
                    q = (p.0 + d1.0, p.1 + d1.1);
                    let p0 = (base.0 - d1.0 / 2, base.1 - d1.1 / 2);
                    let pq = (p0.0 + d1.0, p0.1 + d1.1);
                    let u0 = (base.0 + sh.0 - d2.0 / 2, base.1 + sh.1 - d2.1 / 2);
                    let uv = (u0.0 + d2.0, u0.1 + d2.1);
                    cx.rep.inc("near_parallel_lattice_pairs");
                    let (dd1, a1, b1, c1) = lattice_line(&mut rng, p0, pq);
                    let (dd2, a2, b2, c2) = lattice_line(&mut rng, u0, uv);
                    let cross = a1 as i128 * b2 as i128 - a2 as i128 * b1 as i128;
                    let x = (b1 as i128 * c2 as i128 - b2 as i128 * c1 as i128) as f64 / cross as f64;
                    let y = (a2 as i128 * c1 as i128 - a1 as i128 * c2 as i128) as f64 / cross as f64;
                    judge_ll(&mut cx, dd1, dd2, Some(false), x.abs() <= 1000.0 && y.abs() <= 1000.0);
                    let _ = q;
                    return;
                }
                if v == u {
                    v.0 += 1;
                }
                let (d1, a1, b1, c1) = lattice_line(&mut rng, p, q);
                let (d2, a2, b2, c2) = lattice_line(&mut rng, u, v);
                let cross = a1 as i128 * b2 as i128 - a2 as i128 * b1 as i128;
                if cross == 0 {
                    judge_ll(&mut cx, d1, d2, Some(true), false);
                } else {
                    // exact intersection by Cramer: x = (b1 c2 - b2 c1)/cross, y = (a2 c1 - a1 c2)/cross
                    let x = (b1 as i128 * c2 as i128 - b2 as i128 * c1 as i128) as f64 / cross as f64;
                    let y = (a2 as i128 * c1 as i128 - a1 as i128 * c2 as i128) as f64 / cross as f64;
                    let inside = x.abs() <= 1000.0 && y.abs() <= 1000.0;
                    // lattice direction vectors of length <= 2*rr*sqrt2 give |sin| >= 1/(8 rr^2) >> 1e-9: never gray
                    judge_ll(&mut cx, d1, d2, Some(false), inside);
                }
            }
            _ => {
                cx.family = "lattice: point classification".into();
                let c = pt(&mut rng);
                let r = rng.range_i64(1, rr);
                // points at exact distance r exist along Pythagorean directions when r is a multiple of h
                let (pn, qn, h) = *rng.pick(&TRIPLES);
                let p = if rng.chance(1, 2) {
                    let t = rng.range_i64(1, 20);
                    let k = *rng.pick(&[0i64, 0, 1, -1]);
                    let pp_ = (c.0 + pn * t + k, c.1 + qn * t);
                    let rr2 = h * t;
                    let d2 = (pp_.0 - c.0) as i128 * (pp_.0 - c.0) as i128 + (pp_.1 - c.1) as i128 * (pp_.1 - c.1) as i128;
                    let num = d2 - rr2 as i128 * rr2 as i128;
                    let m = if num == 0 { 0.0 } else { num as f64 / ((d2 as f64).sqrt() + rr2 as f64) };
                    judge_position(&mut cx, f(c), rr2 as f64, f(pp_), m, num == 0);
                    pp_
                } else {
                    // (one in three: a point on a diagonal through the centre, the radius the integer next to its distance)
                    let diag = rng.chance(1, 3);
                    let t = rng.range_i64(1, 700);
                    let r = if diag { ((t as f64) * std::f64::consts::SQRT_2).floor() as i64 + rng.range_i64(0, 1) } else { r };
                    let pp_ = if diag { (c.0 + t * *rng.pick(&[1i64, -1]), c.1 + t * *rng.pick(&[1i64, -1])) } else { pt(&mut rng) };
                    let d2 = (pp_.0 - c.0) as i128 * (pp_.0 - c.0) as i128 + (pp_.1 - c.1) as i128 * (pp_.1 - c.1) as i128;
                    let num = d2 - r as i128 * r as i128;
                    let m = if num == 0 { 0.0 } else { num as f64 / ((d2 as f64).sqrt() + r as f64) };
                    judge_position(&mut cx, f(c), r as f64, f(pp_), m, num == 0);
                    pp_
                };
                // contains: a lattice line and a lattice point; on the line when collinear
                let u = pt(&mut rng);
                let mut v = pt(&mut rng);
                if v == u {
                    v.0 += 1;
                }
                let (def, a, b, cc) = lattice_line(&mut rng, u, v);
                let test = if rng.chance(1, 2) {
                    let k = rng.range_i64(-3, 3);
                    (u.0 + k * (v.0 - u.0), u.1 + k * (v.1 - u.1))
                } else {
                    p
                };
                let n = a as i128 * test.0 as i128 + b as i128 * test.1 as i128 + cc as i128;
                let dist = n as f64 / ((a as i128 * a as i128 + b as i128 * b as i128) as f64).sqrt();
                judge_contains(&mut cx, def, f(test), dist, n == 0);
            }
        }
    });
    if let Err(p) = res {
        if p.in_lib {
            cx.violation("panic", Json::obj().set("panic", p.msg.as_str()).set("at", format!("{}:{}", p.file, p.line)));
        } else {
            cx.rep.inconclusive(format!("harness panic at {}:{}: {}", p.file, p.line, p.msg));
        }
    }
}

fn lattice_cc(cx: &mut Cx, c1: (i64, i64), r1: i64, c2: (i64, i64), r2: i64) {
    let d2 = (c1.0 - c2.0) as i128 * (c1.0 - c2.0) as i128 + (c1.1 - c2.1) as i128 * (c1.1 - c2.1) as i128;
    let d = (d2 as f64).sqrt();
    let s = (r1 + r2) as i128;
    let df = (r1 - r2).abs() as i128;
    let n_out = d2 - s * s;
    let n_in = d2 - df * df;
    let m_out = if n_out == 0 { 0.0 } else { n_out as f64 / (d + s as f64) };
    let m_in = if n_in == 0 { 0.0 } else { n_in as f64 / (d + df as f64) };
    let identical = d2 == 0 && r1 == r2;
    if n_out == 0 || (n_in == 0 && !identical) {
        cx.rep.inc("exact_tangencies");
    }
    judge_cc(cx, f(c1), r1 as f64, f(c2), r2 as f64, m_out, m_in, n_out == 0, n_in == 0 && !identical, identical, false);
}

// ------------------------------------------------------------------------------------------------
// real-valued configurations

fn rot(p: P2, ang: f64) -> P2 {
    use std::f64::consts::{FRAC_PI_2, PI};
    // the four axis directions are exact (no 6e-17 left over from cos(pi/2)): axis-aligned configurations are real ones
    if ang == 0.0 {
        return p;
    } else if ang == FRAC_PI_2 {
        return P2 { x: -p.y, y: p.x };
    } else if ang == PI {
        return P2 { x: -p.x, y: -p.y };
    } else if ang == 3.0 * FRAC_PI_2 {
        return P2 { x: p.y, y: -p.x };
    }
    let (s, c) = ang.sin_cos();
    P2 { x: p.x * c - p.y * s, y: p.x * s + p.y * c }
}
fn add(p: P2, q: P2) -> P2 {
    P2 { x: p.x + q.x, y: p.y + q.y }
}
fn scale(p: P2, k: f64) -> P2 {
    P2 { x: p.x * k, y: p.y * k }
}

/// the same line given by coefficients whose normal vector has length 1 + delta for a tiny delta (an "already normalised"
/// shortcut must not keep that scale error); delta = 0 stands for coefficients normalised by the caller
fn near_unit(ld: LineDef, rng: &mut Rng) -> LineDef {
    let (p, q) = match ld {
        LineDef::Points(p, q) => (p, q),
        other => return other,
    };
    let (a0, b0) = (p.y - q.y, q.x - p.x);
    let len = a0.hypot(b0);
    let delta = *rng.pick(&[0.0f64, 1e-15, -3e-13, 1e-12, -1e-11, 1e-10, -5e-10, 8e-10, -9.9e-10, 9.9e-10, 2e-9, -1e-8, 1e-7, -1e-6]);
    let k = (1.0 + delta) / len * if rng.chance(1, 2) { 1.0 } else { -1.0 };
    let (a, b) = (a0 * k, b0 * k);
    LineDef::Coef(a, b, -(a * p.x + b * p.y))
}

const SWEEP: [f64; 25] = [
    0.0, 1e-13, -1e-13, 1e-10 * 0.5, -1e-10 * 0.5, 1e-9, -1e-9, 2e-9, -3e-9, 5e-9, 2e-8, -2e-8, 1e-7, -1e-7, 1e-6, -1e-6, 1e-4, -1e-4, 1e-2, -1e-2, 1.0, -1.0, 3e-8, -5e-7, 7e-5,
];

fn run_real_case(case_seed: u64, rep: &mut Report, verbose: bool) {
    let mut rng = Rng::new(case_seed);
    let replay = vec!["--mode".into(), "real".into(), "--case".into(), format!("{}", case_seed)];
    let mut cx = Cx { rep, replay, verbose, family: String::new() };
    cx.rep.see_counted("nontrivial", 1); // case seeds are distinct by construction (mix of seed, mode, index)
    let res = catch(|| {
        // every fifth configuration is axis-aligned (rotated by an exact multiple of a right angle)
        let ang = if rng.chance(1, 5) {
            cx.rep.inc("axis_aligned_configurations");
            rng.below(4) as f64 * std::f64::consts::FRAC_PI_2
        } else if rng.chance(1, 5) {
            // almost, but not exactly, axis-aligned: one component of every direction of the picture is 1e-9 .. 1e-5 of
            // the other (a shortcut for "practically axis-parallel" vectors, a normal re-unitised from its larger component)
            cx.rep.inc("nearly_axis_aligned_configurations");
            rng.below(4) as f64 * std::f64::consts::FRAC_PI_2 + *rng.pick(&[1e-9f64, 1e-8, 5e-8, 1e-7, 1e-6, 5e-6, 7e-6, 9e-6, 9.9e-6, 1e-5, 3e-5]) * if rng.chance(1, 2) { 1.0 } else { -1.0 }
        } else {
            rng.f64_range(0.0, std::f64::consts::TAU)
        };
        // keep every coordinate of every reported point inside +-1e3
        let tr = P2 { x: rng.f64_range(-300.0, 300.0), y: rng.f64_range(-300.0, 300.0) };
        let place = |p: P2| add(rot(p, ang), tr);
        match rng.below(11) {
            9 => {
                cx.family = "real: circles with nearly equal radii, inner tangency and its neighbourhood".into();
                let r1 = rng.f64_range(50.0, 900.0);
                let delta = *rng.pick(&[1e-6f64, 1e-5, 1e-4, 5e-4, 1e-3, 2e-3, 1e-2, 0.1, 2e-7, 5e-7, 3e-6]);
                let r2 = r1 - delta;
                let m = *rng.pick(&[0.0f64, 0.0, 1e-13, -1e-13, 5e-11, -5e-11, 2e-8, -2e-8, 1e-6, -1e-6]);
                // centres delta + m apart: m = 0 is the inner tangency; centres well away from the origin.
                // Every other pair crosses properly instead (centres 0.2 .. r1 + r2 - 0.2 apart): two circles that are
                // equal up to a relative 1e-9 still have two different radii
                let crossing = rng.chance(1, 2);
                let d = if crossing { rng.f64_range(0.2, r1 + r2 - 0.2) } else { delta + m };
                if d <= 0.0 {
                    return;
                }
                let base = P2 { x: rng.f64_range(-60.0, 60.0) + if rng.chance(1, 2) { 40.0 } else { -40.0 }, y: rng.f64_range(-60.0, 60.0) };
                let c1 = base;
                let c2 = add(rot(P2 { x: d, y: 0.0 }, ang), base);
                let da = (c1.x - c2.x).hypot(c1.y - c2.y);
                let m_out = da - (r1 + r2);
                let m_in = da - (r1 - r2).abs();
                cx.rep.inc("nearly_equal_radii_pairs");
                // the centre distance itself is only known to about 1e-16 * |c|: the kind is asserted when m = 0 was asked
                // for and the built configuration is within 1e-12 of it, and outside the clear band; points always
                let near_identical = da < 1e-7 && (r1 - r2).abs() < 1e-7;
                let (ca, ra, cb, rb) = if rng.chance(1, 2) { (c1, r1, c2, r2) } else { (c2, r2, c1, r1) };
                judge_cc(&mut cx, ca, ra, cb, rb, m_out, m_in, false, false, false, near_identical);
            }
            10 => {
                cx.family = "real: line cutting a circle close to its centre".into();
                let r = *rng.pick(&[0.5f64, 3.0, 40.0, 300.0, 800.0]);
                let d0 = *rng.pick(&[0.0f64, 1e-13, 1e-10, 1e-9, 3e-9, 1e-8, 1e-7, 1e-6, 1e-5, 2e-5, 3e-5, 1e-4, 1e-3, 1e-2]) * if rng.chance(1, 2) { 1.0 } else { -1.0 };
                let small_tr = P2 { x: rng.f64_range(-100.0, 100.0), y: rng.f64_range(-100.0, 100.0) };
                let place2 = |p: P2| add(rot(p, ang), small_tr);
                let c = place2(P2 { x: 0.0, y: 0.0 });
                let x1 = rng.f64_range(-50.0, 50.0);
                let x2 = x1 + rng.f64_range(1.0, 80.0) * if rng.chance(1, 2) { 1.0 } else { -1.0 };
                let (p, q) = (place2(P2 { x: x1, y: d0 }), place2(P2 { x: x2, y: d0 }));
                let mut ld = LineDef::Points(p, q);
                if rng.chance(1, 3) {
                    ld = near_unit(ld, &mut rng);
                }
                cx.rep.inc("lines_close_to_the_centre");
                let actual = ld.sdist(c).abs() - r;
                judge_cl(&mut cx, c, r, ld, actual, false);
            }
            8 => {
                cx.family = "real: very large and very small circle near outer / inner tangency".into();
                let r1 = rng.f64_range(300.0, 900.0);
                let r2 = *rng.pick(&[0.01f64, 0.004, 0.002, 0.001, 5e-4, 0.05]);
                let m = *rng.pick(&[1e-9f64, 2e-9, 3e-9, 5e-9, 1e-8, 1.5e-8, 2e-8, 5e-8, 1e-7, 1e-6, 0.0, 1e-13]) * if rng.chance(3, 4) { -1.0 } else { 1.0 };
                let outer = rng.chance(1, 2);
                // crossing side: d slightly below r1 + r2 (outer) or slightly above r1 - r2 (inner)
                let d = if outer { r1 + r2 + m } else { (r1 - r2) - m };
                let small_tr = P2 { x: rng.f64_range(-50.0, 50.0), y: rng.f64_range(-50.0, 50.0) };
                let c1 = small_tr;
                let c2 = add(rot(P2 { x: d, y: 0.0 }, ang), small_tr);
                let da = (c1.x - c2.x).hypot(c1.y - c2.y);
                let m_out = da - (r1 + r2);
                let m_in = da - (r1 - r2).abs();
                cx.rep.inc("big_small_circle_pairs");
                let (ca, ra, cb, rb) = if rng.chance(1, 2) { (c1, r1, c2, r2) } else { (c2, r2, c1, r1) };
                judge_cc(&mut cx, ca, ra, cb, rb, m_out, m_in, false, false, false, false);
            }
            0 => {
                cx.family = "real: random circle and line".into();
                let c = P2 { x: rng.f64_range(-500.0, 500.0), y: rng.f64_range(-500.0, 500.0) };
                let r = 10f64.powf(rng.f64_range(-2.0, 2.6));
                let p = P2 { x: rng.f64_range(-500.0, 500.0), y: rng.f64_range(-500.0, 500.0) };
                let dir = rot(P2 { x: 1.0, y: 0.0 }, rng.f64_range(0.0, 6.3));
                let q = add(p, scale(dir, rng.f64_range(1.0, 300.0)));
                let mut ld = if rng.chance(1, 2) { LineDef::Points(p, q) } else { LineDef::Points(q, p) };
                if rng.chance(1, 4) {
                    ld = near_unit(ld, &mut rng);
                    cx.rep.inc("near_unit_normal_lines");
                }
                let m = ld.sdist(c).abs() - r;
                judge_cl(&mut cx, c, r, ld, m, false);
            }
            1 | 2 => {
                cx.family = "real: circle-line margin sweep around tangency (rotated, translated)".into();
                let r = *rng.pick(&[0.01f64, 0.5, 1.0, 7.0, 100.0, 450.0]);
                let m = *rng.pick(&SWEEP);
                // canonical: circle at origin, line y = r + m, defined by two points >= 1 apart
                let x1 = rng.f64_range(-200.0, 200.0);
                let x2 = x1 + rng.f64_range(1.0, 200.0) * if rng.chance(1, 2) { 1.0 } else { -1.0 };
                let side = if rng.chance(1, 2) { 1.0 } else { -1.0 };
                let c = place(P2 { x: 0.0, y: 0.0 });
                let p = place(P2 { x: x1, y: side * (r + m) });
                let q = place(P2 { x: x2, y: side * (r + m) });
                let ld = if rng.chance(1, 4) {
                    cx.rep.inc("near_unit_normal_lines");
                    near_unit(LineDef::Points(p, q), &mut rng)
                } else if rng.chance(1, 3) {
                    // coefficients from the two points, at an arbitrary scale
                    let k = *rng.pick(&[1.0f64, -2.5, 1e-3, 40.0]);
                    let a = (p.y - q.y) * k;
                    let b = (q.x - p.x) * k;
                    let cc = -(a * p.x + b * p.y);
                    LineDef::Coef(a, b, cc)
                } else {
                    LineDef::Points(p, q)
                };
                // the margin of the configuration actually built (rotation/translation round)
                let actual = ld.sdist(c).abs() - r;
                cx.rep.see_str("sweep_margins_cl", &format!("{:e}", m));
                judge_cl(&mut cx, c, r, ld, actual, false);
            }
            3 | 4 | 5 => {
                cx.family = "real: circle-circle margin sweep around outer / inner tangency (rotated, translated)".into();
                let ratio = *rng.pick(&[1.0f64, 1.0, 3.0, 10.0, 100.0, 1e3, 1e5]);
                let r1 = *rng.pick(&[1.0f64, 5.0, 100.0, 400.0]);
                let r2 = r1 / ratio;
                let m = *rng.pick(&SWEEP);
                let outer = rng.chance(1, 2);
                let d = if outer { r1 + r2 + m } else { (r1 - r2) + m };
                if d < 0.0 || (!outer && ratio == 1.0) {
                    // concentric / identical family instead
                    let c = place(P2 { x: 0.0, y: 0.0 });
                    if rng.chance(1, 2) {
                        judge_cc(&mut cx, c, r1, c, r1, -2.0 * r1, 0.0, false, false, true, false);
                    } else {
                        let r2b = r1 * rng.f64_range(0.1, 0.9);
                        judge_cc(&mut cx, c, r1, c, r2b, -(r1 + r2b), -(r1 - r2b), false, false, false, false);
                    }
                    return;
                }
                let c1 = place(P2 { x: 0.0, y: 0.0 });
                let c2 = place(P2 { x: d, y: 0.0 });
                let da = (c1.x - c2.x).hypot(c1.y - c2.y);
                let m_out = da - (r1 + r2);
                let m_in = da - (r1 - r2).abs();
                let near_identical = da < 1e-7 && (r1 - r2).abs() < 1e-7;
                cx.rep.see_str("sweep_margins_cc", &format!("{}:{:e}:{:e}", outer, m, ratio));
                let (ca, ra, cb, rb) = if rng.chance(1, 2) { (c1, r1, c2, r2) } else { (c2, r2, c1, r1) };
                judge_cc(&mut cx, ca, ra, cb, rb, m_out, m_in, false, false, false, near_identical);
            }
            6 => {
                cx.family = "real: random line pair (angle >= 1e-3) and parallel pairs".into();
                let p = P2 { x: rng.f64_range(-300.0, 300.0), y: rng.f64_range(-300.0, 300.0) };
                // every third pair has one line that is almost (not exactly) axis-parallel: a normalised coefficient as
                // small as 1e-7 must not be treated as zero, nor amplify rounding errors beyond the 1e-7 bound
                let lean = 10f64.powf(rng.f64_range(-7.5, -2.0)) * if rng.chance(1, 2) { 1.0 } else { -1.0 };
                let a1 = match rng.below(6) {
                    0 => std::f64::consts::FRAC_PI_2 + lean,
                    1 => lean,
                    _ => rng.f64_range(0.0, 3.1),
                };
                cx.rep.see_str("near_axis_parallel_lines", if rng.below(1) == 0 && (a1 - std::f64::consts::FRAC_PI_2).abs() < 0.02 { "near_vertical" } else if a1.abs() < 0.02 { "near_horizontal" } else { "generic" });
                let u = rot(P2 { x: 1.0, y: 0.0 }, a1);
                let l1 = LineDef::Points(p, add(p, scale(u, rng.f64_range(1.0, 100.0))));
                if rng.chance(1, 4) {
                    // exactly parallel: same direction vector, shifted
                    let sh = P2 { x: rng.f64_range(-50.0, 50.0), y: rng.f64_range(-50.0, 50.0) };
                    if let LineDef::Points(p1, p2) = l1 {
                        let l2 = LineDef::Points(add(p1, sh), add(p2, sh));
                        // the shift rounds: parallel up to ~1e-16, far inside the 1e-9 band
                        judge_ll(&mut cx, l1, l2, Some(true), false);
                    }
                } else {
                    let mut delta = 10f64.powf(rng.f64_range(-3.0, 0.19)) * if rng.chance(1, 2) { 1.0 } else { -1.0 };
                    if rng.chance(1, 5) {
                        // a right angle up to a tiny deviation (1e-12 .. 1e-6 rad), both lines far from the origin
                        delta = std::f64::consts::FRAC_PI_2 + *rng.pick(&[0.0f64, 1e-12, 1e-10, 3e-10, 9e-10, 2e-9, 1e-8, 1e-6]) * if rng.chance(1, 2) { 1.0 } else { -1.0 };
                        cx.rep.inc("nearly_perpendicular_line_pairs");
                    }
                    let v = rot(P2 { x: 1.0, y: 0.0 }, a1 + delta);
                    // second line through a point near the first line so that the intersection stays in the box
                    let mut on1 = add(p, scale(u, rng.f64_range(-100.0, 100.0)));
                    let mut l1 = l1;
                    if rng.chance(1, 3) {
                        // the crossing point a hair away from a lattice point (a result "cleaned up" to the nearest round
                        // value is then off both lines): both lines are laid through that point
                        let d = |rng: &mut Rng| *rng.pick(&[0.0f64, 1e-12, 3e-10, 1e-8, 1.2e-7, 2e-7, 4e-7, 9e-7, 2e-6, 1e-5]) * if rng.chance(1, 2) { 1.0 } else { -1.0 };
                        on1 = P2 { x: rng.range_i64(-200, 200) as f64 + d(&mut rng), y: rng.range_i64(-200, 200) as f64 + d(&mut rng) };
                        let back = rng.f64_range(1.0, 60.0);
                        let p1 = add(on1, scale(u, -back));
                        l1 = LineDef::Points(p1, add(on1, scale(u, rng.f64_range(1.0, 60.0))));
                        cx.rep.inc("crossings_next_to_lattice_points");
                    }
                    let q = add(on1, scale(v, rng.f64_range(-100.0, 100.0)));
                    let mut l2 = LineDef::Points(q, add(q, scale(v, rng.f64_range(1.0, 100.0))));
                    let mut l1 = l1;
                    if rng.chance(1, 4) {
                        l1 = near_unit(l1, &mut rng);
                        l2 = near_unit(l2, &mut rng);
                        cx.rep.inc("near_unit_normal_lines");
                    }
                    let inside = on1.x.abs() <= 900.0 && on1.y.abs() <= 900.0;
                    if rng.chance(1, 2) {
                        judge_ll(&mut cx, l1, l2, Some(false), inside);
                    } else {
                        judge_ll(&mut cx, l2, l1, Some(false), inside);
                    }
                }
            }
            _ => {
                cx.family = "real: point classification sweeps".into();
                let r = *rng.pick(&[0.01f64, 1.0, 30.0, 450.0]);
                let m = *rng.pick(&SWEEP) * if rng.chance(1, 2) { r.max(1.0) } else { 1.0 };
                let c = place(P2 { x: 0.0, y: 0.0 });
                // one direction in three lies on or within a few 1e-6 rad of an axis or a diagonal of the final picture
                // (a shortcut through the bounding or the inscribed square of the circle has its corners there), with
                // margins of a few 1e-6 of the radius
                let special = rng.chance(1, 3);
                let th = if special {
                    cx.rep.inc("position_directions_at_axes_and_diagonals");
                    rng.below(8) as f64 * std::f64::consts::FRAC_PI_4 + *rng.pick(&[0.0f64, 0.0, 1e-6, -1e-6, 2.5e-6, -2.5e-6, 1e-5]) - ang
                } else {
                    rng.f64_range(0.0, 6.3)
                };
                let m = if special && rng.chance(1, 2) { *rng.pick(&[1e-7f64, 5e-7, 1e-6, 2e-6, 3e-6, 4e-6, 8e-6, -1e-6, -4e-6]) * r } else { m };
                let p = place(rot(P2 { x: (r + m).max(0.0), y: 0.0 }, th));
                let actual = (p.x - c.x).hypot(p.y - c.y) - r;
                judge_position(&mut cx, c, r, p, actual, false);
                // contains
                let u = place(P2 { x: -10.0, y: 0.0 });
                let v = place(P2 { x: 35.0, y: 0.0 });
                let ld = if rng.chance(1, 4) {
                    cx.rep.inc("near_unit_normal_lines");
                    near_unit(LineDef::Points(u, v), &mut rng)
                } else {
                    LineDef::Points(u, v)
                };
                let off = *rng.pick(&SWEEP);
                let t = place(P2 { x: rng.f64_range(-100.0, 100.0), y: off });
                let dist = ld.sdist(t);
                judge_contains(&mut cx, ld, t, dist, false);
            }
        }
        let _ = LineDef::dir;
    });
    if let Err(p) = res {
        if p.in_lib {
            cx.violation("panic", Json::obj().set("panic", p.msg.as_str()).set("at", format!("{}:{}", p.file, p.line)));
        } else {
            cx.rep.inconclusive(format!("harness panic at {}:{}: {}", p.file, p.line, p.msg));
        }
    }
}

fn main() {
    let eng = Engine::start("geomon");
    let a = &eng.args;
    let mode = a.str("mode", "lattice");
    let thorough = a.thorough();
    let seed = a.seed();
    let mut report = Report::new();
    report.extra("mode", mode.as_str());
    type Runner = fn(u64, &mut Report, bool);
    let (runner, default_cases, tag): (Runner, u64, u64) = match mode.as_str() {
        "lattice" => (run_lattice_case, if thorough { 40_000_000 } else { 1_500_000 }, 1),
        "real" => (run_real_case, if thorough { 40_000_000 } else { 1_500_000 }, 2),
        m => panic!("unknown mode {}", m),
    };
    if let Some(c) = a.opt("case") {
        let mut rep = Report::new();
        runner(c.parse().unwrap(), &mut rep, true);
        report.merge(rep);
        eng.finish(report);
    }
    let total = a.u64("cases", default_cases);
    let q = WorkQueue::new(total);
    let rep = common::run_sharded(a.threads(), |_s, rep| {
        rep.sample_cap = 0;
        while let Some((lo, hi)) = q.take_block(1024) {
            for i in lo..hi {
                runner(mix(&[seed, tag, i]), rep, false);
            }
        }
    });
    report.merge(rep);
    report.sample(Json::obj().set("example", "circle (10,10) r=5 and the line y=15: exactly tangent, touch point must be (10,15)"));
    report.extra("exhaustive", false);
    report.extra("guard_band", "kind asserted for margin exactly 0, |margin| <= 1e-10 or |margin| >= 1e-8; in between only point residuals (<= 1e-7) are checked");
    eng.finish(report);
}
