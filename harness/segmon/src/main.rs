//! segmon - runtime monitor for the segment tree (C01 range query = in-order fold, C02 boundary
//! searches). The real `Segtree` runs in lock step with a plain shadow array; every public result is
//! compared with an independent left-to-right fold, and every aggregate the library shows to a search
//! predicate is logged and compared with the fold of exactly the range it must represent.
//!
//!   segmon --judge fold|search --mode random|exhaustive [--tier quick|thorough] [--seed N]
//!   segmon --judge .. --mode random --case <algebra>:<case_seed>      (replay one history)
//!   segmon --judge .. --mode exhaustive --case <n>:<index>            (replay one enumerated history)

mod algebra;

use algebra::*;
use common::{catch, hash_of, lib, mix, Engine, Json, Report, Rng, WorkQueue};
use rlib_segtree::Segtree;
use std::cell::RefCell;

#[derive(Clone, Copy, PartialEq, Debug)]
enum Judge {
    Fold,
    Search,
}

const SIZES_Q: &[usize] = &[
    1, 2, 3, 4, 5, 6, 7, 8, 9, 10, 11, 12, 13, 14, 15, 16, 17, 31, 32, 33, 63, 64, 65, 100, 127, 128, 129,
];
const SIZES_T: &[usize] = &[1000, 4097];

#[derive(Clone, Debug)]
enum Op<A: Algebra> {
    New(usize, A::Elem),
    FromSlice(Vec<A::Elem>),
    FromIter(Vec<A::Elem>),
    Set(usize, A::Elem),
    Modify(usize, usize, A::Mod),
    Ask(usize, usize),
    Lb(usize, A::Pred),
    LbRev(usize, A::Pred),
    /// rebuild the tree from the items its own point queries return (they carry whatever pending state a leaf
    /// accumulated): from_slice / from_iter over ask(i, i) for all i; the logical array is unchanged
    RecycleSlice,
    RecycleIter,
    /// new(n2, ask(i, i)): fill with an item that came out of a query
    RecycleNew(usize, usize),
}

fn op_kind<A: Algebra>(op: &Op<A>) -> &'static str {
    match op {
        Op::New(..) => "new",
        Op::FromSlice(..) => "from_slice",
        Op::FromIter(..) => "from_iter",
        Op::Set(..) => "set",
        Op::Modify(..) => "modify",
        Op::Ask(..) => "ask",
        Op::Lb(..) => "lower_bound",
        Op::LbRev(..) => "lower_bound_rev",
        Op::RecycleSlice => "from_slice_of_queried_items",
        Op::RecycleIter => "from_iter_of_queried_items",
        Op::RecycleNew(..) => "new_with_queried_item",
    }
}

struct Ctx<'a> {
    judge: Judge,
    rep: &'a mut Report,
    replay: Vec<String>,
    verbose: bool,
    algebra: String,
}

impl Ctx<'_> {
    fn violation(&mut self, kind: &str, detail: Json) {
        let sig = format!("{:?}:{}:{}", self.judge, self.algebra, kind).to_lowercase();
        let d = detail.set("algebra", self.algebra.as_str());
        self.rep.violation(sig, d, self.replay.clone());
    }
}

/// The tree under test plus its shadow array.
struct Live<A: Algebra> {
    tree: Segtree<A::Item, A::Mod>,
    shadow: Vec<A::Elem>,
    log: Vec<String>,
    prev_kind: &'static str,
}

fn construct<A: Algebra>(op: &Op<A>) -> (Segtree<A::Item, A::Mod>, Vec<A::Elem>) {
    match op {
        Op::New(n, e) => {
            let item = A::leaf(e);
            (lib!(Segtree::new(*n, item)), vec![e.clone(); *n])
        }
        Op::FromSlice(es) => {
            let items: Vec<A::Item> = es.iter().map(|e| A::leaf(e)).collect();
            (lib!(Segtree::from_slice(&items)), es.clone())
        }
        Op::FromIter(es) => {
            let items: Vec<A::Item> = es.iter().map(|e| A::leaf(e)).collect();
            (lib!(Segtree::from_iter(items.into_iter())), es.clone())
        }
        _ => unreachable!(),
    }
}

fn gen_construct<A: Algebra>(rng: &mut Rng, n: usize, nonneg: bool) -> Op<A> {
    let elems = |rng: &mut Rng| -> Vec<A::Elem> {
        (0..n)
            .map(|i| {
                let mut e = A::gen_elem(rng, nonneg);
                A::at(&mut e, i);
                e
            })
            .collect()
    };
    match rng.below(if A::positional() { 2 } else { 3 }) {
        0 => Op::FromSlice(elems(rng)),
        1 => Op::FromIter(elems(rng)),
        _ => Op::New(n, A::gen_elem(rng, nonneg)),
    }
}

fn gen_range(rng: &mut Rng, n: usize) -> (usize, usize) {
    match rng.below(8) {
        0 => (0, n - 1),
        1 => {
            let i = rng.usize_below(n);
            (i, i)
        }
        2 => (0, rng.usize_below(n)),
        3 => (rng.usize_below(n), n - 1),
        _ => {
            let a = rng.usize_below(n);
            let b = rng.usize_below(n);
            (a.min(b), a.max(b))
        }
    }
}

fn pending_pattern<A: Algebra>(tree: &Segtree<A::Item, A::Mod>) -> (u64, usize) {
    // coverage statistic only (never a verdict): which nodes hold a non-identity pending modifier
    let nodes = tree.verif_nodes();
    let mut idx: Vec<u32> = Vec::new();
    for (i, it) in nodes.iter().enumerate() {
        if A::pending(it) {
            idx.push(i as u32);
        }
    }
    (hash_of(&idx), idx.len())
}

impl<A: Algebra> Live<A> {
    /// a second, small tree of the same type for re-entrant predicates (every fifth search, decided by position and
    /// history length), with its length
    fn aux_tree(&self, pos: usize) -> Option<RefCell<(Segtree<A::Item, A::Mod>, usize)>> {
        let n = self.shadow.len();
        if (pos + n + self.log.len()) % 5 != 0 || n > 4096 {
            return None;
        }
        let k = n.min(9);
        let items: Vec<A::Item> = self.shadow[..k].iter().map(|e| A::leaf(e)).collect();
        Some(RefCell::new((lib!(Segtree::from_slice(&items)), k)))
    }

    /// expected first r >= l with pred(fold(shadow[l..=r]))
    fn scan_fwd(&self, l: usize, p: &A::Pred) -> Option<usize> {
        let mut o = A::empty();
        for x in l..self.shadow.len() {
            A::extend(&mut o, &self.shadow[x]);
            if A::eval(p, &o) {
                return Some(x);
            }
        }
        None
    }
    /// expected last l <= r with pred(fold(shadow[l..=r]))
    fn scan_rev(&self, r: usize, p: &A::Pred) -> Option<usize> {
        let mut o = A::empty();
        for x in (0..=r).rev() {
            A::extend_left(&mut o, &self.shadow[x]);
            if A::eval(p, &o) {
                return Some(x);
            }
        }
        None
    }

    /// every aggregate shown to the predicate must be the in-order fold of shadow[l..=x] for some x >= l
    fn check_args_fwd(&self, l: usize, args: &[A::Obs]) -> Result<(), String> {
        let n = self.shadow.len();
        // prefix folds from l
        let mut prefixes: Vec<A::Obs> = Vec::with_capacity(n - l);
        let mut o = A::empty();
        for x in l..n {
            A::extend(&mut o, &self.shadow[x]);
            prefixes.push(o.clone());
        }
        for a in args {
            let ok = match A::obs_len(a) {
                Some(k) => k >= 1 && k <= prefixes.len() && prefixes[k - 1] == *a,
                None => prefixes.iter().any(|p| p == a),
            };
            if !ok {
                return Err(format!("{:?}", a));
            }
        }
        Ok(())
    }
    fn check_args_rev(&self, r: usize, args: &[A::Obs]) -> Result<(), String> {
        let mut suffixes: Vec<A::Obs> = Vec::with_capacity(r + 1);
        let mut o = A::empty();
        for x in (0..=r).rev() {
            A::extend_left(&mut o, &self.shadow[x]);
            suffixes.push(o.clone());
        }
        for a in args {
            let ok = match A::obs_len(a) {
                Some(k) => k >= 1 && k <= suffixes.len() && suffixes[k - 1] == *a,
                None => suffixes.iter().any(|p| p == a),
            };
            if !ok {
                return Err(format!("{:?}", a));
            }
        }
        Ok(())
    }

    fn history_json(&self) -> Json {
        let tail: Vec<String> = if self.log.len() > 80 {
            self.log[self.log.len() - 80..].to_vec()
        } else {
            self.log.clone()
        };
        Json::from(tail)
    }

    /// apply one operation to the tree and the shadow array and judge the result
    fn step(&mut self, op: &Op<A>, cx: &mut Ctx) {
        let kind = op_kind(op);
        cx.rep.inc(&format!("op_{}", kind));
        cx.rep.see_str("op_pairs", &format!("{}>{}", self.prev_kind, kind));
        self.prev_kind = kind;
        if cx.verbose || self.log.len() < 400 {
            self.log.push(format!("{:?}", op));
        }
        match op {
            Op::New(..) | Op::FromSlice(..) | Op::FromIter(..) => {
                let (t, s) = construct::<A>(op);
                self.tree = t;
                self.shadow = s;
            }
            Op::RecycleSlice | Op::RecycleIter => {
                let n = self.shadow.len();
                let items: Vec<A::Item> = (0..n).map(|i| lib!(self.tree.ask(i, i))).collect();
                self.tree = if matches!(op, Op::RecycleSlice) { lib!(Segtree::from_slice(&items)) } else { lib!(Segtree::from_iter(items.into_iter())) };
            }
            Op::RecycleNew(i, n2) => {
                let it = lib!(self.tree.ask(*i, *i));
                let e = self.shadow[*i].clone();
                self.tree = lib!(Segtree::new(*n2, it));
                self.shadow = vec![e; *n2];
            }
            Op::Set(i, e) => {
                self.shadow[*i] = e.clone();
                let item = A::leaf(e);
                lib!(self.tree.set(*i, item));
            }
            Op::Modify(l, r, m) => {
                for x in *l..=*r {
                    A::apply(&mut self.shadow[x], m);
                }
                lib!(self.tree.modify(*l, *r, m));
            }
            Op::Ask(l, r) => {
                let want = A::fold(&self.shadow[*l..=*r]);
                let got = A::observe(&lib!(self.tree.ask(*l, *r)));
                if cx.judge == Judge::Fold {
                    cx.rep.inc("asks_checked");
                    if got != want {
                        cx.violation(
                            "ask",
                            Json::obj()
                                .set("what", "ask(l, r) differs from the left-to-right fold of the plain array")
                                .set("l", *l)
                                .set("r", *r)
                                .set("n", self.shadow.len())
                                .set("got", format!("{:?}", got))
                                .set("want", format!("{:?}", want))
                                .set("history", self.history_json()),
                        );
                    }
                }
            }
            Op::Lb(l, p) => {
                let want = self.scan_fwd(*l, p);
                let args: RefCell<Vec<A::Obs>> = RefCell::new(Vec::new());
                // every fifth search has a re-entrant predicate: while it is being evaluated it runs a search of its own on
                // another tree of the same type (lawful: the predicate is an arbitrary caller-supplied closure)
                let aux = self.aux_tree(*l);
                let budget = 64 * (usize::BITS - self.shadow.len().leading_zeros()) as usize + 128;
                let got = lib!(self.tree.lower_bound(*l, |it: &A::Item| {
                    let o = A::observe(it);
                    let r = A::eval(p, &o);
                    args.borrow_mut().push(o);
                    if args.borrow().len() > budget {
                        // a logical step bound, not a clock: a search looks at O(log n) aggregates
                        panic!("lower_bound does not terminate: the predicate was called more than {} times on a tree of {} elements", budget, self.shadow.len());
                    }
                    if let Some(a) = &aux {
                        let mut a = a.borrow_mut();
                        let k = a.1;
                        let _ = a.0.lower_bound(k / 2, |x: &A::Item| A::eval(p, &A::observe(x)));
                        let _ = a.0.lower_bound_rev(k - 1, |x: &A::Item| A::eval(p, &A::observe(x)));
                    }
                    r
                }));
                if aux.is_some() {
                    cx.rep.inc("searches_with_reentrant_predicate");
                }
                if cx.judge == Judge::Search {
                    cx.rep.inc("searches_checked");
                    cx.rep.count("pred_args_checked", args.borrow().len() as u64);
                    cx.rep.see_str("search_outcomes", &format!("fwd:{}:{}", want.is_some(), want.map(|x| x == *l).unwrap_or(false)));
                    if got != want {
                        cx.violation(
                            "lower_bound",
                            Json::obj()
                                .set("what", "lower_bound(l, f) is not the smallest r >= l whose range aggregate satisfies f")
                                .set("l", *l)
                                .set("n", self.shadow.len())
                                .set("pred", format!("{:?}", p))
                                .set("got", got)
                                .set("want", want)
                                .set("history", self.history_json()),
                        );
                    } else if let Err(bad) = self.check_args_fwd(*l, &args.borrow()) {
                        cx.violation(
                            "lower_bound_pred_arg",
                            Json::obj()
                                .set("what", "an aggregate shown to the predicate is not the in-order merge of shadow[l..=x] for any x")
                                .set("l", *l)
                                .set("n", self.shadow.len())
                                .set("pred", format!("{:?}", p))
                                .set("bad_argument", bad)
                                .set("shadow", format!("{:?}", self.shadow))
                                .set("history", self.history_json()),
                        );
                    }
                }
            }
            Op::LbRev(r, p) => {
                let want = self.scan_rev(*r, p);
                let args: RefCell<Vec<A::Obs>> = RefCell::new(Vec::new());
                let aux = self.aux_tree(*r);
                let budget = 64 * (usize::BITS - self.shadow.len().leading_zeros()) as usize + 128;
                let got = lib!(self.tree.lower_bound_rev(*r, |it: &A::Item| {
                    let o = A::observe(it);
                    let res = A::eval(p, &o);
                    args.borrow_mut().push(o);
                    if args.borrow().len() > budget {
                        panic!("lower_bound_rev does not terminate: the predicate was called more than {} times on a tree of {} elements", budget, self.shadow.len());
                    }
                    if let Some(a) = &aux {
                        let mut a = a.borrow_mut();
                        let k = a.1;
                        let _ = a.0.lower_bound_rev(k - 1, |x: &A::Item| A::eval(p, &A::observe(x)));
                        let _ = a.0.lower_bound(0, |x: &A::Item| A::eval(p, &A::observe(x)));
                    }
                    res
                }));
                if aux.is_some() {
                    cx.rep.inc("searches_with_reentrant_predicate");
                }
                if cx.judge == Judge::Search {
                    cx.rep.inc("searches_checked");
                    cx.rep.count("pred_args_checked", args.borrow().len() as u64);
                    cx.rep.see_str("search_outcomes", &format!("rev:{}:{}", want.is_some(), want.map(|x| x == *r).unwrap_or(false)));
                    if got != want {
                        cx.violation(
                            "lower_bound_rev",
                            Json::obj()
                                .set("what", "lower_bound_rev(r, f) is not the largest l <= r whose range aggregate satisfies f")
                                .set("r", *r)
                                .set("n", self.shadow.len())
                                .set("pred", format!("{:?}", p))
                                .set("got", got)
                                .set("want", want)
                                .set("history", self.history_json()),
                        );
                    } else if let Err(bad) = self.check_args_rev(*r, &args.borrow()) {
                        cx.violation(
                            "lower_bound_rev_pred_arg",
                            Json::obj()
                                .set("what", "an aggregate shown to the predicate is not the in-order merge of shadow[x..=r] for any x")
                                .set("r", *r)
                                .set("n", self.shadow.len())
                                .set("pred", format!("{:?}", p))
                                .set("bad_argument", bad)
                                .set("shadow", format!("{:?}", self.shadow))
                                .set("history", self.history_json()),
                        );
                    }
                }
            }
        }
        let (h, cnt) = pending_pattern::<A>(&self.tree);
        cx.rep.see("pending_lazy_patterns", mix(&[h, self.shadow.len() as u64]));
        cx.rep.max("max_nodes_with_pending_modifier", cnt as i64);
    }

    /// complete probe at the end of a history
    fn final_probe(&mut self, rng: &mut Rng, cx: &mut Ctx) {
        let n = self.shadow.len();
        match cx.judge {
            Judge::Fold => {
                let mut ranges: Vec<(usize, usize)> = Vec::new();
                if n <= 33 {
                    for l in 0..n {
                        for r in l..n {
                            ranges.push((l, r));
                        }
                    }
                } else if n <= 200 {
                    for i in 0..n {
                        ranges.push((i, i));
                    }
                    for _ in 0..4 * n {
                        ranges.push(gen_range(rng, n));
                    }
                } else {
                    // large trees: a sample (the probe would otherwise dominate the run)
                    for _ in 0..256 {
                        let i = rng.usize_below(n);
                        ranges.push((i, i));
                    }
                    for _ in 0..1024 {
                        ranges.push(gen_range(rng, n));
                    }
                }
                if rng.chance(1, 2) {
                    rng.shuffle(&mut ranges);
                }
                for (l, r) in ranges {
                    self.step(&Op::Ask(l, r), cx);
                }
                // debug(): one query per position
                let dbg = lib!(self.tree.debug());
                cx.rep.inc("debug_calls");
                // debug() is not part of the property: it is only exercised (a panic would be reported)
                let _ = dbg;
            }
            Judge::Search => {
                // searches from every position (small n) under a few predicates, in both directions
                let preds: Vec<A::Pred> = (0..if n <= 33 { 4 } else { 2 }).map(|_| A::gen_pred(rng, &self.shadow)).collect();
                let positions: Vec<usize> = if n <= 33 { (0..n).collect() } else { (0..12).map(|_| rng.usize_below(n)).collect() };
                for p in &preds {
                    for &x in &positions {
                        if rng.chance(1, 2) {
                            self.step(&Op::Lb(x, p.clone()), cx);
                            self.step(&Op::LbRev(x, p.clone()), cx);
                        } else {
                            self.step(&Op::LbRev(x, p.clone()), cx);
                            self.step(&Op::Lb(x, p.clone()), cx);
                        }
                    }
                }
            }
        }
    }
}

fn gen_op<A: Algebra>(rng: &mut Rng, live: &Live<A>, judge: Judge, nonneg: bool, sizes: &[usize]) -> Op<A> {
    let n = live.shadow.len();
    // set, modify, ask, lb, lbrev, reconstruct
    let w: [u32; 6] = match judge {
        Judge::Fold => [15, 36, 28, 8, 8, 5],
        Judge::Search => [14, 40, 4, 20, 20, 3],
    };
    match rng.weighted(&w) {
        0 => {
            let i = rng.usize_below(n);
            let mut e = A::gen_elem(rng, nonneg);
            A::at(&mut e, i);
            Op::Set(i, e)
        }
        1 => {
            let (l, r) = gen_range(rng, n);
            Op::Modify(l, r, A::gen_mod(rng, nonneg))
        }
        2 => {
            let (l, r) = gen_range(rng, n);
            Op::Ask(l, r)
        }
        3 => Op::Lb(rng.usize_below(n), A::gen_pred(rng, &live.shadow)),
        4 => Op::LbRev(rng.usize_below(n), A::gen_pred(rng, &live.shadow)),
        _ => {
            let n2 = (*rng.pick(sizes)).min(A::max_n());
            match rng.below(6) {
                0 => Op::RecycleSlice,
                1 => Op::RecycleIter,
                2 if !A::positional() => Op::RecycleNew(rng.usize_below(n), n2.min(129)),
                _ => gen_construct::<A>(rng, n2, nonneg),
            }
        }
    }
}

/// One random history, fully determined by (algebra, case_seed).
fn run_random_case<A: Algebra>(case_seed: u64, judge: Judge, thorough: bool, rep: &mut Report, verbose: bool) {
    let mut rng = Rng::new(case_seed);
    let nonneg = judge == Judge::Search && A::search_needs_nonneg();
    let mut sizes: Vec<usize> = SIZES_Q.iter().cloned().filter(|&n| n <= A::max_n()).collect();
    if thorough && rng.chance(1, 300) {
        sizes = SIZES_T.iter().cloned().filter(|&n| n <= A::max_n()).collect();
        if sizes.is_empty() {
            sizes = vec![A::max_n()];
        }
    }
    let n = *rng.pick(&sizes);
    let first = gen_construct::<A>(&mut rng, n, nonneg);
    let nops = rng.usize_below(49);
    let mut cx = Ctx {
        judge,
        rep,
        replay: vec!["--case".into(), format!("{}:{}", A::name(), case_seed)],
        verbose,
        algebra: A::name(),
    };
    cx.rep.inc("evaluations");
    cx.rep.inc(&format!("histories_{}", A::name()));
    cx.rep.see("sizes", n as u64);
    let r = catch(|| {
        let (tree, shadow) = construct::<A>(&first);
        let mut live: Live<A> = Live { tree, shadow, log: vec![format!("{:?}", first)], prev_kind: op_kind(&first) };
        cx.rep.inc(&format!("op_{}", op_kind(&first)));
        let mut has_mod = false;
        let mut has_q = false;
        let mut hist_hash = mix(&[hash_of(&format!("{:?}", first))]);
        for _ in 0..nops {
            let op = gen_op::<A>(&mut rng, &live, judge, nonneg, &sizes);
            has_mod |= matches!(op, Op::Modify(..) | Op::Set(..));
            has_q |= matches!(op, Op::Ask(..) | Op::Lb(..) | Op::LbRev(..));
            hist_hash = mix(&[hist_hash, hash_of(&format!("{:?}", op))]);
            live.step(&op, &mut cx);
        }
        live.final_probe(&mut rng, &mut cx);
        if has_mod && has_q {
            cx.rep.see("nontrivial", mix(&[hist_hash, common::hash_str(&A::name())]));
        }
        if cx.rep.wants_sample() && nops >= 3 && nops <= 8 {
            cx.rep.sample(
                Json::obj()
                    .set("algebra", A::name())
                    .set("n", live.shadow.len())
                    .set("history_then_complete_probe", Json::from(live.log.iter().take(nops + 1).cloned().collect::<Vec<_>>())),
            );
        }
        if verbose {
            for l in &live.log {
                eprintln!("  {}", l);
            }
        }
    });
    if let Err(p) = r {
        if p.in_lib {
            cx.violation(
                "panic",
                Json::obj()
                    .set("what", "the library panicked on a lawful operation")
                    .set("panic", p.msg.as_str())
                    .set("at", format!("{}:{}", p.file, p.line)),
            );
        } else {
            cx.rep.inconclusive(format!("harness panic at {}:{}: {}", p.file, p.line, p.msg));
        }
    }
}

// ------------------------------------------------------------------------------------------------
// bounded-exhaustive scope (FreeWord): every op sequence up to a length over a small alphabet of ops

const GEN_MAPS: [LMap; 3] = [[2, 2, 2], [1, 2, 0], [1, 0, 0]];

fn exhaustive_ops(n: usize) -> Vec<Op<FreeWord>> {
    let mut ops = Vec::new();
    for l in 0..n {
        for r in l..n {
            for m in GEN_MAPS {
                ops.push(Op::Modify(l, r, m));
            }
            ops.push(Op::Ask(l, r));
        }
    }
    for i in 0..n {
        for c in 0..3u8 {
            ops.push(Op::Set(i, c));
        }
    }
    ops
}

fn exhaustive_len(n: usize, thorough: bool) -> usize {
    if thorough {
        match n {
            1 => 7,
            2 => 6,
            3 => 5,
            4 => 4,
            _ => 3,
        }
    } else {
        match n {
            1 => 6,
            2 => 5,
            3 => 4,
            4 => 3,
            _ => 2,
        }
    }
}

/// number of sequences of length exactly `len` is ops^len; index enumerates lengths 0..=maxlen in order
fn exhaustive_total(nops: usize, maxlen: usize) -> u64 {
    let mut t = 0u64;
    let mut p = 1u64;
    for _ in 0..=maxlen {
        t += p;
        p *= nops as u64;
    }
    t
}

fn exhaustive_decode(mut idx: u64, nops: usize, maxlen: usize) -> Vec<usize> {
    let mut p = 1u64;
    for len in 0..=maxlen {
        if idx < p {
            let mut v = Vec::with_capacity(len);
            for _ in 0..len {
                v.push((idx % nops as u64) as usize);
                idx /= nops as u64;
            }
            return v;
        }
        idx -= p;
        p *= nops as u64;
    }
    unreachable!()
}

fn run_exhaustive_case(n: usize, idx: u64, ops: &[Op<FreeWord>], maxlen: usize, judge: Judge, rep: &mut Report, verbose: bool) {
    let seq = exhaustive_decode(idx, ops.len(), maxlen);
    let init: Vec<u8> = (0..n).map(|i| [0u8, 1, 2, 0, 1][i % 5]).collect();
    let first: Op<FreeWord> = match idx % 3 {
        0 => Op::FromSlice(init.clone()),
        1 => Op::FromIter(init.clone()),
        _ => Op::FromSlice(init.clone()),
    };
    let mut cx = Ctx {
        judge,
        rep,
        replay: vec!["--mode".into(), "exhaustive".into(), "--case".into(), format!("{}:{}", n, idx)],
        verbose,
        algebra: "FreeWord".into(),
    };
    cx.rep.inc("evaluations");
    let r = catch(|| {
        let (tree, shadow) = construct::<FreeWord>(&first);
        let mut live: Live<FreeWord> = Live { tree, shadow, log: vec![format!("{:?}", first)], prev_kind: op_kind(&first) };
        let mut nontrivial = false;
        for &k in &seq {
            nontrivial |= matches!(ops[k], Op::Modify(..));
            live.step(&ops[k], &mut cx);
        }
        // complete probe, deterministic
        match judge {
            Judge::Fold => {
                for l in 0..n {
                    for r in l..n {
                        live.step(&Op::Ask(l, r), &mut cx);
                    }
                }
            }
            Judge::Search => {
                // one fresh search per history directly on the pending state, chosen by the index so that all
                // (position, predicate, direction) combinations are spread over the enumerated histories;
                // then the whole sweep
                let preds = [
                    WordPred::Contains(0),
                    WordPred::Contains(2),
                    WordPred::Subseq(0, 1),
                    WordPred::Subseq(2, 0),
                    WordPred::LenGe(2),
                    WordPred::CountGe(1, 2),
                    WordPred::Always(true),
                    WordPred::Always(false),
                ];
                let pick = (idx / 3) as usize;
                let p0 = preds[pick % preds.len()].clone();
                let x0 = (pick / preds.len()) % n;
                if (pick / (preds.len() * n)) % 2 == 0 {
                    live.step(&Op::Lb(x0, p0), &mut cx);
                } else {
                    live.step(&Op::LbRev(x0, p0), &mut cx);
                }
                for p in preds.iter() {
                    for x in 0..n {
                        live.step(&Op::Lb(x, p.clone()), &mut cx);
                        live.step(&Op::LbRev(x, p.clone()), &mut cx);
                    }
                }
            }
        }
        if nontrivial {
            cx.rep.see("nontrivial", mix(&[n as u64, idx]));
        }
        if cx.rep.wants_sample() && seq.len() == maxlen {
            cx.rep.sample(Json::obj().set("n", n).set("enumerated_history", Json::from(live.log.iter().take(seq.len() + 1).cloned().collect::<Vec<_>>())));
        }
        if verbose {
            for l in &live.log {
                eprintln!("  {}", l);
            }
        }
    });
    if let Err(p) = r {
        if p.in_lib {
            cx.violation("panic", Json::obj().set("panic", p.msg.as_str()).set("at", format!("{}:{}", p.file, p.line)));
        } else {
            cx.rep.inconclusive(format!("harness panic at {}:{}: {}", p.file, p.line, p.msg));
        }
    }
}

// ------------------------------------------------------------------------------------------------

type P2 = PairAlg<MinAddI64, MaxAddI64>;
type P3 = PairAlg<SumAddI64, PairAlg<MinAddI64, MaxAddI64>>;
type P4 = PairAlg<PairAlg<SumAddI32, MinAddI32>, PairAlg<MaxAddI32, PairAlg<SumAddI32, MaxAddI32>>>;
// ------------------------------------------------------------------------------------------------
// "sleeper" histories: one query, then exactly W operations of one kind that never query, then the same query again.
// W sits at and around 2^8 and 2^16 (anything that counts operations in a narrow integer - generation stamps, epochs
// - wraps there), which no random history of a few dozen operations reaches.

const SLEEPER_W: &[usize] = &[255, 256, 257, 65_535, 65_536, 65_537, 131_072];

fn run_sleeper_case<A: Algebra>(case_seed: u64, judge: Judge, _thorough: bool, rep: &mut Report, verbose: bool) {
    let mut rng = Rng::new(case_seed);
    let nonneg = judge == Judge::Search && A::search_needs_nonneg();
    let w = SLEEPER_W[(case_seed % SLEEPER_W.len() as u64) as usize];
    let n = (*rng.pick(&[2usize, 3, 5, 8, 13, 16, 17, 33])).min(A::max_n());
    let first = gen_construct::<A>(&mut rng, n, nonneg);
    let mut cx = Ctx {
        judge,
        rep,
        replay: vec!["--mode".into(), "sleeper".into(), "--case".into(), format!("{}:{}", A::name(), case_seed)],
        verbose,
        algebra: A::name(),
    };
    cx.rep.inc("evaluations");
    cx.rep.inc("sleeper_histories");
    cx.rep.see("sleeper_gaps", w as u64);
    let r = catch(|| {
        let (tree, shadow) = construct::<A>(&first);
        let mut live: Live<A> = Live { tree, shadow, log: vec![format!("{:?}", first)], prev_kind: op_kind(&first) };
        for _ in 0..rng.usize_below(4) {
            let op = gen_op::<A>(&mut rng, &live, judge, nonneg, &[n]);
            if matches!(op, Op::New(..) | Op::FromSlice(..) | Op::FromIter(..) | Op::RecycleNew(..)) {
                continue;
            }
            live.step(&op, &mut cx);
        }
        // the query that is repeated
        let pos = if n > 1 && rng.chance(3, 4) { rng.range_usize(1, n - 1) } else { rng.usize_below(n) };
        let probe: Op<A> = match judge {
            Judge::Fold => {
                let (l, r) = gen_range(&mut rng, n);
                Op::Ask(l, r)
            }
            Judge::Search => {
                let p = A::gen_pred(&mut rng, &live.shadow);
                if rng.chance(1, 2) {
                    Op::Lb(pos, p)
                } else {
                    Op::LbRev(pos, p)
                }
            }
        };
        live.step(&probe, &mut cx);
        // exactly w operations of one kind; the log keeps a summary only
        let kind = rng.below(4);
        let full_at = rng.usize_below(w);
        if kind == 3 && n >= 4 {
            // kind 3: the w point assignments stay in one half of the array while range modifications are still pending in
            // the other half (attached just before, never queried since); the final probe and the complete probe after it
            // look at both halves
            let right = rng.chance(1, 2);
            let (lo, hi) = if right { (n / 2, n - 1) } else { (0, n / 2 - 1) };
            if A::has_mod() {
                for _ in 0..3 {
                    let a = rng.range_usize(lo, hi);
                    let b = rng.range_usize(lo, hi);
                    live.step(&Op::Modify(a.min(b), a.max(b), A::gen_mod(&mut rng, nonneg)), &mut cx);
                }
            }
            let (slo, shi) = if right { (0, n / 2 - 1) } else { (n / 2, n - 1) };
            let log_len = live.log.len();
            for _ in 0..w {
                let j = rng.range_usize(slo, shi);
                let mut e = A::gen_elem(&mut rng, nonneg);
                A::at(&mut e, j);
                live.step(&Op::Set(j, e), &mut cx);
                live.log.truncate(log_len);
            }
            live.log.push(format!("... {} point assignments inside [{}, {}] without a query (modifications pending inside [{}, {}]) ...", w, slo, shi, lo, hi));
            live.step(&probe, &mut cx);
            live.step(&Op::Ask(lo, hi), &mut cx);
            live.final_probe(&mut rng, &mut cx);
            cx.rep.inc("sleeper_histories_confined_to_one_half");
            cx.rep.see("nontrivial", mix(&[case_seed, common::hash_str(&A::name()), 0x51ef]));
            return;
        }
        let kind = kind % 3;
        let log_len = live.log.len();
        for i in 0..w {
            let op: Op<A> = if kind == 0 || (kind == 2 && i % 2 == 0) || !A::has_mod() && false {
                if A::has_mod() {
                    let (l, r) = if i == full_at { (0, n - 1) } else { gen_range(&mut rng, n) };
                    Op::Modify(l, r, A::gen_mod(&mut rng, nonneg))
                } else {
                    let j = rng.usize_below(n);
                    let mut e = A::gen_elem(&mut rng, nonneg);
                    A::at(&mut e, j);
                    Op::Set(j, e)
                }
            } else {
                let j = rng.usize_below(n);
                let mut e = A::gen_elem(&mut rng, nonneg);
                A::at(&mut e, j);
                Op::Set(j, e)
            };
            live.step(&op, &mut cx);
            live.log.truncate(log_len);
        }
        live.log.push(format!("... {} operations without a query ({}) ...", w, ["modify only", "set only", "modify and set alternating"][kind as usize]));
        live.step(&probe, &mut cx);
        live.final_probe(&mut rng, &mut cx);
        cx.rep.see("nontrivial", mix(&[case_seed, common::hash_str(&A::name()), 0x51ee]));
    });
    if let Err(p) = r {
        if p.in_lib {
            cx.violation("panic", Json::obj().set("what", "the library panicked on a lawful operation").set("panic", p.msg.as_str()).set("at", format!("{}:{}", p.file, p.line)));
        } else {
            cx.rep.inconclusive(format!("harness panic at {}:{}: {}", p.file, p.line, p.msg));
        }
    }
}

// ------------------------------------------------------------------------------------------------
// the same at 2^32: one query, 2^32 (-1, +0, +1) whole-range modifications / point assignments straight on the tree (the
// plain-array model is advanced in closed form: the bulk comes in pairs that cancel, the last operations do not), the same
// query again. Only for algebras whose modifier has an inverse (range add) or with point assignments; thorough tier.

fn run_sleeper32_case<A: Algebra<Elem = i64>>(case_seed: u64, judge: Judge, gap: u64, inverse: &dyn Fn(&A::Mod) -> A::Mod, rep: &mut Report, verbose: bool) {
    let mut rng = Rng::new(case_seed);
    let nonneg = judge == Judge::Search && A::search_needs_nonneg();
    let n = *rng.pick(&[3usize, 5, 8]);
    let first = gen_construct::<A>(&mut rng, n, nonneg);
    let mut cx = Ctx {
        judge,
        rep,
        replay: vec!["--mode".into(), "sleeper32".into(), "--case".into(), format!("{}:{}:{}", A::name(), gap, case_seed)],
        verbose,
        algebra: A::name(),
    };
    cx.rep.inc("evaluations");
    cx.rep.inc("sleeper32_histories");
    cx.rep.see("sleeper_gaps", gap);
    let r = catch(|| {
        let (tree, shadow) = construct::<A>(&first);
        let mut live: Live<A> = Live { tree, shadow, log: vec![format!("{:?}", first)], prev_kind: op_kind(&first) };
        let probe: Op<A> = match judge {
            Judge::Fold => {
                let (l, r) = gen_range(&mut rng, n);
                Op::Ask(l, r)
            }
            Judge::Search => {
                let p = A::gen_pred(&mut rng, &live.shadow);
                Op::Lb(rng.usize_below(n), p)
            }
        };
        live.step(&probe, &mut cx);
        let tail = 3u64;
        let bulk = gap - tail;
        let pairs = bulk / 2;
        let m = A::gen_mod(&mut rng, true);
        let inv = inverse(&m);
        if A::has_mod() {
            for _ in 0..pairs {
                lib!(live.tree.modify(0, n - 1, &m));
                lib!(live.tree.modify(0, n - 1, &inv));
            }
            if bulk % 2 == 1 {
                // (one more that does not cancel)
                live.step(&Op::Modify(0, n - 1, m.clone()), &mut cx);
            }
            live.log.push(format!("... {} whole-range modifications in cancelling pairs ({:?} / {:?}), no query ...", pairs * 2, m, inv));
        } else {
            let e0 = live.shadow[0];
            let a = A::leaf(&(e0 + 1));
            let b = A::leaf(&e0);
            for _ in 0..pairs {
                lib!(live.tree.set(0, a.clone()));
                lib!(live.tree.set(0, b.clone()));
            }
            if bulk % 2 == 1 {
                live.step(&Op::Set(0, e0 + 1), &mut cx);
            }
            live.log.push(format!("... {} point assignments at index 0 alternating {} / {}, no query ...", pairs * 2, e0 + 1, e0));
        }
        cx.rep.count("sleeper32_bulk_operations", bulk);
        for _ in 0..tail {
            let j = rng.usize_below(n);
            let op: Op<A> = if A::has_mod() && rng.chance(1, 2) { Op::Modify(j.min(1), n - 1, A::gen_mod(&mut rng, true)) } else { Op::Set(j, live.shadow[j] + 1 + rng.below(5) as i64) };
            live.step(&op, &mut cx);
        }
        live.step(&probe, &mut cx);
        live.final_probe(&mut rng, &mut cx);
        cx.rep.see("nontrivial", mix(&[case_seed, common::hash_str(&A::name()), gap]));
    });
    if let Err(p) = r {
        if p.in_lib {
            cx.violation("panic", Json::obj().set("what", "the library panicked on a lawful operation").set("panic", p.msg.as_str()).set("at", format!("{}:{}", p.file, p.line)));
        } else {
            cx.rep.inconclusive(format!("harness panic at {}:{}: {}", p.file, p.line, p.msg));
        }
    }
}

// ------------------------------------------------------------------------------------------------
// very large trees (built-in sums, cheap elements): sizes just above large powers of two, operations biased to the two
// ends of the array; the plain-array oracle is linear per operation, so only a handful of operations per tree

fn huge_sizes(thorough: bool) -> Vec<usize> {
    let mut v = vec![(1 << 20) + 1, 1 << 21, (1 << 21) + 1, 3 << 20, (1 << 22) - 1, 1 << 22, (1 << 22) + 1, (1 << 22) + 2, (1 << 23) + 1, (1 << 23) + 5];
    if thorough {
        v.extend([(1 << 24) + 1, (1 << 24) + 7, (1 << 25) + 1]);
    }
    v
}

fn run_huge_case<A: Algebra>(case_seed: u64, judge: Judge, n: usize, rep: &mut Report, verbose: bool) {
    let mut rng = Rng::new(case_seed);
    let nonneg = judge == Judge::Search && A::search_needs_nonneg();
    let first = gen_construct::<A>(&mut rng, n, nonneg);
    let mut cx = Ctx {
        judge,
        rep,
        replay: vec!["--mode".into(), "huge".into(), "--case".into(), format!("{}:{}:{}", A::name(), n, case_seed)],
        verbose,
        algebra: A::name(),
    };
    cx.rep.inc("evaluations");
    cx.rep.inc("huge_histories");
    cx.rep.see("sizes", n as u64);
    cx.rep.max("max_n", n as i64);
    let r = catch(|| {
        let (tree, shadow) = construct::<A>(&first);
        let mut live: Live<A> = Live { tree, shadow, log: vec![format!("{} of {} elements", op_kind(&first), n)], prev_kind: op_kind(&first) };
        let edge = |rng: &mut Rng| -> usize {
            match rng.below(8) {
                0 => 0,
                1 => 1,
                2 => n - 1,
                3 => n - 2,
                4 => n - 3,
                5 => n / 2,
                _ => rng.usize_below(n),
            }
        };
        for _ in 0..14 {
            let op: Op<A> = match rng.below(if judge == Judge::Fold { 3 } else { 5 }) {
                0 => {
                    let j = edge(&mut rng);
                    let mut e = A::gen_elem(&mut rng, nonneg);
                    A::at(&mut e, j);
                    Op::Set(j, e)
                }
                1 if A::has_mod() => {
                    let (a, b) = (edge(&mut rng), edge(&mut rng));
                    Op::Modify(a.min(b), a.max(b), A::gen_mod(&mut rng, nonneg))
                }
                1 | 2 => {
                    if rng.chance(1, 2) && n > 16 {
                        // ragged at both ends: the query decomposes into about 2*log2(n) pieces
                        let l = *rng.pick(&[1usize, 3, 5, 7]);
                        let r = n - 1 - *rng.pick(&[1usize, 2, 4, 6]);
                        Op::Ask(l, r)
                    } else {
                        let (a, b) = (edge(&mut rng), edge(&mut rng));
                        Op::Ask(a.min(b), a.max(b))
                    }
                }
                3 => Op::Lb(edge(&mut rng), A::gen_pred(&mut rng, &live.shadow)),
                _ => Op::LbRev(edge(&mut rng), A::gen_pred(&mut rng, &live.shadow)),
            };
            live.step(&op, &mut cx);
        }
        cx.rep.see("nontrivial", mix(&[case_seed, n as u64, 0x4e6e]));
    });
    if let Err(p) = r {
        if p.in_lib {
            cx.violation("panic", Json::obj().set("what", "the library panicked on a lawful operation").set("n", n).set("panic", p.msg.as_str()).set("at", format!("{}:{}", p.file, p.line)));
        } else {
            cx.rep.inconclusive(format!("harness panic at {}:{}: {}", p.file, p.line, p.msg));
        }
    }
}

type BigHash = Wrapped<HashWord, 24, false>;
type BigWord = Wrapped<FreeWord, 40, false>;
type ReentHash = Wrapped<HashWord, 1, true>;
type ReentAffine = Wrapped<AffineSum, 0, true>;
type PW = PairAlg<FreeWord, LetterCount>;
type PV = PairAlg<LetterCount, FreeWord>;
type PH = PairAlg<HashWord, PairAlg<LetterCount, HashWord>>;
type PN = PairAlg<MinI64, PairAlg<MaxI64, SumI64>>;
type SumAddZ6 = SumAddZm<6>;
type SumAddZ2 = SumAddZm<2>;
type SumAddZ256 = SumAddZm<256>;
type SumAddZ12 = SumAddZm<12>;
type XU1 = ProdAlg<TouchUnit, MinI64>;
type XU2 = ProdAlg<SumI64, TouchUnit>;
type XU3 = ProdAlg<MaxI64, ProdAlg<TouchUnit, SumCat>>;
type XT1 = ProdAlg<MinAddI64, TouchCount>;
type XT2 = ProdAlg<TouchCount, MaxAddI64>;
type XT3 = ProdAlg<ProdAlg<SumAddI64, TouchCount>, MinAddI64>;

macro_rules! for_each_algebra {
    ($mac:ident) => {
        $mac!(FreeWord, 6);
        $mac!(HashWord, 6);
        $mac!(AffineSum, 4);
        $mac!(MinI64, 1);
        $mac!(MaxI64, 1);
        $mac!(SumI64, 1);
        $mac!(MinI32, 1);
        $mac!(MinKeyed, 2);
        $mac!(MaxKeyed, 2);
        $mac!(MaxI32, 1);
        $mac!(SumI32, 1);
        $mac!(MinAddI64, 2);
        $mac!(MaxAddI64, 2);
        $mac!(SumAddI64, 2);
        $mac!(MinAddI32, 2);
        $mac!(MaxAddI32, 2);
        $mac!(SumAddI32, 2);
        $mac!(MinAddI64Sent, 2);
        $mac!(MaxAddI64Sent, 2);
        $mac!(MinAddI8Sent, 1);
        $mac!(MaxAddI8Sent, 1);
        $mac!(ProgAdd, 4);
        $mac!(FlipCount, 3);
        $mac!(BigHash, 2);
        $mac!(BigWord, 2);
        $mac!(ReentHash, 2);
        $mac!(ReentAffine, 1);
        $mac!(P2, 2);
        $mac!(P3, 2);
        $mac!(P4, 2);
        $mac!(PW, 3);
        $mac!(PV, 2);
        $mac!(PH, 2);
        $mac!(PN, 1);
        $mac!(TouchCount, 1);
        $mac!(TouchUnit, 1);
        $mac!(XU1, 2);
        $mac!(XU2, 2);
        $mac!(XU3, 1);
        $mac!(SumAddZ6, 2);
        $mac!(SumAddZ2, 1);
        $mac!(SumAddZ256, 1);
        $mac!(SumAddZ12, 1);
        $mac!(SumCat, 2);
        $mac!(XT1, 3);
        $mac!(XT2, 2);
        $mac!(XT3, 2);
    };
}

fn self_check(rep: &mut Report) {
    // harness sanity: the identity observable must be what Default items show (otherwise the oracle is wrong)
    macro_rules! chk {
        ($a:ty, $w:expr) => {
            if <$a as Algebra>::observe(&Default::default()) != <$a as Algebra>::empty() {
                rep.inconclusive(format!("harness self-check failed: identity of {}", <$a as Algebra>::name()));
            }
        };
    }
    for_each_algebra!(chk);
}

fn main() {
    let eng = Engine::start("segmon");
    let a = &eng.args;
    let judge = match a.str("judge", "fold").as_str() {
        "fold" => Judge::Fold,
        "search" => Judge::Search,
        j => panic!("unknown judge {}", j),
    };
    let mode = a.str("mode", "random");
    let thorough = a.thorough();
    let seed = a.seed();
    let mut report = Report::new();
    self_check(&mut report);
    report.extra("judge", format!("{:?}", judge));
    report.extra("mode", mode.as_str());

    if mode == "random" {
        // list of (name, weight, runner)
        type Runner = fn(u64, Judge, bool, &mut Report, bool);
        let mut table: Vec<(String, u32, Runner)> = Vec::new();
        macro_rules! reg {
            ($a:ty, $w:expr) => {
                table.push((<$a as Algebra>::name(), $w, run_random_case::<$a> as Runner));
            };
        }
        for_each_algebra!(reg);
        if let Some(case) = a.opt("case") {
            let (name, cs) = case.rsplit_once(':').expect("case = algebra:seed");
            let cs: u64 = cs.parse().expect("seed");
            let f = table.iter().find(|t| t.0 == name).expect("unknown algebra").2;
            let rep = common::run_big_stack(|| {
                let mut rep = Report::new();
                f(cs, judge, thorough, &mut rep, true);
                rep
            });
            report.merge(rep);
            eng.finish(report);
        }
        let per_weight: u64 = a.u64("cases-per-weight", if thorough { 120_000 } else { 8_000 });
        let mut plan: Vec<(usize, u64)> = Vec::new(); // (algebra index, count)
        for (i, t) in table.iter().enumerate() {
            plan.push((i, t.1 as u64 * per_weight));
        }
        let total: u64 = plan.iter().map(|p| p.1).sum();
        let q = WorkQueue::new(total);
        let table = &table;
        let plan = &plan;
        let rep = common::run_sharded(a.threads(), |_shard, rep| {
            rep.sample_cap = 2;
            while let Some((lo, hi)) = q.take_block(64) {
                for idx in lo..hi {
                    // locate the algebra of this index
                    let mut k = idx;
                    let mut ai = 0;
                    for (i, cnt) in plan.iter() {
                        if k < *cnt {
                            ai = *i;
                            break;
                        }
                        k -= *cnt;
                    }
                    let case_seed = mix(&[seed, judge as u64, ai as u64, k]);
                    (table[ai].2)(case_seed, judge, thorough, rep, false);
                }
            }
        });
        report.merge(rep);
        report.extra("exhaustive", false);
        report.extra("algebras", Json::from(table.iter().map(|t| t.0.clone()).collect::<Vec<_>>()));
    } else if mode == "exhaustive" {
        if let Some(case) = a.opt("case") {
            let (n, idx) = case.split_once(':').expect("case = n:index");
            let n: usize = n.parse().unwrap();
            let idx: u64 = idx.parse().unwrap();
            let ops = exhaustive_ops(n);
            // the recorded index was produced under the tier's max length; try the thorough bound when out of range
            let mut maxlen = exhaustive_len(n, thorough);
            if idx >= exhaustive_total(ops.len(), maxlen) {
                maxlen = exhaustive_len(n, true);
            }
            let mut rep = Report::new();
            run_exhaustive_case(n, idx, &ops, maxlen, judge, &mut rep, true);
            report.merge(rep);
            eng.finish(report);
        }
        let mut scopes = Vec::new();
        for n in 1..=5usize {
            let ops = exhaustive_ops(n);
            let maxlen = exhaustive_len(n, thorough);
            let total = exhaustive_total(ops.len(), maxlen);
            scopes.push(Json::obj().set("n", n).set("op_alphabet", ops.len()).set("max_len", maxlen).set("histories", total));
            let q = WorkQueue::new(total);
            let ops = &ops;
            let rep = common::run_sharded(a.threads(), |_shard, rep| {
                rep.sample_cap = 1;
                while let Some((lo, hi)) = q.take_block(256) {
                    for idx in lo..hi {
                        run_exhaustive_case(n, idx, ops, maxlen, judge, rep, false);
                    }
                }
            });
            report.merge(rep);
        }
        report.extra("exhaustive", true);
        report.extra("scopes", Json::Arr(scopes));
    } else if mode == "sleeper32" {
        // (gap, algebra) grid; one thread each
        let gaps: Vec<u64> = match a.opt("gap") {
            Some(g) => vec![g.parse().expect("--gap")],
            None => vec![(1u64 << 32) - 1, 1 << 32, (1 << 32) + 1],
        };
        type Task = Box<dyn Fn(u64, Judge, u64, &mut Report, bool) + Send + Sync>;
        let neg = |m: &i64| -*m;
        let unit = |_m: &()| ();
        let table: Vec<(String, Task)> = vec![
            (SumAddI64::name(), Box::new(move |cs, j, g, rep: &mut Report, v| run_sleeper32_case::<SumAddI64>(cs, j, g, &neg, rep, v))),
            (MinAddI64::name(), Box::new(move |cs, j, g, rep: &mut Report, v| run_sleeper32_case::<MinAddI64>(cs, j, g, &neg, rep, v))),
            (MaxI64::name(), Box::new(move |cs, j, g, rep: &mut Report, v| run_sleeper32_case::<MaxI64>(cs, j, g, &unit, rep, v))),
        ];
        if let Some(case) = a.opt("case") {
            let parts: Vec<&str> = case.rsplitn(3, ':').collect();
            let cs: u64 = parts[0].parse().expect("seed");
            let g: u64 = parts[1].parse().expect("gap");
            let f = &table.iter().find(|t| t.0 == parts[2]).expect("unknown algebra").1;
            let mut rep = Report::new();
            f(cs, judge, g, &mut rep, true);
            report.merge(rep);
            eng.finish(report);
        }
        let total = (table.len() * gaps.len()) as u64;
        let q = WorkQueue::new(total);
        let table = &table;
        let gaps = &gaps;
        let rep = common::run_sharded(a.threads().min(total as usize), |_shard, rep| {
            rep.sample_cap = 0;
            while let Some(idx) = q.take() {
                let ai = idx as usize % table.len();
                let g = gaps[idx as usize / table.len()];
                (table[ai].1)(mix(&[seed, judge as u64, idx, 0x5132]), judge, g, rep, false);
            }
        });
        report.merge(rep);
        report.extra("exhaustive", false);
    } else if mode == "sleeper" {
        type Runner = fn(u64, Judge, bool, &mut Report, bool);
        let mut table: Vec<(String, u32, Runner)> = Vec::new();
        macro_rules! regs {
            ($a:ty, $w:expr) => {
                table.push((<$a as Algebra>::name(), $w, run_sleeper_case::<$a> as Runner));
            };
        }
        for_each_algebra!(regs);
        // 8-bit element types cannot absorb 10^5 additions without leaving their range (the caller's overflow, not the tree's)
        table.retain(|t| !t.0.contains("i8"));
        if let Some(case) = a.opt("case") {
            let (name, cs) = case.rsplit_once(':').expect("case = algebra:seed");
            let cs: u64 = cs.parse().expect("seed");
            let f = table.iter().find(|t| t.0 == name).expect("unknown algebra").2;
            let rep = common::run_big_stack(|| {
                let mut rep = Report::new();
                f(cs, judge, thorough, &mut rep, true);
                rep
            });
            report.merge(rep);
            eng.finish(report);
        }
        // every algebra x every gap (case_seed % gaps selects the gap) x repetitions
        let reps = a.u64("reps", if thorough { 12 } else { 2 });
        let gaps = SLEEPER_W.len() as u64;
        let total = table.len() as u64 * gaps * reps;
        let q = WorkQueue::new(total);
        let table = &table;
        let rep = common::run_sharded(a.threads(), |_shard, rep| {
            rep.sample_cap = 0;
            while let Some(idx) = q.take() {
                // largest gaps first
                let idx = total - 1 - idx;
                let ai = (idx / (gaps * reps)) as usize;
                let g = (idx / reps) % gaps;
                let k = idx % reps;
                let base = mix(&[seed, judge as u64, ai as u64, k, 0x51]);
                let case_seed = base - base % gaps + g;
                (table[ai].2)(case_seed, judge, thorough, rep, false);
            }
        });
        report.merge(rep);
        report.extra("exhaustive", false);
        report.extra("gaps", Json::from(SLEEPER_W.to_vec()));
    } else if mode == "huge" {
        type HRunner = fn(u64, Judge, usize, &mut Report, bool);
        let table: Vec<(String, HRunner)> = vec![
            (<SumAddI64 as Algebra>::name(), run_huge_case::<SumAddI64> as HRunner),
            (<SumI64 as Algebra>::name(), run_huge_case::<SumI64> as HRunner),
            (<MinAddI32 as Algebra>::name(), run_huge_case::<MinAddI32> as HRunner),
            (<FlipCount as Algebra>::name(), run_huge_case::<FlipCount> as HRunner),
            // a non-commutative merge: the order in which the pieces of a query are combined matters
            (<HashWord as Algebra>::name(), run_huge_case::<HashWord> as HRunner),
        ];
        if let Some(case) = a.opt("case") {
            let parts: Vec<&str> = case.split(':').collect();
            let (name, n, cs): (&str, usize, u64) = (parts[0], parts[1].parse().unwrap(), parts[2].parse().unwrap());
            let f = table.iter().find(|t| t.0 == name).expect("unknown algebra").1;
            let rep = common::run_big_stack(move || {
                let mut rep = Report::new();
                f(cs, judge, n, &mut rep, true);
                rep
            });
            report.merge(rep);
            eng.finish(report);
        }
        let sizes = huge_sizes(thorough);
        // (the non-commutative algebra has 56-byte nodes: not beyond 2^22 + 2 elements)
        let tasks: Vec<(usize, usize, u64)> = (0..table.len())
            .flat_map(|ai| sizes.iter().map(move |&n| (ai, n)))
            .filter(|&(ai, n)| ai != 4 || n <= (1 << 22) + 2)
            .flat_map(|(ai, n)| (0..2u64).map(move |k| (ai, n, k)))
            .collect();
        let q = WorkQueue::new(tasks.len() as u64);
        let (table, tasks) = (&table, &tasks);
        // at most 8 trees at a time (memory)
        let rep = common::run_sharded(a.threads().min(8), |_shard, rep| {
            rep.sample_cap = 0;
            while let Some(i) = q.take() {
                let (ai, n, k) = tasks[tasks.len() - 1 - i as usize];
                (table[ai].1)(mix(&[seed, judge as u64, ai as u64, n as u64, k]), judge, n, rep, false);
            }
        });
        report.merge(rep);
        report.extra("exhaustive", false);
        report.extra("sizes_run", Json::from(sizes));
    } else {
        panic!("unknown mode {}", mode);
    }
    eng.finish(report);
}
