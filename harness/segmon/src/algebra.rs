//! Item algebras the segment-tree monitor drives. Each one gives (a) a node type implementing the
//! library's public `SegtreeItem` trait (or a built-in), (b) the plain-array semantics of its
//! elements and modifiers, (c) an *independent* left-to-right fold used as the oracle and
//! (d) predicates that are monotone along growing ranges by construction.

use common::Rng;
use rlib_segtree::segtree_items::{Combinator, Max, MaxAdd, Min, MinAdd, Sum, SumAdd};
use rlib_segtree::SegtreeItem;
use std::fmt::Debug;

pub trait Algebra: 'static + Debug + Clone {
    type Item: SegtreeItem<Self::Mod> + Clone + Default + Debug;
    type Mod: Clone + Debug;
    type Elem: Clone + PartialEq + Debug;
    type Obs: Clone + PartialEq + Debug;
    type Pred: Clone + Debug;
    fn name() -> String;
    fn has_mod() -> bool {
        true
    }
    fn max_n() -> usize {
        usize::MAX
    }
    fn gen_elem(rng: &mut Rng, nonneg: bool) -> Self::Elem;
    fn gen_mod(rng: &mut Rng, nonneg: bool) -> Self::Mod;
    fn leaf(e: &Self::Elem) -> Self::Item;
    fn apply(e: &mut Self::Elem, m: &Self::Mod);
    /// observable of the empty range (the merge identity)
    fn empty() -> Self::Obs;
    /// fold one more element on the right
    fn extend(o: &mut Self::Obs, e: &Self::Elem);
    /// fold one more element on the left
    fn extend_left(o: &mut Self::Obs, e: &Self::Elem);
    fn observe(item: &Self::Item) -> Self::Obs;
    /// does this node hold a non-identity pending modifier (coverage statistics only)
    fn pending(item: &Self::Item) -> bool;
    fn gen_pred(rng: &mut Rng, shadow: &[Self::Elem]) -> Self::Pred;
    fn eval(p: &Self::Pred, o: &Self::Obs) -> bool;
    /// sum-threshold predicates are monotone only for non-negative contents
    fn search_needs_nonneg() -> bool {
        false
    }
    /// the position x such that this observable is the fold of exactly `len` elements, if the
    /// observable carries its own length (exact check of predicate arguments)
    fn obs_len(_o: &Self::Obs) -> Option<usize> {
        None
    }
    /// elements know their own position (the item stores it): trees are only built from slices / iterators and a point
    /// assignment puts the right position into the element
    fn positional() -> bool {
        false
    }
    fn at(_e: &mut Self::Elem, _i: usize) {}
    fn fold(elems: &[Self::Elem]) -> Self::Obs {
        let mut o = Self::empty();
        for e in elems {
            Self::extend(&mut o, e);
        }
        o
    }
}

// ------------------------------------------------------------------------------------------------
// letter maps {0,1,2} -> {0,1,2}

pub type LMap = [u8; 3];
pub const LID: LMap = [0, 1, 2];

fn compose(first: &LMap, then: &LMap) -> LMap {
    [then[first[0] as usize], then[first[1] as usize], then[first[2] as usize]]
}

pub fn gen_lmap(rng: &mut Rng) -> LMap {
    // all 27 maps, biased towards the instructive ones: constants (assign), 3-cycles (non-idempotent),
    // transpositions and collapses (non-commuting)
    match rng.below(10) {
        0 => [0, 0, 0],
        1 => [2, 2, 2],
        2 => [1, 2, 0],
        3 => [2, 0, 1],
        4 => [1, 0, 2],
        5 => [1, 1, 0],
        _ => [rng.below(3) as u8, rng.below(3) as u8, rng.below(3) as u8],
    }
}

#[derive(Clone, Debug, PartialEq)]
pub enum WordPred {
    Always(bool),
    Contains(u8),
    LenGe(usize),
    /// letter a occurs somewhere before letter b (subsequence "ab"): order-sensitive
    Subseq(u8, u8),
    /// at least k occurrences of the letter
    CountGe(u8, usize),
}

fn gen_word_pred(rng: &mut Rng, n: usize, order_sensitive: bool) -> WordPred {
    match rng.below(if order_sensitive { 12 } else { 9 }) {
        0 => WordPred::Always(true),
        1 => WordPred::Always(false),
        2 | 3 => WordPred::Contains(rng.below(3) as u8),
        4 | 5 => WordPred::LenGe(rng.range_usize(1, n + 1)),
        6 | 7 | 8 => WordPred::CountGe(rng.below(3) as u8, rng.range_usize(1, (n / 2).max(1))),
        _ => {
            let a = rng.below(3) as u8;
            let mut b = rng.below(3) as u8;
            if b == a {
                b = (a + 1) % 3;
            }
            WordPred::Subseq(a, b)
        }
    }
}

// ------------------------------------------------------------------------------------------------
// FreeWord: the free monoid over {a,b,c} with letter-wise maps as modifiers

#[derive(Clone, Default)]
pub struct FwItem {
    pub w: Vec<u8>,
    pub pend: Option<LMap>,
}

impl Debug for FwItem {
    fn fmt(&self, f: &mut std::fmt::Formatter<'_>) -> std::fmt::Result {
        let s: String = self.w.iter().map(|&c| (b'a' + c) as char).collect();
        write!(f, "{}", s)
    }
}

impl SegtreeItem<LMap> for FwItem {
    fn merge(left: &Self, right: &Self) -> Self {
        let mut w = Vec::with_capacity(left.w.len() + right.w.len());
        w.extend_from_slice(&left.w);
        w.extend_from_slice(&right.w);
        FwItem { w, pend: None }
    }
    fn modify(&mut self, m: &LMap) {
        for c in self.w.iter_mut() {
            *c = m[*c as usize];
        }
        self.pend = Some(match &self.pend {
            None => *m,
            Some(p) => compose(p, m),
        });
    }
    fn push(&mut self, left: &mut Self, right: &mut Self) {
        if let Some(p) = self.pend.take() {
            left.modify(&p);
            right.modify(&p);
        }
    }
}

#[derive(Debug, Clone)]

pub struct FreeWord;

impl Algebra for FreeWord {
    type Item = FwItem;
    type Mod = LMap;
    type Elem = u8;
    type Obs = Vec<u8>;
    type Pred = WordPred;
    fn name() -> String {
        "FreeWord".into()
    }
    fn max_n() -> usize {
        129
    }
    fn gen_elem(rng: &mut Rng, _nonneg: bool) -> u8 {
        rng.below(3) as u8
    }
    fn gen_mod(rng: &mut Rng, _nonneg: bool) -> LMap {
        gen_lmap(rng)
    }
    fn leaf(e: &u8) -> FwItem {
        FwItem { w: vec![*e], pend: None }
    }
    fn apply(e: &mut u8, m: &LMap) {
        *e = m[*e as usize];
    }
    fn empty() -> Vec<u8> {
        Vec::new()
    }
    fn extend(o: &mut Vec<u8>, e: &u8) {
        o.push(*e);
    }
    fn extend_left(o: &mut Vec<u8>, e: &u8) {
        o.insert(0, *e);
    }
    fn observe(item: &FwItem) -> Vec<u8> {
        item.w.clone()
    }
    fn pending(item: &FwItem) -> bool {
        matches!(item.pend, Some(p) if p != LID)
    }
    fn gen_pred(rng: &mut Rng, shadow: &[u8]) -> WordPred {
        gen_word_pred(rng, shadow.len(), true)
    }
    fn eval(p: &WordPred, o: &Vec<u8>) -> bool {
        match p {
            WordPred::Always(b) => *b,
            WordPred::Contains(c) => o.contains(c),
            WordPred::LenGe(k) => o.len() >= *k,
            WordPred::CountGe(c, k) => o.iter().filter(|x| *x == c).count() >= *k,
            WordPred::Subseq(a, b) => match o.iter().position(|x| x == a) {
                Some(i) => o[i + 1..].contains(b),
                None => false,
            },
        }
    }
    fn obs_len(o: &Vec<u8>) -> Option<usize> {
        Some(o.len())
    }
}

// ------------------------------------------------------------------------------------------------
// HashWord: the same free algebra in O(1) space - per-letter positional polynomial hashes mod 2^61-1
// plus exact letter counts. A letter map permutes/merges the per-letter hashes, so it is a lawful
// modifier and does not commute with other maps; merge is not commutative.

const P61: u64 = (1u64 << 61) - 1;
const HB: u64 = 0x1F3A_5C7E_9B2D_4461 % P61;

fn mulm(a: u64, b: u64) -> u64 {
    ((a as u128 * b as u128) % P61 as u128) as u64
}
fn addm(a: u64, b: u64) -> u64 {
    let s = a + b;
    if s >= P61 {
        s - P61
    } else {
        s
    }
}

#[derive(Clone, Debug, PartialEq)]
pub struct HwObs {
    pub h: [u64; 3],
    pub cnt: [u32; 3],
    pub len: u32,
    pub pw: u64,
}

#[derive(Clone, Debug)]
pub struct HwItem {
    pub o: HwObs,
    pub pend: Option<LMap>,
}

impl Default for HwItem {
    fn default() -> Self {
        HwItem { o: HwObs { h: [0; 3], cnt: [0; 3], len: 0, pw: 1 }, pend: None }
    }
}

fn hw_merge(l: &HwObs, r: &HwObs) -> HwObs {
    let mut h = [0u64; 3];
    let mut cnt = [0u32; 3];
    for c in 0..3 {
        h[c] = addm(mulm(l.h[c], r.pw), r.h[c]);
        cnt[c] = l.cnt[c] + r.cnt[c];
    }
    HwObs { h, cnt, len: l.len + r.len, pw: mulm(l.pw, r.pw) }
}

fn hw_map(o: &mut HwObs, m: &LMap) {
    let mut h = [0u64; 3];
    let mut cnt = [0u32; 3];
    for c in 0..3 {
        let d = m[c] as usize;
        h[d] = addm(h[d], o.h[c]);
        cnt[d] += o.cnt[c];
    }
    o.h = h;
    o.cnt = cnt;
}

fn hw_single(e: u8) -> HwObs {
    let mut h = [0u64; 3];
    let mut cnt = [0u32; 3];
    h[e as usize] = 1;
    cnt[e as usize] = 1;
    HwObs { h, cnt, len: 1, pw: HB }
}

impl SegtreeItem<LMap> for HwItem {
    fn merge(left: &Self, right: &Self) -> Self {
        HwItem { o: hw_merge(&left.o, &right.o), pend: None }
    }
    fn modify(&mut self, m: &LMap) {
        hw_map(&mut self.o, m);
        self.pend = Some(match &self.pend {
            None => *m,
            Some(p) => compose(p, m),
        });
    }
    fn push(&mut self, left: &mut Self, right: &mut Self) {
        if let Some(p) = self.pend.take() {
            left.modify(&p);
            right.modify(&p);
        }
    }
}

#[derive(Debug, Clone)]

pub struct HashWord;

impl Algebra for HashWord {
    type Item = HwItem;
    type Mod = LMap;
    type Elem = u8;
    type Obs = HwObs;
    type Pred = WordPred;
    fn name() -> String {
        "HashWord".into()
    }
    fn gen_elem(rng: &mut Rng, _nonneg: bool) -> u8 {
        rng.below(3) as u8
    }
    fn gen_mod(rng: &mut Rng, _nonneg: bool) -> LMap {
        gen_lmap(rng)
    }
    fn leaf(e: &u8) -> HwItem {
        HwItem { o: hw_single(*e), pend: None }
    }
    fn apply(e: &mut u8, m: &LMap) {
        *e = m[*e as usize];
    }
    fn empty() -> HwObs {
        HwItem::default().o
    }
    fn extend(o: &mut HwObs, e: &u8) {
        *o = hw_merge(o, &hw_single(*e));
    }
    fn extend_left(o: &mut HwObs, e: &u8) {
        *o = hw_merge(&hw_single(*e), o);
    }
    fn observe(item: &HwItem) -> HwObs {
        item.o.clone()
    }
    fn pending(item: &HwItem) -> bool {
        matches!(item.pend, Some(p) if p != LID)
    }
    fn gen_pred(rng: &mut Rng, shadow: &[u8]) -> WordPred {
        gen_word_pred(rng, shadow.len(), false)
    }
    fn eval(p: &WordPred, o: &HwObs) -> bool {
        match p {
            WordPred::Always(b) => *b,
            WordPred::Contains(c) => o.cnt[*c as usize] > 0,
            WordPred::LenGe(k) => o.len as usize >= *k,
            WordPred::CountGe(c, k) => o.cnt[*c as usize] as usize >= *k,
            WordPred::Subseq(..) => unreachable!(),
        }
    }
    fn obs_len(o: &HwObs) -> Option<usize> {
        Some(o.len as usize)
    }
}

// ------------------------------------------------------------------------------------------------
// LetterCount: commutative image of FreeWord, used as the second component of a pair

#[derive(Clone, Debug, Default)]
pub struct LcItem {
    pub cnt: [u32; 3],
    pub pend: Option<LMap>,
}

impl SegtreeItem<LMap> for LcItem {
    fn merge(l: &Self, r: &Self) -> Self {
        LcItem { cnt: [l.cnt[0] + r.cnt[0], l.cnt[1] + r.cnt[1], l.cnt[2] + r.cnt[2]], pend: None }
    }
    fn modify(&mut self, m: &LMap) {
        let mut c = [0u32; 3];
        for i in 0..3 {
            c[m[i] as usize] += self.cnt[i];
        }
        self.cnt = c;
        self.pend = Some(match &self.pend {
            None => *m,
            Some(p) => compose(p, m),
        });
    }
    fn push(&mut self, l: &mut Self, r: &mut Self) {
        if let Some(p) = self.pend.take() {
            l.modify(&p);
            r.modify(&p);
        }
    }
}

#[derive(Debug, Clone)]

pub struct LetterCount;

impl Algebra for LetterCount {
    type Item = LcItem;
    type Mod = LMap;
    type Elem = u8;
    type Obs = [u32; 3];
    type Pred = WordPred;
    fn name() -> String {
        "LetterCount".into()
    }
    fn gen_elem(rng: &mut Rng, _n: bool) -> u8 {
        rng.below(3) as u8
    }
    fn gen_mod(rng: &mut Rng, _n: bool) -> LMap {
        gen_lmap(rng)
    }
    fn leaf(e: &u8) -> LcItem {
        let mut cnt = [0; 3];
        cnt[*e as usize] = 1;
        LcItem { cnt, pend: None }
    }
    fn apply(e: &mut u8, m: &LMap) {
        *e = m[*e as usize];
    }
    fn empty() -> [u32; 3] {
        [0; 3]
    }
    fn extend(o: &mut [u32; 3], e: &u8) {
        o[*e as usize] += 1;
    }
    fn extend_left(o: &mut [u32; 3], e: &u8) {
        o[*e as usize] += 1;
    }
    fn observe(item: &LcItem) -> [u32; 3] {
        item.cnt
    }
    fn pending(item: &LcItem) -> bool {
        matches!(item.pend, Some(p) if p != LID)
    }
    fn gen_pred(rng: &mut Rng, shadow: &[u8]) -> WordPred {
        gen_word_pred(rng, shadow.len(), false)
    }
    fn eval(p: &WordPred, o: &[u32; 3]) -> bool {
        match p {
            WordPred::Always(b) => *b,
            WordPred::Contains(c) => o[*c as usize] > 0,
            WordPred::LenGe(k) => (o[0] + o[1] + o[2]) as usize >= *k,
            WordPred::CountGe(c, k) => o[*c as usize] as usize >= *k,
            WordPred::Subseq(..) => unreachable!(),
        }
    }
    fn obs_len(o: &[u32; 3]) -> Option<usize> {
        Some((o[0] + o[1] + o[2]) as usize)
    }
}

// ------------------------------------------------------------------------------------------------
// AffineSum: (sum, len) mod 998244353 under x -> a*x + b (assign / add / scale do not commute)

const PM: u64 = 998_244_353;

#[derive(Clone, Debug)]
pub struct AfItem {
    pub sum: u64,
    pub len: u64,
    pub a: u64,
    pub b: u64,
}

impl Default for AfItem {
    fn default() -> Self {
        AfItem { sum: 0, len: 0, a: 1, b: 0 }
    }
}

impl SegtreeItem<(u64, u64)> for AfItem {
    fn merge(l: &Self, r: &Self) -> Self {
        AfItem { sum: (l.sum + r.sum) % PM, len: l.len + r.len, a: 1, b: 0 }
    }
    fn modify(&mut self, m: &(u64, u64)) {
        self.sum = (m.0 * self.sum + m.1 * (self.len % PM)) % PM;
        // pending := m after pending
        self.a = m.0 * self.a % PM;
        self.b = (m.0 * self.b + m.1) % PM;
    }
    fn push(&mut self, l: &mut Self, r: &mut Self) {
        if self.a != 1 || self.b != 0 {
            let m = (self.a, self.b);
            l.modify(&m);
            r.modify(&m);
            self.a = 1;
            self.b = 0;
        }
    }
}

#[derive(Clone, Debug)]
pub enum LenPred {
    Always(bool),
    LenGe(usize),
}

#[derive(Debug, Clone)]

pub struct AffineSum;

impl Algebra for AffineSum {
    type Item = AfItem;
    type Mod = (u64, u64);
    type Elem = u64;
    type Obs = (u64, u64);
    type Pred = LenPred;
    fn name() -> String {
        "AffineSum".into()
    }
    fn gen_elem(rng: &mut Rng, _n: bool) -> u64 {
        match rng.below(4) {
            0 => rng.below(3),
            1 => PM - 1 - rng.below(2),
            _ => rng.below(PM),
        }
    }
    fn gen_mod(rng: &mut Rng, _n: bool) -> (u64, u64) {
        match rng.below(6) {
            0 => (0, rng.below(PM)),          // assign
            1 => (1, rng.below(PM)),          // add
            2 => (rng.below(PM), 0),          // scale
            3 => (PM - 1, rng.below(5)),      // negate (+ small)
            _ => (rng.below(PM), rng.below(PM)),
        }
    }
    fn leaf(e: &u64) -> AfItem {
        AfItem { sum: *e, len: 1, a: 1, b: 0 }
    }
    fn apply(e: &mut u64, m: &(u64, u64)) {
        *e = (m.0 * *e + m.1) % PM;
    }
    fn empty() -> (u64, u64) {
        (0, 0)
    }
    fn extend(o: &mut (u64, u64), e: &u64) {
        o.0 = (o.0 + e) % PM;
        o.1 += 1;
    }
    fn extend_left(o: &mut (u64, u64), e: &u64) {
        Self::extend(o, e)
    }
    fn observe(i: &AfItem) -> (u64, u64) {
        (i.sum, i.len)
    }
    fn pending(i: &AfItem) -> bool {
        i.a != 1 || i.b != 0
    }
    fn gen_pred(rng: &mut Rng, shadow: &[u64]) -> LenPred {
        match rng.below(5) {
            0 => LenPred::Always(true),
            1 => LenPred::Always(false),
            _ => LenPred::LenGe(rng.range_usize(1, shadow.len() + 1)),
        }
    }
    fn eval(p: &LenPred, o: &(u64, u64)) -> bool {
        match p {
            LenPred::Always(b) => *b,
            LenPred::LenGe(k) => o.1 as usize >= *k,
        }
    }
    fn obs_len(o: &(u64, u64)) -> Option<usize> {
        Some(o.1 as usize)
    }
}

// ------------------------------------------------------------------------------------------------
// built-in items

#[derive(Clone, Debug)]
pub enum NumPred {
    Always(bool),
    Ge(i64),
    Le(i64),
}

fn gen_val(rng: &mut Rng, nonneg: bool, small: bool) -> i64 {
    let hi: i64 = if small { 1000 } else { 1_000_000 };
    match rng.below(6) {
        0 => 0,
        1 => rng.range_i64(0, 3),
        2 => {
            if nonneg {
                hi
            } else {
                -hi
            }
        }
        _ => rng.range_i64(if nonneg { 0 } else { -hi }, hi),
    }
}

fn gen_add(rng: &mut Rng, nonneg: bool, small: bool) -> i64 {
    let hi: i64 = if small { 100 } else { 1000 };
    match rng.below(5) {
        0 => 0,
        1 => 1,
        _ => rng.range_i64(if nonneg { 0 } else { -hi }, hi),
    }
}

macro_rules! builtin_plain {
    ($alg:ident, $item:ident, $t:ty, $small:expr, $name:expr, $empty:expr, $op:expr, $predkind:ident, $nonneg:expr) => {
        #[derive(Debug, Clone)]
        pub struct $alg;
        impl Algebra for $alg {
            type Item = $item<$t>;
            type Mod = ();
            type Elem = i64;
            type Obs = i64;
            type Pred = NumPred;
            fn name() -> String {
                $name.into()
            }
            fn has_mod() -> bool {
                false
            }
            fn gen_elem(rng: &mut Rng, nonneg: bool) -> i64 {
                gen_val(rng, nonneg, $small)
            }
            fn gen_mod(_rng: &mut Rng, _nonneg: bool) {}
            fn leaf(e: &i64) -> Self::Item {
                // alternate the two public ways of making a leaf
                if e % 2 == 0 {
                    $item::new(*e as $t)
                } else {
                    $item::from(*e as $t)
                }
            }
            fn apply(_e: &mut i64, _m: &()) {}
            fn empty() -> i64 {
                $empty
            }
            fn extend(o: &mut i64, e: &i64) {
                let f: fn(i64, i64) -> i64 = $op;
                *o = f(*o, *e);
            }
            fn extend_left(o: &mut i64, e: &i64) {
                Self::extend(o, e)
            }
            fn observe(i: &Self::Item) -> i64 {
                i.v as i64
            }
            fn pending(_i: &Self::Item) -> bool {
                false
            }
            fn gen_pred(rng: &mut Rng, shadow: &[i64]) -> NumPred {
                gen_num_pred::<Self>(rng, shadow, NumKind::$predkind)
            }
            fn eval(p: &NumPred, o: &i64) -> bool {
                eval_num(p, *o)
            }
            fn search_needs_nonneg() -> bool {
                $nonneg
            }
        }
    };
}

macro_rules! builtin_add {
    ($alg:ident, $item:ident, $t:ty, $small:expr, $name:expr, $empty:expr, $op:expr, $predkind:ident, $nonneg:expr) => {
        #[derive(Debug, Clone)]
        pub struct $alg;
        impl Algebra for $alg {
            type Item = $item<$t>;
            type Mod = $t;
            type Elem = i64;
            type Obs = i64;
            type Pred = NumPred;
            fn name() -> String {
                $name.into()
            }
            fn gen_elem(rng: &mut Rng, nonneg: bool) -> i64 {
                gen_val(rng, nonneg, $small)
            }
            fn gen_mod(rng: &mut Rng, nonneg: bool) -> $t {
                gen_add(rng, nonneg, $small) as $t
            }
            fn leaf(e: &i64) -> Self::Item {
                if e % 2 == 0 {
                    $item::new(*e as $t)
                } else {
                    $item::from(*e as $t)
                }
            }
            fn apply(e: &mut i64, m: &$t) {
                *e += *m as i64;
            }
            fn empty() -> i64 {
                $empty
            }
            fn extend(o: &mut i64, e: &i64) {
                let f: fn(i64, i64) -> i64 = $op;
                *o = f(*o, *e);
            }
            fn extend_left(o: &mut i64, e: &i64) {
                Self::extend(o, e)
            }
            fn observe(i: &Self::Item) -> i64 {
                i.v as i64
            }
            fn pending(i: &Self::Item) -> bool {
                i.md != 0
            }
            fn gen_pred(rng: &mut Rng, shadow: &[i64]) -> NumPred {
                gen_num_pred::<Self>(rng, shadow, NumKind::$predkind)
            }
            fn eval(p: &NumPred, o: &i64) -> bool {
                eval_num(p, *o)
            }
            fn search_needs_nonneg() -> bool {
                $nonneg
            }
        }
    };
}

#[derive(Clone, Copy)]
pub enum NumKind {
    /// aggregate grows with the range: `v >= t` is monotone
    Grows,
    /// aggregate shrinks with the range: `v <= t` is monotone
    Shrinks,
}

fn gen_num_pred<A: Algebra<Elem = i64, Obs = i64>>(rng: &mut Rng, shadow: &[i64], kind: NumKind) -> NumPred {
    match rng.below(8) {
        0 => NumPred::Always(true),
        1 => NumPred::Always(false),
        _ => {
            // aim the threshold at the aggregate of a random range so that both outcomes occur
            let l = rng.usize_below(shadow.len());
            let r = rng.range_usize(l, shadow.len() - 1);
            let t = A::fold(&shadow[l..=r]).saturating_add(rng.range_i64(-1, 1));
            match kind {
                NumKind::Grows => NumPred::Ge(t),
                NumKind::Shrinks => NumPred::Le(t),
            }
        }
    }
}

fn eval_num(p: &NumPred, o: i64) -> bool {
    match p {
        NumPred::Always(b) => *b,
        NumPred::Ge(t) => o >= *t,
        NumPred::Le(t) => o <= *t,
    }
}

builtin_plain!(MinI64, Min, i64, false, "Min<i64>", i64::MAX, |a, b| a.min(b), Shrinks, false);
builtin_plain!(MaxI64, Max, i64, false, "Max<i64>", i64::MIN, |a, b| a.max(b), Grows, false);
builtin_plain!(SumI64, Sum, i64, false, "Sum<i64>", 0, |a, b| a + b, Grows, true);
builtin_plain!(MinI32, Min, i32, true, "Min<i32>", i32::MAX as i64, |a, b| a.min(b), Shrinks, false);
builtin_plain!(MaxI32, Max, i32, true, "Max<i32>", i32::MIN as i64, |a, b| a.max(b), Grows, false);
builtin_plain!(SumI32, Sum, i32, true, "Sum<i32>", 0, |a, b| a + b, Grows, true);
builtin_add!(MinAddI64, MinAdd, i64, false, "MinAdd<i64>", i64::MAX, |a, b| a.min(b), Shrinks, false);
builtin_add!(MaxAddI64, MaxAdd, i64, false, "MaxAdd<i64>", i64::MIN, |a, b| a.max(b), Grows, false);
builtin_add!(SumAddI64, SumAdd, i64, false, "SumAdd<i64>", 0, |a, b| a + b, Grows, true);
builtin_add!(MinAddI32, MinAdd, i32, true, "MinAdd<i32>", i32::MAX as i64, |a, b| a.min(b), Shrinks, false);
builtin_add!(MaxAddI32, MaxAdd, i32, true, "MaxAdd<i32>", i32::MIN as i64, |a, b| a.max(b), Grows, false);
builtin_add!(SumAddI32, SumAdd, i32, true, "SumAdd<i32>", 0, |a, b| a + b, Grows, true);

// ------------------------------------------------------------------------------------------------
// Min / Max over an element type whose order looks at a key only (an "argmin" element: key + payload). Equal keys are
// the rule here (keys 0..=3), so which of several equal elements a node holds is visible. The expected answer is the fold
// of the item's own merge over the leaves from left to right (today the right operand wins a tie, so that is the *last*
// extremal element of the range; the oracle does not depend on that choice).

#[derive(Clone, Copy, Debug, Default)]
pub struct Keyed {
    pub key: i32,
    pub id: u32,
}

impl PartialEq for Keyed {
    fn eq(&self, o: &Self) -> bool {
        self.key == o.key
    }
}

impl PartialOrd for Keyed {
    fn partial_cmp(&self, o: &Self) -> Option<std::cmp::Ordering> {
        self.key.partial_cmp(&o.key)
    }
}

impl rlib_num_traits::MinMax for Keyed {
    const MIN: Self = Keyed { key: i32::MIN, id: u32::MAX };
    const MAX: Self = Keyed { key: i32::MAX, id: u32::MAX };
}

macro_rules! builtin_keyed {
    ($alg:ident, $item:ident, $name:expr, $emptykey:expr, $takes_new:expr, $pred:ident) => {
        #[derive(Debug, Clone)]
        pub struct $alg;
        impl Algebra for $alg {
            type Item = $item<Keyed>;
            type Mod = ();
            type Elem = (i32, u32);
            type Obs = (i32, u32);
            type Pred = NumPred;
            fn name() -> String {
                $name.into()
            }
            fn has_mod() -> bool {
                false
            }
            fn gen_elem(rng: &mut Rng, _nonneg: bool) -> (i32, u32) {
                (rng.below(4) as i32, rng.next_u64() as u32 >> 1)
            }
            fn gen_mod(_rng: &mut Rng, _nonneg: bool) {}
            fn leaf(e: &(i32, u32)) -> Self::Item {
                if e.1 % 2 == 0 {
                    $item::new(Keyed { key: e.0, id: e.1 })
                } else {
                    $item::from(Keyed { key: e.0, id: e.1 })
                }
            }
            fn apply(_e: &mut (i32, u32), _m: &()) {}
            fn empty() -> (i32, u32) {
                ($emptykey, u32::MAX)
            }
            fn extend(o: &mut (i32, u32), e: &(i32, u32)) {
                // the property speaks of "the left-to-right merge of the elements": which of two elements with equal keys
                // a merge keeps is the item's own business, so the fold uses the item's merge on two leaves (today the
                // right operand wins a tie; the merge is trusted for nothing else)
                let m = <$item<Keyed> as SegtreeItem>::merge(&$item::new(Keyed { key: o.0, id: o.1 }), &$item::new(Keyed { key: e.0, id: e.1 }));
                let f: fn(i32, i32) -> bool = $takes_new;
                let got = (m.v.key, m.v.id);
                // the merge is trusted for the choice among equal keys only: otherwise the independent rule decides
                let indep = if f(o.0, e.0) { *e } else { *o };
                *o = if (got == *o || got == *e) && got.0 == indep.0 { got } else { indep };
            }
            fn extend_left(o: &mut (i32, u32), e: &(i32, u32)) {
                let m = <$item<Keyed> as SegtreeItem>::merge(&$item::new(Keyed { key: e.0, id: e.1 }), &$item::new(Keyed { key: o.0, id: o.1 }));
                let f: fn(i32, i32) -> bool = $takes_new;
                let got = (m.v.key, m.v.id);
                let indep = if !f(e.0, o.0) { *e } else { *o };
                *o = if (got == *o || got == *e) && got.0 == indep.0 { got } else { indep };
            }
            fn observe(i: &Self::Item) -> (i32, u32) {
                (i.v.key, i.v.id)
            }
            fn pending(_i: &Self::Item) -> bool {
                false
            }
            fn gen_pred(rng: &mut Rng, shadow: &[(i32, u32)]) -> NumPred {
                match rng.below(8) {
                    0 => NumPred::Always(true),
                    1 => NumPred::Always(false),
                    _ => {
                        let l = rng.usize_below(shadow.len());
                        let r = rng.range_usize(l, shadow.len() - 1);
                        let t = Self::fold(&shadow[l..=r]).0 as i64 + rng.range_i64(-1, 1);
                        NumPred::$pred(t)
                    }
                }
            }
            fn eval(p: &NumPred, o: &(i32, u32)) -> bool {
                eval_num(p, o.0 as i64)
            }
        }
    };
}

builtin_keyed!(MinKeyed, Min, "Min<key+payload>", i32::MAX, |old, new| !(old < new), Le);
builtin_keyed!(MaxKeyed, Max, "Max<key+payload>", i32::MIN, |old, new| !(old > new), Ge);

// ------------------------------------------------------------------------------------------------
// the pair combinator: any two algebras over the same elements and modifiers, side by side

#[derive(Clone, Debug)]
pub enum Either<A, B> {
    L(A),
    R(B),
}

#[derive(Debug, Clone)]
pub struct PairAlg<A, B>(std::marker::PhantomData<(A, B)>);

impl<A, B> Algebra for PairAlg<A, B>
where
    A: Algebra,
    B: Algebra<Mod = A::Mod, Elem = A::Elem>,
{
    type Item = Combinator<A::Item, B::Item>;
    type Mod = A::Mod;
    type Elem = A::Elem;
    type Obs = (A::Obs, B::Obs);
    type Pred = Either<A::Pred, B::Pred>;
    fn name() -> String {
        format!("Combinator<{},{}>", A::name(), B::name())
    }
    fn has_mod() -> bool {
        A::has_mod()
    }
    fn max_n() -> usize {
        A::max_n().min(B::max_n())
    }
    fn gen_elem(rng: &mut Rng, nonneg: bool) -> A::Elem {
        A::gen_elem(rng, nonneg)
    }
    fn gen_mod(rng: &mut Rng, nonneg: bool) -> A::Mod {
        A::gen_mod(rng, nonneg)
    }
    fn leaf(e: &A::Elem) -> Self::Item {
        Combinator(A::leaf(e), B::leaf(e))
    }
    fn apply(e: &mut A::Elem, m: &A::Mod) {
        A::apply(e, m)
    }
    fn empty() -> Self::Obs {
        (A::empty(), B::empty())
    }
    fn extend(o: &mut Self::Obs, e: &A::Elem) {
        A::extend(&mut o.0, e);
        B::extend(&mut o.1, e);
    }
    fn extend_left(o: &mut Self::Obs, e: &A::Elem) {
        A::extend_left(&mut o.0, e);
        B::extend_left(&mut o.1, e);
    }
    fn observe(i: &Self::Item) -> Self::Obs {
        (A::observe(&i.0), B::observe(&i.1))
    }
    fn pending(i: &Self::Item) -> bool {
        A::pending(&i.0) || B::pending(&i.1)
    }
    fn gen_pred(rng: &mut Rng, shadow: &[A::Elem]) -> Self::Pred {
        if rng.chance(1, 2) {
            Either::L(A::gen_pred(rng, shadow))
        } else {
            Either::R(B::gen_pred(rng, shadow))
        }
    }
    fn eval(p: &Self::Pred, o: &Self::Obs) -> bool {
        match p {
            Either::L(p) => A::eval(p, &o.0),
            Either::R(p) => B::eval(p, &o.1),
        }
    }
    fn search_needs_nonneg() -> bool {
        A::search_needs_nonneg() || B::search_needs_nonneg()
    }
    fn obs_len(o: &Self::Obs) -> Option<usize> {
        A::obs_len(&o.0).or_else(|| B::obs_len(&o.1))
    }
}

// ------------------------------------------------------------------------------------------------
// built-in range-add items with sentinel elements: MinAdd over values that include T::MAX ("infinity") with
// non-positive modifiers, MaxAdd over values that include T::MIN with non-negative modifiers - no overflow is possible,
// and the neutral element of the merge occurs as a real element

macro_rules! builtin_add_sentinel {
    ($alg:ident, $item:ident, $t:ty, $name:expr, $empty:expr, $op:expr, $predkind:ident, $sentinel:expr, $modsign:expr) => {
        #[derive(Debug, Clone)]
        pub struct $alg;
        impl Algebra for $alg {
            type Item = $item<$t>;
            type Mod = $t;
            type Elem = i64;
            type Obs = i64;
            type Pred = NumPred;
            fn name() -> String {
                $name.into()
            }
            fn gen_elem(rng: &mut Rng, _nonneg: bool) -> i64 {
                match rng.below(3) {
                    0 => $sentinel as i64,
                    _ => rng.range_i64(0, 40),
                }
            }
            fn gen_mod(rng: &mut Rng, _nonneg: bool) -> $t {
                (($modsign as i64) * rng.range_i64(0, 3)) as $t
            }
            fn leaf(e: &i64) -> Self::Item {
                $item::new(*e as $t)
            }
            fn apply(e: &mut i64, m: &$t) {
                *e += *m as i64;
            }
            fn empty() -> i64 {
                $empty
            }
            fn extend(o: &mut i64, e: &i64) {
                let f: fn(i64, i64) -> i64 = $op;
                *o = f(*o, *e);
            }
            fn extend_left(o: &mut i64, e: &i64) {
                Self::extend(o, e)
            }
            fn observe(i: &Self::Item) -> i64 {
                i.v as i64
            }
            fn pending(i: &Self::Item) -> bool {
                i.md != 0
            }
            fn gen_pred(rng: &mut Rng, shadow: &[i64]) -> NumPred {
                gen_num_pred::<Self>(rng, shadow, NumKind::$predkind)
            }
            fn eval(p: &NumPred, o: &i64) -> bool {
                eval_num(p, *o)
            }
        }
    };
}

builtin_add_sentinel!(MinAddI64Sent, MinAdd, i64, "MinAdd<i64> with MAX elements", i64::MAX, |a, b| a.min(b), Shrinks, i64::MAX, -1);
builtin_add_sentinel!(MaxAddI64Sent, MaxAdd, i64, "MaxAdd<i64> with MIN elements", i64::MIN, |a, b| a.max(b), Grows, i64::MIN, 1);
builtin_add_sentinel!(MinAddI8Sent, MinAdd, i8, "MinAdd<i8> with MAX elements", i8::MAX as i64, |a, b| a.min(b), Shrinks, i8::MAX, -1);
builtin_add_sentinel!(MaxAddI8Sent, MaxAdd, i8, "MaxAdd<i8> with MIN elements", i8::MIN as i64, |a, b| a.max(b), Grows, i8::MIN, 1);

// ------------------------------------------------------------------------------------------------
// ProgAdd: range add of an arithmetic progression over the global index. The element carries its own index, so the
// modifier (a, d): x_i += a + d*i acts on each element individually; the node keeps its pending tag RELATIVE to its
// first element, so pushing it down hands different tags to the left and to the right child (left: (A, d),
// right: (A + d*len_left, d)). Any confusion of the two children inside the tree is visible.

#[derive(Clone, Debug, Default)]
pub struct PgItem {
    pub sum: i64,
    pub len: i64,
    /// global index of the first element of this node
    pub lo: i64,
    /// pending for the children, relative to this node's first element
    pub pend: Option<(i64, i64)>,
}

impl PgItem {
    fn apply_rel(&mut self, a0: i64, d: i64) {
        self.sum += a0 * self.len + d * (self.len * (self.len - 1) / 2);
        self.pend = Some(match self.pend {
            None => (a0, d),
            Some((pa, pd)) => (pa + a0, pd + d),
        });
    }
}

impl SegtreeItem<(i64, i64)> for PgItem {
    fn merge(l: &Self, r: &Self) -> Self {
        PgItem { sum: l.sum + r.sum, len: l.len + r.len, lo: if l.len > 0 { l.lo } else { r.lo }, pend: None }
    }
    fn modify(&mut self, m: &(i64, i64)) {
        // global (a, d) -> relative to this node
        if self.len > 0 {
            self.apply_rel(m.0 + m.1 * self.lo, m.1);
        }
    }
    fn push(&mut self, left: &mut Self, right: &mut Self) {
        if let Some((a0, d)) = self.pend.take() {
            left.apply_rel(a0, d);
            right.apply_rel(a0 + d * left.len, d);
        }
    }
}

#[derive(Debug, Clone)]
pub struct ProgAdd;

impl Algebra for ProgAdd {
    type Item = PgItem;
    type Mod = (i64, i64);
    /// (global index, value)
    type Elem = (i64, i64);
    type Obs = (i64, i64);
    type Pred = LenPred;
    fn name() -> String {
        "ProgAdd".into()
    }
    fn positional() -> bool {
        true
    }
    fn at(e: &mut (i64, i64), i: usize) {
        e.0 = i as i64;
    }
    fn gen_elem(rng: &mut Rng, _n: bool) -> (i64, i64) {
        (0, rng.range_i64(-1000, 1000))
    }
    fn gen_mod(rng: &mut Rng, _n: bool) -> (i64, i64) {
        match rng.below(4) {
            0 => (rng.range_i64(-100, 100), 0),
            1 => (0, rng.range_i64(-5, 5)),
            _ => (rng.range_i64(-100, 100), rng.range_i64(-5, 5)),
        }
    }
    fn leaf(e: &(i64, i64)) -> PgItem {
        PgItem { sum: e.1, len: 1, lo: e.0, pend: None }
    }
    fn apply(e: &mut (i64, i64), m: &(i64, i64)) {
        e.1 += m.0 + m.1 * e.0;
    }
    fn empty() -> (i64, i64) {
        (0, 0)
    }
    fn extend(o: &mut (i64, i64), e: &(i64, i64)) {
        o.0 += e.1;
        o.1 += 1;
    }
    fn extend_left(o: &mut (i64, i64), e: &(i64, i64)) {
        Self::extend(o, e)
    }
    fn observe(i: &PgItem) -> (i64, i64) {
        (i.sum, i.len)
    }
    fn pending(i: &PgItem) -> bool {
        matches!(i.pend, Some(p) if p != (0, 0))
    }
    fn gen_pred(rng: &mut Rng, shadow: &[(i64, i64)]) -> LenPred {
        match rng.below(5) {
            0 => LenPred::Always(true),
            1 => LenPred::Always(false),
            _ => LenPred::LenGe(rng.range_usize(1, shadow.len() + 1)),
        }
    }
    fn eval(p: &LenPred, o: &(i64, i64)) -> bool {
        match p {
            LenPred::Always(b) => *b,
            LenPred::LenGe(k) => o.1 as usize >= *k,
        }
    }
    fn obs_len(o: &(i64, i64)) -> Option<usize> {
        Some(o.1 as usize)
    }
}

// ------------------------------------------------------------------------------------------------
// FlipCount: counts of 0s and 1s under "flip the range"; the modifier is a zero-sized type, so nothing about a
// pending modification is visible in the modifier value itself (only the item's own flag carries it)

#[derive(Clone, Debug, Default, PartialEq)]
pub struct Flip;

#[derive(Clone, Debug, Default)]
pub struct FcItem {
    pub cnt: [u32; 2],
    pub flip: bool,
}

impl SegtreeItem<Flip> for FcItem {
    fn merge(l: &Self, r: &Self) -> Self {
        FcItem { cnt: [l.cnt[0] + r.cnt[0], l.cnt[1] + r.cnt[1]], flip: false }
    }
    fn modify(&mut self, _m: &Flip) {
        self.cnt.swap(0, 1);
        self.flip = !self.flip;
    }
    fn push(&mut self, l: &mut Self, r: &mut Self) {
        if self.flip {
            self.flip = false;
            l.modify(&Flip);
            r.modify(&Flip);
        }
    }
}

#[derive(Debug, Clone)]
pub struct FlipCount;

impl Algebra for FlipCount {
    type Item = FcItem;
    type Mod = Flip;
    type Elem = u8;
    type Obs = [u32; 2];
    type Pred = WordPred;
    fn name() -> String {
        "FlipCount".into()
    }
    fn gen_elem(rng: &mut Rng, _n: bool) -> u8 {
        rng.below(2) as u8
    }
    fn gen_mod(_rng: &mut Rng, _n: bool) -> Flip {
        Flip
    }
    fn leaf(e: &u8) -> FcItem {
        let mut cnt = [0; 2];
        cnt[*e as usize] = 1;
        FcItem { cnt, flip: false }
    }
    fn apply(e: &mut u8, _m: &Flip) {
        *e ^= 1;
    }
    fn empty() -> [u32; 2] {
        [0; 2]
    }
    fn extend(o: &mut [u32; 2], e: &u8) {
        o[*e as usize] += 1;
    }
    fn extend_left(o: &mut [u32; 2], e: &u8) {
        o[*e as usize] += 1;
    }
    fn observe(item: &FcItem) -> [u32; 2] {
        item.cnt
    }
    fn pending(item: &FcItem) -> bool {
        item.flip
    }
    fn gen_pred(rng: &mut Rng, shadow: &[u8]) -> WordPred {
        gen_word_pred(rng, shadow.len(), false)
    }
    fn eval(p: &WordPred, o: &[u32; 2]) -> bool {
        // letter 2 does not occur in this alphabet: its count is 0
        let c = |l: u8| if l < 2 { o[l as usize] } else { 0 };
        match p {
            WordPred::Always(b) => *b,
            WordPred::Contains(l) => c(*l) > 0,
            WordPred::LenGe(k) => (o[0] + o[1]) as usize >= *k,
            WordPred::CountGe(l, k) => c(*l) as usize >= *k,
            WordPred::Subseq(..) => unreachable!(),
        }
    }
    fn obs_len(o: &[u32; 2]) -> Option<usize> {
        Some((o[0] + o[1]) as usize)
    }
}

// ------------------------------------------------------------------------------------------------
// Wrapped<A, PAD, REENT>: the algebra A with (a) PAD extra machine words of payload in every node (items of several
// hundred bytes: an implementation may treat bulky items by another route) and/or (b) item operations that call back
// into the library: merge / modify / push query and update a thread-local tree of another item type while they run
// (an item's operations are caller code; a table look-up in another segment tree is lawful there).

#[derive(Clone, Debug)]
pub struct WItem<I, const PAD: usize, const REENT: bool> {
    pub inner: I,
    pub pad: [u64; PAD],
}

impl<I: Default, const PAD: usize, const REENT: bool> Default for WItem<I, PAD, REENT> {
    fn default() -> Self {
        WItem { inner: I::default(), pad: [0; PAD] }
    }
}

thread_local! {
    static AUX_TREE: std::cell::RefCell<Option<rlib_segtree::Segtree<Sum<i64>, ()>>> = std::cell::RefCell::new(None);
    static AUX_BUSY: std::cell::Cell<bool> = std::cell::Cell::new(false);
    pub static AUX_CALLS: std::cell::Cell<u64> = std::cell::Cell::new(0);
}

/// a few operations on the thread's auxiliary tree (11 elements: queries decompose into several nodes)
fn aux_touch(salt: usize) {
    if AUX_BUSY.with(|b| b.replace(true)) {
        return;
    }
    AUX_TREE.with(|t| {
        let mut t = t.borrow_mut();
        let tree = t.get_or_insert_with(|| {
            let items: Vec<Sum<i64>> = (0..11).map(|i| Sum::new(i as i64 * 3 + 1)).collect();
            rlib_segtree::Segtree::from_slice(&items)
        });
        let l = 1 + salt % 3;
        let _ = tree.ask(l, 9 - salt % 2);
        let _ = tree.ask(0, 10);
        if salt % 4 == 0 {
            tree.set(salt % 11, Sum::new(salt as i64 % 7));
        }
        let _ = tree.lower_bound(salt % 5, |_x: &Sum<i64>| false);
    });
    AUX_CALLS.with(|c| c.set(c.get() + 1));
    AUX_BUSY.with(|b| b.set(false));
}

impl<M, I: SegtreeItem<M>, const PAD: usize, const REENT: bool> SegtreeItem<M> for WItem<I, PAD, REENT> {
    fn merge(left: &Self, right: &Self) -> Self {
        if REENT {
            aux_touch(left.pad.len() + 1);
        }
        let mut pad = [0u64; PAD];
        for k in 0..PAD {
            pad[k] = left.pad[k].wrapping_mul(31).wrapping_add(right.pad[k]);
        }
        let inner = I::merge(&left.inner, &right.inner);
        if REENT {
            aux_touch(2);
        }
        WItem { inner, pad }
    }
    fn modify(&mut self, m: &M) {
        if REENT {
            aux_touch(4);
        }
        self.inner.modify(m);
    }
    fn push(&mut self, left: &mut Self, right: &mut Self) {
        if REENT {
            aux_touch(7);
        }
        self.inner.push(&mut left.inner, &mut right.inner);
    }
}

#[derive(Debug, Clone)]
pub struct Wrapped<A, const PAD: usize, const REENT: bool>(std::marker::PhantomData<A>);

impl<A: Algebra, const PAD: usize, const REENT: bool> Algebra for Wrapped<A, PAD, REENT> {
    type Item = WItem<A::Item, PAD, REENT>;
    type Mod = A::Mod;
    type Elem = A::Elem;
    type Obs = A::Obs;
    type Pred = A::Pred;
    fn name() -> String {
        format!("{}[{} pad words{}]", A::name(), PAD, if REENT { ", re-entrant item operations" } else { "" })
    }
    fn has_mod() -> bool {
        A::has_mod()
    }
    fn max_n() -> usize {
        A::max_n()
    }
    fn gen_elem(rng: &mut Rng, nonneg: bool) -> A::Elem {
        A::gen_elem(rng, nonneg)
    }
    fn gen_mod(rng: &mut Rng, nonneg: bool) -> A::Mod {
        A::gen_mod(rng, nonneg)
    }
    fn leaf(e: &A::Elem) -> Self::Item {
        let mut pad = [0u64; PAD];
        for (k, p) in pad.iter_mut().enumerate() {
            *p = k as u64 + 1;
        }
        WItem { inner: A::leaf(e), pad }
    }
    fn apply(e: &mut A::Elem, m: &A::Mod) {
        A::apply(e, m)
    }
    fn empty() -> A::Obs {
        A::empty()
    }
    fn extend(o: &mut A::Obs, e: &A::Elem) {
        A::extend(o, e)
    }
    fn extend_left(o: &mut A::Obs, e: &A::Elem) {
        A::extend_left(o, e)
    }
    fn observe(i: &Self::Item) -> A::Obs {
        A::observe(&i.inner)
    }
    fn pending(i: &Self::Item) -> bool {
        A::pending(&i.inner)
    }
    fn gen_pred(rng: &mut Rng, shadow: &[A::Elem]) -> A::Pred {
        A::gen_pred(rng, shadow)
    }
    fn eval(p: &A::Pred, o: &A::Obs) -> bool {
        A::eval(p, o)
    }
    fn search_needs_nonneg() -> bool {
        A::search_needs_nonneg()
    }
    fn obs_len(o: &A::Obs) -> Option<usize> {
        A::obs_len(o)
    }
    fn positional() -> bool {
        A::positional()
    }
    fn at(e: &mut A::Elem, i: usize) {
        A::at(e, i)
    }
}

// ------------------------------------------------------------------------------------------------
// TouchCount: every element counts the range modifications that covered it (whatever their value: adding 0 counts). The
// pending state of a node is the number of modifications its children have not seen - it never cancels, unlike a sum of
// additions. Side by side with a range-add item in a Combinator the two halves hold "nothing pending" at different times.

#[derive(Clone, Debug, Default)]
pub struct TcItem {
    pub sum: u64,
    pub len: u32,
    pub pend: u32,
}

impl SegtreeItem<i64> for TcItem {
    fn merge(l: &Self, r: &Self) -> Self {
        TcItem { sum: l.sum + r.sum, len: l.len + r.len, pend: 0 }
    }
    fn modify(&mut self, _m: &i64) {
        self.sum += self.len as u64;
        self.pend += 1;
    }
    fn push(&mut self, l: &mut Self, r: &mut Self) {
        if self.pend != 0 {
            l.sum += self.pend as u64 * l.len as u64;
            l.pend += self.pend;
            r.sum += self.pend as u64 * r.len as u64;
            r.pend += self.pend;
            self.pend = 0;
        }
    }
}

/// the same item over the unit modifier: "touch the range" (a lazy item whose modifier carries no data, next to the
/// plain built-in items, whose modifier type is the unit as well)
impl SegtreeItem<()> for TcItem {
    fn merge(l: &Self, r: &Self) -> Self {
        TcItem { sum: l.sum + r.sum, len: l.len + r.len, pend: 0 }
    }
    fn modify(&mut self, _m: &()) {
        self.sum += self.len as u64;
        self.pend += 1;
    }
    fn push(&mut self, l: &mut Self, r: &mut Self) {
        <TcItem as SegtreeItem<i64>>::push(self, l, r)
    }
}

#[derive(Debug, Clone)]
pub struct TouchUnit;

impl Algebra for TouchUnit {
    type Item = TcItem;
    type Mod = ();
    type Elem = u32;
    type Obs = (u64, u64);
    type Pred = NumPred;
    fn name() -> String {
        "TouchCount<()>".into()
    }
    fn gen_elem(rng: &mut Rng, _nonneg: bool) -> u32 {
        rng.below(3) as u32
    }
    fn gen_mod(_rng: &mut Rng, _nonneg: bool) {}
    fn leaf(e: &u32) -> TcItem {
        TcItem { sum: *e as u64, len: 1, pend: 0 }
    }
    fn apply(e: &mut u32, _m: &()) {
        *e += 1;
    }
    fn empty() -> (u64, u64) {
        (0, 0)
    }
    fn extend(o: &mut (u64, u64), e: &u32) {
        o.0 += *e as u64;
        o.1 += 1;
    }
    fn extend_left(o: &mut (u64, u64), e: &u32) {
        Self::extend(o, e)
    }
    fn observe(i: &TcItem) -> (u64, u64) {
        (i.sum, i.len as u64)
    }
    fn pending(i: &TcItem) -> bool {
        i.pend != 0
    }
    fn gen_pred(rng: &mut Rng, shadow: &[u32]) -> NumPred {
        TouchCount::gen_pred(rng, shadow)
    }
    fn eval(p: &NumPred, o: &(u64, u64)) -> bool {
        eval_num(p, o.0 as i64)
    }
    fn obs_len(o: &(u64, u64)) -> Option<usize> {
        Some(o.1 as usize)
    }
}

#[derive(Debug, Clone)]
pub struct TouchCount;

impl Algebra for TouchCount {
    type Item = TcItem;
    type Mod = i64;
    type Elem = u32;
    type Obs = (u64, u64);
    type Pred = NumPred;
    fn name() -> String {
        "TouchCount".into()
    }
    fn gen_elem(rng: &mut Rng, _nonneg: bool) -> u32 {
        rng.below(3) as u32
    }
    fn gen_mod(rng: &mut Rng, nonneg: bool) -> i64 {
        gen_add(rng, nonneg, false)
    }
    fn leaf(e: &u32) -> TcItem {
        TcItem { sum: *e as u64, len: 1, pend: 0 }
    }
    fn apply(e: &mut u32, _m: &i64) {
        *e += 1;
    }
    fn empty() -> (u64, u64) {
        (0, 0)
    }
    fn extend(o: &mut (u64, u64), e: &u32) {
        o.0 += *e as u64;
        o.1 += 1;
    }
    fn extend_left(o: &mut (u64, u64), e: &u32) {
        Self::extend(o, e)
    }
    fn observe(i: &TcItem) -> (u64, u64) {
        (i.sum, i.len as u64)
    }
    fn pending(i: &TcItem) -> bool {
        i.pend != 0
    }
    fn gen_pred(rng: &mut Rng, shadow: &[u32]) -> NumPred {
        match rng.below(8) {
            0 => NumPred::Always(true),
            1 => NumPred::Always(false),
            _ => {
                let l = rng.usize_below(shadow.len());
                let r = rng.range_usize(l, shadow.len() - 1);
                NumPred::Ge(Self::fold(&shadow[l..=r]).0 as i64 + rng.range_i64(-1, 1))
            }
        }
    }
    fn eval(p: &NumPred, o: &(u64, u64)) -> bool {
        eval_num(p, o.0 as i64)
    }
    fn obs_len(o: &(u64, u64)) -> Option<usize> {
        Some(o.1 as usize)
    }
}

// ------------------------------------------------------------------------------------------------
// the pair combinator over *different* element types: elements are pairs, both halves see every modifier

#[derive(Debug, Clone)]
pub struct ProdAlg<A, B>(std::marker::PhantomData<(A, B)>);

impl<A, B> Algebra for ProdAlg<A, B>
where
    A: Algebra,
    B: Algebra<Mod = A::Mod>,
{
    type Item = Combinator<A::Item, B::Item>;
    type Mod = A::Mod;
    type Elem = (A::Elem, B::Elem);
    type Obs = (A::Obs, B::Obs);
    type Pred = Either<A::Pred, B::Pred>;
    fn name() -> String {
        format!("Combinator<{} x {}>", A::name(), B::name())
    }
    fn has_mod() -> bool {
        A::has_mod() || B::has_mod()
    }
    fn max_n() -> usize {
        A::max_n().min(B::max_n())
    }
    fn gen_elem(rng: &mut Rng, nonneg: bool) -> Self::Elem {
        (A::gen_elem(rng, nonneg), B::gen_elem(rng, nonneg))
    }
    fn gen_mod(rng: &mut Rng, nonneg: bool) -> A::Mod {
        A::gen_mod(rng, nonneg)
    }
    fn leaf(e: &Self::Elem) -> Self::Item {
        Combinator(A::leaf(&e.0), B::leaf(&e.1))
    }
    fn apply(e: &mut Self::Elem, m: &A::Mod) {
        A::apply(&mut e.0, m);
        B::apply(&mut e.1, m);
    }
    fn empty() -> Self::Obs {
        (A::empty(), B::empty())
    }
    fn extend(o: &mut Self::Obs, e: &Self::Elem) {
        A::extend(&mut o.0, &e.0);
        B::extend(&mut o.1, &e.1);
    }
    fn extend_left(o: &mut Self::Obs, e: &Self::Elem) {
        A::extend_left(&mut o.0, &e.0);
        B::extend_left(&mut o.1, &e.1);
    }
    fn observe(i: &Self::Item) -> Self::Obs {
        (A::observe(&i.0), B::observe(&i.1))
    }
    fn pending(i: &Self::Item) -> bool {
        A::pending(&i.0) || B::pending(&i.1)
    }
    fn gen_pred(rng: &mut Rng, shadow: &[Self::Elem]) -> Self::Pred {
        if rng.chance(1, 2) {
            let s: Vec<A::Elem> = shadow.iter().map(|x| x.0.clone()).collect();
            Either::L(A::gen_pred(rng, &s))
        } else {
            let s: Vec<B::Elem> = shadow.iter().map(|x| x.1.clone()).collect();
            Either::R(B::gen_pred(rng, &s))
        }
    }
    fn eval(p: &Self::Pred, o: &Self::Obs) -> bool {
        match p {
            Either::L(p) => A::eval(p, &o.0),
            Either::R(p) => B::eval(p, &o.1),
        }
    }
    fn search_needs_nonneg() -> bool {
        A::search_needs_nonneg() || B::search_needs_nonneg()
    }
    fn obs_len(o: &Self::Obs) -> Option<usize> {
        A::obs_len(&o.0).or_else(|| B::obs_len(&o.1))
    }
}

// ------------------------------------------------------------------------------------------------
// the built-in sum items over element types that are not ordinary numbers: SumAdd over the rings Z/m with zero divisors
// (a modifier times a node length can vanish although the modifier does not), Sum over a type whose `+` is
// concatenation (associative, not commutative - represented by its polynomial hash and the power of the base).

#[derive(Clone, Copy, Debug, Default, PartialEq, Eq)]
pub struct Zm<const M: u16>(pub u16);

impl<const M: u16> std::ops::Add for Zm<M> {
    type Output = Self;
    fn add(self, o: Self) -> Self {
        Zm((self.0 + o.0) % M)
    }
}

impl<const M: u16> std::ops::Mul for Zm<M> {
    type Output = Self;
    fn mul(self, o: Self) -> Self {
        Zm(((self.0 as u32 * o.0 as u32) % M as u32) as u16)
    }
}

impl<const M: u16> rlib_num_traits::ZeroOne for Zm<M> {
    const ZERO: Self = Zm(0);
    const ONE: Self = Zm(1 % M);
}

#[derive(Debug, Clone)]
pub struct SumAddZm<const M: u16>;

impl<const M: u16> Algebra for SumAddZm<M> {
    type Item = SumAdd<Zm<M>>;
    type Mod = Zm<M>;
    type Elem = u16;
    type Obs = u16;
    type Pred = NumPred;
    fn name() -> String {
        format!("SumAdd<Z/{}>", M)
    }
    fn gen_elem(rng: &mut Rng, _nonneg: bool) -> u16 {
        rng.below(M as u64) as u16
    }
    fn gen_mod(rng: &mut Rng, _nonneg: bool) -> Zm<M> {
        Zm(rng.below(M as u64) as u16)
    }
    fn leaf(e: &u16) -> Self::Item {
        if e % 2 == 0 {
            SumAdd::new(Zm(*e))
        } else {
            SumAdd::from(Zm(*e))
        }
    }
    fn apply(e: &mut u16, m: &Zm<M>) {
        *e = (*e + m.0) % M;
    }
    fn empty() -> u16 {
        0
    }
    fn extend(o: &mut u16, e: &u16) {
        *o = (*o + *e) % M;
    }
    fn extend_left(o: &mut u16, e: &u16) {
        Self::extend(o, e)
    }
    fn observe(i: &Self::Item) -> u16 {
        i.v.0
    }
    fn pending(i: &Self::Item) -> bool {
        i.md.0 != 0
    }
    fn gen_pred(rng: &mut Rng, _shadow: &[u16]) -> NumPred {
        // sums in Z/m are not monotone along growing ranges: only the two constant predicates are lawful
        NumPred::Always(rng.chance(1, 2))
    }
    fn eval(p: &NumPred, o: &u16) -> bool {
        eval_num(p, *o as i64)
    }
}

const CAT_P: u64 = 4_294_967_291;
const CAT_B: u64 = 1_000_003;

#[derive(Clone, Copy, Debug, PartialEq, Eq)]
pub struct Cat {
    pub h: u64,
    pub pw: u64,
}

impl Default for Cat {
    fn default() -> Self {
        Cat { h: 0, pw: 1 }
    }
}

impl std::ops::Add for Cat {
    type Output = Cat;
    /// concatenation
    fn add(self, o: Cat) -> Cat {
        Cat { h: (self.h * o.pw + o.h) % CAT_P, pw: self.pw * o.pw % CAT_P }
    }
}

#[derive(Debug, Clone)]
pub struct SumCat;

impl Algebra for SumCat {
    type Item = Sum<Cat>;
    type Mod = ();
    type Elem = u8;
    type Obs = (u64, u64);
    type Pred = LenPred;
    fn name() -> String {
        "Sum<concatenation>".into()
    }
    fn has_mod() -> bool {
        false
    }
    fn gen_elem(rng: &mut Rng, _nonneg: bool) -> u8 {
        rng.below(5) as u8
    }
    fn gen_mod(_rng: &mut Rng, _nonneg: bool) {}
    fn leaf(e: &u8) -> Self::Item {
        let c = Cat { h: *e as u64 + 1, pw: CAT_B };
        if e % 2 == 0 {
            Sum::new(c)
        } else {
            Sum::from(c)
        }
    }
    fn apply(_e: &mut u8, _m: &()) {}
    fn empty() -> (u64, u64) {
        (0, 1)
    }
    fn extend(o: &mut (u64, u64), e: &u8) {
        *o = ((o.0 * CAT_B + *e as u64 + 1) % CAT_P, o.1 * CAT_B % CAT_P);
    }
    fn extend_left(o: &mut (u64, u64), e: &u8) {
        *o = (((*e as u64 + 1) * o.1 + o.0) % CAT_P, o.1 * CAT_B % CAT_P);
    }
    fn observe(i: &Self::Item) -> (u64, u64) {
        (i.v.h, i.v.pw)
    }
    fn pending(_i: &Self::Item) -> bool {
        false
    }
    fn gen_pred(rng: &mut Rng, shadow: &[u8]) -> LenPred {
        match rng.below(6) {
            0 => LenPred::Always(true),
            1 => LenPred::Always(false),
            _ => LenPred::LenGe(rng.range_usize(1, shadow.len() + 1)),
        }
    }
    fn eval(p: &LenPred, o: &(u64, u64)) -> bool {
        // the power of the base identifies the length
        match p {
            LenPred::Always(b) => *b,
            LenPred::LenGe(k) => {
                let mut pw = 1u64;
                for _ in 0..*k {
                    pw = pw * CAT_B % CAT_P;
                }
                // length >= k  <=>  the range's power is not among B^0 .. B^(k-1)
                let mut q = 1u64;
                for _ in 0..*k {
                    if q == o.1 {
                        return false;
                    }
                    q = q * CAT_B % CAT_P;
                }
                let _ = pw;
                true
            }
        }
    }
}
