fn main() {}
