//! dsumon - runtime monitor for the disjoint-set union (C05).
//!   --mode random      random histories (un/par/check/size/reset/clone) on small n, full verification after every op
//!   --mode exhaustive  every op sequence up to a length on n <= 5
//!   --mode adversarial chains, binomial worst case, stars, caterpillars, random, with staged depth checkpoints
//! Oracles: naive component labelling (relabel on union); representative stability between unions; through the
//! read-only hook (verif_parents / verif_sizes): acyclic forest, every element reaches a root of its own component,
//! depth(v) <= floor(log2(|component(v)|)), size array at roots = cardinality.
//! Replay: --mode random --case <seed> | --mode exhaustive --case <n>:<index> | --mode adversarial --case <order>:<n>

use common::{catch, lib, mix, Engine, Json, Report, Rng, WorkQueue};
use rlib_dsu::DSU;

struct Model {
    label: Vec<usize>,
    members: Vec<Vec<usize>>, // by label
    /// representative recorded since the last union / reset, per label
    rep: Vec<Option<usize>>,
}

impl Model {
    fn new(n: usize) -> Self {
        Model { label: (0..n).collect(), members: (0..n).map(|i| vec![i]).collect(), rep: vec![None; n] }
    }
    fn n(&self) -> usize {
        self.label.len()
    }
    fn union(&mut self, u: usize, v: usize) -> bool {
        let (a, b) = (self.label[u], self.label[v]);
        // any union call ends the stability window of every recorded representative (least demanding reading)
        for r in self.rep.iter_mut() {
            *r = None;
        }
        if a == b {
            return false;
        }
        let moved = std::mem::take(&mut self.members[b]);
        for &x in &moved {
            self.label[x] = a;
        }
        self.members[a].extend(moved);
        true
    }
    fn size(&self, v: usize) -> usize {
        self.members[self.label[v]].len()
    }
    fn same(&self, u: usize, v: usize) -> bool {
        self.label[u] == self.label[v]
    }
}

struct Pair {
    dsu: DSU,
    model: Model,
}

struct Cx<'a> {
    rep: &'a mut Report,
    replay: Vec<String>,
    log: Vec<String>,
    mode: &'static str,
}

impl Cx<'_> {
    fn violation(&mut self, kind: &str, d: Json) {
        let tail: Vec<String> = if self.log.len() > 60 { self.log[self.log.len() - 60..].to_vec() } else { self.log.clone() };
        let d = d.set("history", Json::from(tail));
        self.rep.violation(format!("{}:{}", self.mode, kind), d, self.replay.clone());
    }
    fn note(&mut self, s: String) {
        if self.log.len() < 500 {
            self.log.push(s);
        }
    }
}

fn floor_log2(x: usize) -> usize {
    (usize::BITS - 1 - x.leading_zeros()) as usize
}

/// Forest invariant through the hook. O(n). Returns max depth seen.
fn check_forest(p: &Pair, cx: &mut Cx, why: &str) -> usize {
    let parents = p.dsu.verif_parents();
    let sizes = p.dsu.verif_sizes();
    let n = p.model.n();
    cx.rep.inc("forest_checks");
    if parents.len() != n || sizes.len() != n {
        cx.violation(
            "forest_len",
            Json::obj().set("what", "parent/size arrays do not have one entry per element").set("parents", parents.len()).set("sizes", sizes.len()).set("n", n).set("at", why),
        );
        return 0;
    }
    // depth with memo, iterative; cycle detection by colouring
    let mut depth: Vec<i64> = vec![-1; n];
    let mut maxd = 0usize;
    let mut stack: Vec<usize> = Vec::new();
    let mut state: Vec<u8> = vec![0; n]; // 0 new, 1 on stack, 2 done
    for s in 0..n {
        if state[s] == 2 {
            continue;
        }
        let mut v = s;
        loop {
            if parents[v] >= n {
                cx.violation("forest_parent_out_of_range", Json::obj().set("v", v).set("parent", parents[v]).set("n", n).set("at", why));
                return 0;
            }
            if state[v] == 2 {
                break;
            }
            if state[v] == 1 {
                cx.violation(
                    "forest_cycle",
                    Json::obj().set("what", "the parent forest contains a cycle (a lookup would not terminate)").set("v", v).set("at", why),
                );
                return 0;
            }
            state[v] = 1;
            stack.push(v);
            if parents[v] == v {
                depth[v] = 0;
                state[v] = 2;
                stack.pop();
                break;
            }
            v = parents[v];
        }
        while let Some(x) = stack.pop() {
            depth[x] = depth[parents[x]] + 1;
            state[x] = 2;
        }
    }
    // root of every element must lie in its own component; depth bound; sizes at roots
    let mut root_of: Vec<usize> = vec![usize::MAX; n];
    // process in order of increasing depth is unnecessary: resolve by walking (depth is small when the bound holds);
    // to stay O(n) even on degenerate forests use memo through a second pass over a depth-sorted order
    let mut order: Vec<usize> = (0..n).collect();
    order.sort_by_key(|&v| depth[v]);
    for &v in &order {
        root_of[v] = if parents[v] == v { v } else { root_of[parents[v]] };
    }
    let mut reported = 0;
    for v in 0..n {
        let r = root_of[v];
        let comp = p.model.size(v);
        if !p.model.same(v, r) && reported < 2 {
            reported += 1;
            cx.violation(
                "forest_root_outside_component",
                Json::obj().set("what", "following parents from v ends at a root outside v's component").set("v", v).set("root", r).set("at", why),
            );
        }
        let d = depth[v] as usize;
        if d > maxd {
            maxd = d;
        }
        if d > floor_log2(comp) && reported < 2 {
            reported += 1;
            cx.violation(
                "depth",
                Json::obj()
                    .set("what", "an element is deeper in the parent forest than floor(log2(component size))")
                    .set("v", v)
                    .set("depth", d)
                    .set("component_size", comp)
                    .set("bound", floor_log2(comp))
                    .set("n", n)
                    .set("at", why),
            );
        }
        if parents[v] == v && sizes[v] != comp && reported < 2 {
            reported += 1;
            cx.violation(
                "forest_size_at_root",
                Json::obj().set("what", "size stored at a root differs from the component's cardinality").set("root", v).set("stored", sizes[v]).set("want", comp).set("at", why),
            );
        }
    }
    cx.rep.max("max_forest_depth_seen", maxd as i64);
    maxd
}

/// par(v) for one element: member of the component, stable since the last union
fn check_par(p: &mut Pair, v: usize, cx: &mut Cx) {
    let got = lib!(p.dsu.par(v));
    cx.rep.inc("par_checked");
    let n = p.model.n();
    if got >= n || !p.model.same(got, v) {
        cx.violation(
            "par_not_member",
            Json::obj().set("what", "par(v) is not a member of v's component").set("v", v).set("got", got),
        );
        return;
    }
    let l = p.model.label[v];
    match p.model.rep[l] {
        None => p.model.rep[l] = Some(got),
        Some(r) => {
            if r != got {
                cx.violation(
                    "par_unstable",
                    Json::obj()
                        .set("what", "the representative of a component differs between two lookups with no union in between (or between two of its members)")
                        .set("v", v)
                        .set("got", got)
                        .set("recorded", r),
                );
            }
        }
    }
}

fn full_verify(p: &mut Pair, cx: &mut Cx, why: &str) {
    let n = p.model.n();
    check_forest(p, cx, why);
    // all members agree on the representative; size and check answers
    for v in 0..n {
        check_par(p, v, cx);
        let s = lib!(p.dsu.size(v));
        if s != p.model.size(v) {
            cx.violation("size", Json::obj().set("v", v).set("got", s).set("want", p.model.size(v)).set("at", why));
        }
    }
    if n <= 16 {
        for u in 0..n {
            for v in 0..n {
                let c = lib!(p.dsu.check(u, v));
                cx.rep.inc("check_checked");
                if c != p.model.same(u, v) {
                    cx.violation("check", Json::obj().set("u", u).set("v", v).set("got", c).set("want", p.model.same(u, v)).set("at", why));
                }
            }
        }
    }
    check_forest(p, cx, "after lookups (path compression)");
}

fn do_un(p: &mut Pair, u: usize, v: usize, cx: &mut Cx) {
    cx.note(format!("un({}, {})", u, v));
    let want = p.model.union(u, v);
    let got = lib!(p.dsu.un(u, v));
    cx.rep.inc("un_checked");
    if want {
        cx.rep.inc("un_joined");
    }
    if got != want {
        cx.violation(
            "un_result",
            Json::obj().set("what", "un returned true although nothing was joined, or false although two components were joined").set("u", u).set("v", v).set("got", got).set("want", want),
        );
    }
}

fn run_random_case(case_seed: u64, rep: &mut Report, verbose: bool) {
    let mut rng = Rng::new(case_seed);
    let replay = vec!["--mode".into(), "random".into(), "--case".into(), format!("{}", case_seed)];
    let mut cx = Cx { rep, replay, log: Vec::new(), mode: "random" };
    cx.rep.inc("evaluations");
    let r = catch(|| {
        let n0 = match rng.below(4) {
            0 => rng.range_usize(1, 6),
            1 => rng.range_usize(6, 17),
            _ => rng.range_usize(2, 64),
        };
        cx.note(format!("new({})", n0));
        let mut pool: Vec<Pair> = vec![Pair { dsu: lib!(DSU::new(n0)), model: Model::new(n0) }];
        let nops = rng.range_usize(1, 80);
        let mut joined = 0;
        let mut lookups_between = 0;
        for _ in 0..nops {
            let k = rng.usize_below(pool.len());
            let n = pool[k].model.n();
            if n == 0 {
                // only reset is possible on an empty structure
                let n2 = rng.range_usize(1, 20);
                cx.note(format!("[{}] reset({})", k, n2));
                lib!(pool[k].dsu.reset(n2));
                pool[k].model = Model::new(n2);
                continue;
            }
            match rng.weighted(&[40, 14, 12, 10, 3, 3, 6, 3]) {
                0 => {
                    // unions biased to join different components through non-root, deep elements
                    let u = rng.usize_below(n);
                    let v = rng.usize_below(n);
                    let before = pool[k].model.same(u, v);
                    cx.note(format!("[{}]", k));
                    do_un(&mut pool[k], u, v, &mut cx);
                    if !before {
                        joined += 1;
                    }
                }
                1 => {
                    let v = rng.usize_below(n);
                    cx.note(format!("[{}] par({})", k, v));
                    check_par(&mut pool[k], v, &mut cx);
                    lookups_between += 1;
                }
                2 => {
                    let (u, v) = (rng.usize_below(n), rng.usize_below(n));
                    cx.note(format!("[{}] check({}, {})", k, u, v));
                    let got = lib!(pool[k].dsu.check(u, v));
                    cx.rep.inc("check_checked");
                    if got != pool[k].model.same(u, v) {
                        let want = pool[k].model.same(u, v);
                        cx.violation("check", Json::obj().set("u", u).set("v", v).set("got", got).set("want", want));
                    }
                }
                3 => {
                    let v = rng.usize_below(n);
                    cx.note(format!("[{}] size({})", k, v));
                    let got = lib!(pool[k].dsu.size(v));
                    cx.rep.inc("size_checked");
                    if got != pool[k].model.size(v) {
                        let want = pool[k].model.size(v);
                        cx.violation("size", Json::obj().set("v", v).set("got", got).set("want", want));
                    }
                }
                4 => {
                    // reset: growing, shrinking, same size, to zero
                    let n2 = match rng.below(5) {
                        0 => n,
                        1 => rng.range_usize(0, n),
                        2 => 0,
                        _ => rng.range_usize(n, n + 20),
                    };
                    cx.note(format!("[{}] reset({})", k, n2));
                    cx.rep.inc("resets");
                    cx.rep.see_str("reset_kinds", if n2 > n { "grow" } else if n2 < n { "shrink" } else { "same" });
                    lib!(pool[k].dsu.reset(n2));
                    pool[k].model = Model::new(n2);
                }
                5 if pool.len() < 3 && rng.chance(1, 2) => {
                    // a second, fresh structure of another size
                    let n2 = rng.range_usize(1, 40);
                    cx.note(format!("new({}) -> [{}]", n2, pool.len()));
                    pool.push(Pair { dsu: lib!(DSU::new(n2)), model: Model::new(n2) });
                }
                7 => {
                    // Clone::clone_from into another live structure (of any size)
                    if pool.len() >= 2 {
                        let mut j = rng.usize_below(pool.len() - 1);
                        if j >= k {
                            j += 1;
                        }
                        cx.note(format!("[{}].clone_from([{}]) (sizes {} <- {})", j, k, pool[j].model.n(), n));
                        cx.rep.inc("clone_from_calls");
                        cx.rep.see_str("clone_from_kinds", if pool[j].model.n() < n { "into_shorter" } else if pool[j].model.n() > n { "into_longer" } else { "same_len" });
                        let src = lib!(pool[k].dsu.clone());
                        lib!(pool[j].dsu.clone_from(&src));
                        pool[j].model = Model { label: pool[k].model.label.clone(), members: pool[k].model.members.clone(), rep: pool[k].model.rep.clone() };
                        check_forest(&pool[j], &mut cx, "after clone_from");
                        full_verify(&mut pool[j], &mut cx, "after clone_from");
                    }
                }
                5 => {
                    if pool.len() < 3 {
                        cx.note(format!("[{}] clone -> [{}]", k, pool.len()));
                        cx.rep.inc("clones");
                        let d = lib!(pool[k].dsu.clone());
                        let m = Model { label: pool[k].model.label.clone(), members: pool[k].model.members.clone(), rep: pool[k].model.rep.clone() };
                        pool.push(Pair { dsu: d, model: m });
                    }
                }
                _ => {
                    cx.note(format!("[{}] verify-all", k));
                    full_verify(&mut pool[k], &mut cx, "mid-history");
                }
            }
            check_forest(&pool[k], &mut cx, "after op");
        }
        for k in 0..pool.len() {
            if pool[k].model.n() > 0 {
                full_verify(&mut pool[k], &mut cx, "end of history");
            }
        }
        if joined >= 2 && lookups_between >= 1 {
            cx.rep.see("nontrivial", case_seed);
        }
        if cx.rep.wants_sample() && nops <= 10 {
            let s = Json::obj().set("history", Json::from(cx.log.clone()));
            cx.rep.sample(s);
        }
        if verbose {
            for l in &cx.log {
                eprintln!("  {}", l);
            }
        }
    });
    if let Err(p) = r {
        if p.in_lib {
            cx.violation("panic", Json::obj().set("what", "the library panicked on a lawful operation").set("panic", p.msg.as_str()).set("at", format!("{}:{}", p.file, p.line)));
        } else {
            cx.rep.inconclusive(format!("harness panic at {}:{}: {}", p.file, p.line, p.msg));
        }
    }
}

// ------------------------------------------------------------------------------------------------

#[derive(Clone, Debug)]
enum XOp {
    Un(usize, usize),
    Par(usize),
    Size(usize),
}

fn xops(n: usize) -> Vec<XOp> {
    let mut v = Vec::new();
    for a in 0..n {
        for b in 0..n {
            if a != b {
                v.push(XOp::Un(a, b));
            }
        }
    }
    for a in 0..n {
        v.push(XOp::Par(a));
    }
    v.push(XOp::Un(0, 0));
    v.push(XOp::Size(n - 1));
    v
}

fn decode_seq(mut idx: u64, nops: usize, maxlen: usize) -> Vec<usize> {
    let mut p = 1u64;
    for len in 0..=maxlen {
        if idx < p {
            let mut v = Vec::with_capacity(len);
            for _ in 0..len {
                v.push((idx % nops as u64) as usize);
                idx /= nops as u64;
            }
            return v;
        }
        idx -= p;
        p *= nops as u64;
    }
    unreachable!()
}

fn total_seqs(nops: usize, maxlen: usize) -> u64 {
    let mut t = 0u64;
    let mut p = 1u64;
    for _ in 0..=maxlen {
        t += p;
        p *= nops as u64;
    }
    t
}

fn xlen(n: usize, thorough: bool) -> usize {
    match (n, thorough) {
        (1, _) => 4,
        (2, _) => 7,
        (3, false) => 5,
        (3, true) => 6,
        (4, false) => 4,
        (4, true) => 5,
        (_, false) => 3,
        (_, true) => 4,
    }
}

fn run_exhaustive_case(n: usize, idx: u64, ops: &[XOp], maxlen: usize, rep: &mut Report, verbose: bool) {
    let seq = decode_seq(idx, ops.len(), maxlen);
    let replay = vec!["--mode".into(), "exhaustive".into(), "--case".into(), format!("{}:{}", n, idx)];
    let mut cx = Cx { rep, replay, log: vec![format!("new({})", n)], mode: "exhaustive" };
    cx.rep.inc("evaluations");
    let r = catch(|| {
        let mut p = Pair { dsu: lib!(DSU::new(n)), model: Model::new(n) };
        let mut joins = 0;
        for &k in &seq {
            match ops[k] {
                XOp::Un(a, b) => {
                    let before = p.model.same(a, b);
                    do_un(&mut p, a, b, &mut cx);
                    if !before {
                        joins += 1;
                    }
                }
                XOp::Par(a) => {
                    cx.note(format!("par({})", a));
                    check_par(&mut p, a, &mut cx);
                }
                XOp::Size(a) => {
                    cx.note(format!("size({})", a));
                    let got = lib!(p.dsu.size(a));
                    if got != p.model.size(a) {
                        let want = p.model.size(a);
                        cx.violation("size", Json::obj().set("v", a).set("got", got).set("want", want));
                    }
                }
            }
            check_forest(&p, &mut cx, "after op");
        }
        full_verify(&mut p, &mut cx, "end of history");
        if joins >= 2 {
            cx.rep.see("nontrivial", mix(&[n as u64, idx]));
        }
        if cx.rep.wants_sample() && seq.len() == maxlen {
            let s = Json::obj().set("n", n).set("enumerated_history", Json::from(cx.log.clone()));
            cx.rep.sample(s);
        }
        if verbose {
            for l in &cx.log {
                eprintln!("  {}", l);
            }
        }
    });
    if let Err(p) = r {
        if p.in_lib {
            cx.violation("panic", Json::obj().set("panic", p.msg.as_str()).set("at", format!("{}:{}", p.file, p.line)));
        } else {
            cx.rep.inconclusive(format!("harness panic at {}:{}: {}", p.file, p.line, p.msg));
        }
    }
}

// ------------------------------------------------------------------------------------------------
// adversarial orders on large n with staged checkpoints. The model here is an independent union-find without
// compression or sizes (cheap) plus explicit member counts.

struct BigModel {
    up: Vec<u32>,
    cnt: Vec<u32>,
}
impl BigModel {
    fn new(n: usize) -> Self {
        BigModel { up: (0..n as u32).collect(), cnt: vec![1; n] }
    }
    fn find(&self, mut v: usize) -> usize {
        while self.up[v] as usize != v {
            v = self.up[v] as usize;
        }
        v
    }
    /// union by count so that find stays logarithmic (independent code, no compression)
    fn union(&mut self, a: usize, b: usize) -> bool {
        let (mut a, mut b) = (self.find(a), self.find(b));
        if a == b {
            return false;
        }
        if self.cnt[a] < self.cnt[b] {
            std::mem::swap(&mut a, &mut b);
        }
        self.up[b] = a as u32;
        self.cnt[a] += self.cnt[b];
        true
    }
}

const ORDERS: &[&str] = &[
    "chain_fwd",
    "chain_rev_args",
    "chain_backwards",
    "binomial_roots",
    "binomial_deepest",
    "star_into_zero",
    "star_from_zero",
    "caterpillar",
    "random_pairs",
    "random_with_lookups",
    "pairs_then_chain",
    "small_components_at_both_ends",
    "reset_to_large_sizes",
    "absorb_after_deep_lookup",
    "construction_ladder",
    "binomial_meets_slightly_smaller",
];

/// depth/size invariant through the hook against the big model, O(n alpha)
fn big_checkpoint(dsu: &DSU, m: &BigModel, cx: &mut Cx, why: &str) -> bool {
    let parents = dsu.verif_parents();
    let sizes = dsu.verif_sizes();
    let n = m.up.len();
    cx.rep.inc("checkpoints");
    cx.rep.count("elements_walked", n as u64);
    if parents.len() != n {
        cx.violation("forest_len", Json::obj().set("parents", parents.len()).set("n", n).set("at", why));
        return false;
    }
    // depth by walking with a step cap: a walk longer than 64 steps already violates the bound for n < 2^64
    let mut maxd = 0usize;
    let mut bad = 0;
    for v in 0..n {
        let mut x = v;
        let mut d = 0usize;
        while parents[x] != x {
            if parents[x] >= n {
                cx.violation("forest_parent_out_of_range", Json::obj().set("v", x).set("parent", parents[x]).set("at", why));
                return false;
            }
            x = parents[x];
            d += 1;
            if d > 70 {
                break;
            }
        }
        let root_m = m.find(v);
        let comp = m.cnt[root_m] as usize;
        if d > maxd {
            maxd = d;
        }
        if d > floor_log2(comp) {
            bad += 1;
            if bad <= 1 {
                cx.violation(
                    "depth",
                    Json::obj()
                        .set("what", "an element is deeper in the parent forest than floor(log2(component size))")
                        .set("v", v)
                        .set("depth_at_least", d)
                        .set("component_size", comp)
                        .set("bound", floor_log2(comp))
                        .set("n", n)
                        .set("at", why),
                );
            }
            continue;
        }
        if m.find(x) != root_m {
            bad += 1;
            if bad <= 1 {
                cx.violation("forest_root_outside_component", Json::obj().set("v", v).set("root", x).set("at", why));
            }
        } else if sizes[x] != comp {
            bad += 1;
            if bad <= 1 {
                cx.violation("forest_size_at_root", Json::obj().set("root", x).set("stored", sizes[x]).set("want", comp).set("at", why));
            }
        }
    }
    cx.rep.max("max_forest_depth_seen", maxd as i64);
    cx.rep.max("max_n_at_checkpoint", n as i64);
    bad == 0
}

/// a ladder of constructions on one thread that has never built a structure before: new / reset with sizes that climb
/// by factors between 1.05 and 2.6 from a few thousand up to about n (then fall and climb again), every fresh structure
/// compared element by element with the all-singletons model, a few unions at both ends and in the top part, and the
/// forest checked again. Whatever a process or thread keeps between structures (scratch buffers, tables sized by the
/// largest structure seen so far) is exercised by the succession of sizes, not by any single one.
fn run_ladder(n: usize, seed: u64, rep: &mut Report) {
    std::thread::scope(|s| {
        s.spawn(move || {
            let replay = vec!["--mode".into(), "adversarial".into(), "--case".into(), format!("construction_ladder:{}", n)];
            let mut cx = Cx { rep, replay, log: vec![format!("order construction_ladder n {}", n)], mode: "adversarial" };
            cx.rep.inc("evaluations");
            cx.rep.see_str("nontrivial", &format!("construction_ladder:{}", n));
            let mut rng = Rng::new(mix(&[seed, n as u64, 0x1add]));
            let r = catch(|| {
                let mut sizes: Vec<usize> = Vec::new();
                for _round in 0..3 {
                    let mut sz = 3000.0 + rng.below(3000) as f64;
                    while (sz as usize) < n.max(9000) {
                        sizes.push(sz as usize);
                        sz *= 1.05 + rng.below(156) as f64 / 100.0;
                    }
                    sizes.push(n.max(9000));
                }
                let mut live: Option<DSU> = None;
                for (k, &sz) in sizes.iter().enumerate() {
                    cx.note(format!("#{} {} elements", k, sz));
                    cx.rep.inc("ladder_constructions");
                    let mut dsu = match live.take() {
                        Some(mut d) if rng.chance(1, 2) => {
                            lib!(d.reset(sz));
                            d
                        }
                        _ => lib!(DSU::new(sz)),
                    };
                    let mut m = BigModel::new(sz);
                    if !big_checkpoint(&dsu, &m, &mut cx, &format!("fresh structure #{} of {} elements", k, sz)) {
                        return;
                    }
                    for (u, v) in [(0usize, sz - 1), (sz - 2, sz - 1), (sz - sz / 6, sz - sz / 7), (sz / 2, sz - 3), (1, 2)] {
                        let want = m.union(u, v);
                        let got = lib!(dsu.un(u, v));
                        cx.rep.inc("un_checked");
                        if got != want {
                            cx.violation("un_result", Json::obj().set("u", u).set("v", v).set("got", got).set("want", want).set("n", sz).set("construction", k));
                            return;
                        }
                    }
                    for v in [sz - 1, sz - sz / 6, sz - sz / 9, sz / 2, 0] {
                        let (got, want) = (lib!(dsu.size(v)), m.cnt[m.find(v)] as usize);
                        cx.rep.inc("size_checked");
                        if got != want {
                            cx.violation("size", Json::obj().set("v", v).set("got", got).set("want", want).set("n", sz).set("construction", k));
                            return;
                        }
                    }
                    if !big_checkpoint(&dsu, &m, &mut cx, &format!("structure #{} after five unions", k)) {
                        return;
                    }
                    live = Some(dsu);
                }
            });
            if let Err(p) = r {
                if p.in_lib {
                    cx.violation("panic", Json::obj().set("panic", p.msg.as_str()).set("at", format!("{}:{}", p.file, p.line)));
                } else {
                    cx.rep.inconclusive(format!("harness panic at {}:{}: {}", p.file, p.line, p.msg));
                }
            }
        });
    });
}

fn run_adversarial(order: &str, n: usize, seed: u64, rep: &mut Report) {
    if order == "construction_ladder" {
        return run_ladder(n, seed, rep);
    }
    let replay = vec!["--mode".into(), "adversarial".into(), "--case".into(), format!("{}:{}", order, n)];
    let mut cx = Cx { rep, replay, log: vec![format!("order {} n {}", order, n)], mode: "adversarial" };
    cx.rep.inc("evaluations");
    cx.rep.see_str("nontrivial", &format!("{}:{}", order, n));
    let mut rng = Rng::new(seed);
    let r = catch(|| {
        // the structure of n fresh elements is obtained by one of several routes: reset() is a constructor too, and what
        // a structure was before must not matter
        let route = (mix(&[seed, n as u64, common::hash_str(order)]) % 5) as usize;
        const ROUTES: [&str; 5] = ["new(n)", "new(1), reset(n)", "new(n/2+1), reset(n/2+2), reset(n) (growing inside spare capacity)", "new(2n+3), reset(n) (shrinking)", "new(n), random unions and lookups, reset(n)"];
        cx.note(format!("route: {}", ROUTES[route]));
        cx.rep.see_str("construction_routes", ROUTES[route]);
        let mut dsu = match route {
            1 => {
                let mut d = lib!(DSU::new(1));
                lib!(d.reset(n));
                d
            }
            2 if n >= 4 => {
                let a = n / 2 + 1;
                let mut d = lib!(DSU::new(a));
                lib!(d.reset(a + 1));
                lib!(d.reset(n));
                d
            }
            3 => {
                let mut d = lib!(DSU::new(2 * n + 3));
                lib!(d.un(0, 2 * n + 2));
                lib!(d.un(n - 1, n));
                lib!(d.reset(n));
                d
            }
            4 => {
                let mut d = lib!(DSU::new(n));
                for _ in 0..(n / 3).min(50_000) {
                    let (u, v) = (rng.usize_below(n), rng.usize_below(n));
                    lib!(d.un(u, v));
                    lib!(d.par(rng.usize_below(n)));
                }
                lib!(d.reset(n));
                d
            }
            _ => lib!(DSU::new(n)),
        };
        let mut m = BigModel::new(n);
        if !big_checkpoint(&dsu, &m, &mut cx, "fresh structure") {
            return;
        }
        let mut unions = 0usize;
        let mut next_cp = 64usize;
        let mut ok = true;
        // every union goes through here: result check + staged checkpoint by number of successful unions
        macro_rules! un {
            ($u:expr, $v:expr) => {{
                let (u, v) = ($u, $v);
                let want = m.union(u, v);
                let got = lib!(dsu.un(u, v));
                cx.rep.inc("un_checked");
                if got != want {
                    cx.violation("un_result", Json::obj().set("u", u).set("v", v).set("got", got).set("want", want));
                    ok = false;
                }
                if want {
                    unions += 1;
                    if unions >= next_cp {
                        if !big_checkpoint(&dsu, &m, &mut cx, &format!("staged after {} unions", unions)) {
                            ok = false;
                        }
                        next_cp *= 4;
                    }
                }
                if !ok {
                    return;
                }
            }};
        }
        match order {
            "chain_fwd" => {
                for i in 0..n - 1 {
                    un!(i, i + 1);
                }
            }
            "chain_rev_args" => {
                for i in 0..n - 1 {
                    un!(i + 1, i);
                }
            }
            "chain_backwards" => {
                for i in (0..n - 1).rev() {
                    un!(i, i + 1);
                }
            }
            "binomial_roots" | "binomial_deepest" => {
                // union equal-sized blocks; "roots": through the blocks' current roots (no compression at all, the
                // forest reaches depth log2(size) exactly); "deepest": through the deepest element of each block
                let mut width = 1;
                while width < n {
                    let mut b = 0;
                    while b + width < n {
                        let (u, v) = if order == "binomial_roots" {
                            let p = dsu.verif_parents();
                            let mut x = b;
                            while p[x] != x {
                                x = p[x];
                            }
                            let mut y = b + width;
                            while p[y] != y {
                                y = p[y];
                            }
                            (x, y)
                        } else {
                            // deepest element of each block by walking the hook's parent array
                            let p = dsu.verif_parents();
                            let deepest = |lo: usize, hi: usize| {
                                let mut best = (0usize, lo);
                                for s in lo..hi.min(n) {
                                    let mut x = s;
                                    let mut d = 0;
                                    while p[x] != x {
                                        x = p[x];
                                        d += 1;
                                    }
                                    if d > best.0 {
                                        best = (d, s);
                                    }
                                }
                                best.1
                            };
                            if width <= 256 {
                                (deepest(b, b + width), deepest(b + width, b + 2 * width))
                            } else {
                                (b + width - 1, b + width)
                            }
                        };
                        if (b / width) % 4 == 0 {
                            un!(u, v);
                        } else {
                            un!(v, u);
                        }
                        b += 2 * width;
                    }
                    width *= 2;
                }
            }
            "star_into_zero" => {
                for i in 1..n {
                    un!(i, 0);
                }
            }
            "star_from_zero" => {
                for i in 1..n {
                    un!(0, i);
                }
            }
            "caterpillar" => {
                // pairs (2i, 2i+1) first, then chain the pairs through their second elements
                for i in 0..n / 2 {
                    un!(2 * i, 2 * i + 1);
                }
                for i in 0..n / 2 - 1 {
                    un!(2 * i + 1, 2 * i + 3);
                }
            }
            "random_pairs" => {
                for _ in 0..2 * n {
                    un!(rng.usize_below(n), rng.usize_below(n));
                }
            }
            "random_with_lookups" => {
                for k in 0..2 * n {
                    un!(rng.usize_below(n), rng.usize_below(n));
                    if k % 3 == 0 {
                        let v = rng.usize_below(n);
                        let got = lib!(dsu.par(v));
                        cx.rep.inc("par_checked");
                        if m.find(got) != m.find(v) {
                            cx.violation("par_not_member", Json::obj().set("v", v).set("got", got));
                            return;
                        }
                        let u = rng.usize_below(n);
                        let c = lib!(dsu.check(u, v));
                        if c != (m.find(u) == m.find(v)) {
                            cx.violation("check", Json::obj().set("u", u).set("v", v).set("got", c));
                            return;
                        }
                        let s = lib!(dsu.size(v));
                        if s != m.cnt[m.find(v)] as usize {
                            cx.violation("size", Json::obj().set("v", v).set("got", s).set("want", m.cnt[m.find(v)]));
                            return;
                        }
                    }
                }
            }
            "pairs_then_chain" => {
                let mut width = 1;
                // build blocks of 8 as binomial trees, then chain the blocks smallest-into-largest
                while width < 8 {
                    let mut b = 0;
                    while b + width < n {
                        un!(b, b + width);
                        b += 2 * width;
                    }
                    width *= 2;
                }
                let mut b = 8;
                while b < n {
                    un!(b, b - 8);
                    b += 8;
                }
            }
            "small_components_at_both_ends" => {
                // components of 1..=5 elements at the lowest and at the highest indices, joined low-with-high in every
                // combination of sizes and both argument orders (a link decision that mixes the index into the size
                // comparison goes wrong only for large indices and nearly equal sizes)
                let mut lo = 0usize;
                let mut hi = n;
                for da in 1..=5usize {
                    for db in 1..=5usize {
                        for swap in [false, true] {
                            if lo + da + db + 2 >= hi {
                                break;
                            }
                            let a0 = lo;
                            for j in 1..da {
                                un!(a0, a0 + j);
                            }
                            lo += da;
                            hi -= db;
                            let b0 = hi;
                            for j in 1..db {
                                un!(b0 + j, b0);
                            }
                            let (x, y) = (a0 + (da - 1) / 2, b0 + db / 2);
                            if swap {
                                un!(y, x);
                            } else {
                                un!(x, y);
                            }
                        }
                    }
                }
                // checkpoint now: few components, every one of them tiny (depth bound 0..3)
                if !big_checkpoint(&dsu, &m, &mut cx, "after joining small components from both ends") {
                    return;
                }
            }
            "binomial_meets_slightly_smaller" => {
                // the depth bound is tight exactly for perfect binomial trees (2^k elements at depth k, built through roots
                // only): whichever way one of them is united with a component of 2^(k-1) < s <= 2^k elements, the smaller
                // one has to go below. Components built in both orders (so that either may be "the largest so far" while
                // the other is assembled from halves no larger than it), united in both argument orders. No lookups.
                let root_of = |dsu: &DSU, mut x: usize| {
                    let p = dsu.verif_parents();
                    while p[x] != x {
                        x = p[x];
                    }
                    x
                };
                let mut base = 0usize;
                // (which size variant / construction order / argument order meets which k depends on the seed and on n)
                let mut combo = (seed % 40) as usize + n % 7;
                'outer: loop {
                    let mut progressed = false;
                    for k in 1..=20usize {
                        let full = 1usize << k;
                        let sizes = [full - 1, full - (full / 8).max(1), full / 2 + 1, full, full - (full / 16).max(1)];
                        let sq = sizes[combo % sizes.len()].max(1);
                        if base + full + sq > n {
                            continue;
                        }
                        progressed = true;
                        let (p_lo, q_lo) = if combo % 2 == 0 { (base, base + full) } else { (base + sq, base) };
                        let build_p = combo / 2 % 2 == 0;
                        // a component of `size` elements at [lo, lo + size): perfect binomial blocks for the set bits of
                        // size (largest first), each built through roots, then joined through roots largest first
                        let build = |dsu: &mut DSU, m: &mut BigModel, lo: usize, size: usize, cx: &mut Cx, ok: &mut bool, unions: &mut usize| {
                            let mut at = lo;
                            let mut prev_root: Option<usize> = None;
                            for bit in (0..=20usize).rev() {
                                if size >> bit & 1 == 0 {
                                    continue;
                                }
                                let w = 1usize << bit;
                                let mut width = 1;
                                while width < w {
                                    let mut b = at;
                                    while b + width < at + w {
                                        let (x, y) = (root_of(dsu, b), root_of(dsu, b + width));
                                        let want = m.union(x, y);
                                        let got = lib!(dsu.un(x, y));
                                        cx.rep.inc("un_checked");
                                        *unions += want as usize;
                                        if got != want {
                                            cx.violation("un_result", Json::obj().set("u", x).set("v", y).set("got", got).set("want", want));
                                            *ok = false;
                                            return;
                                        }
                                        b += 2 * width;
                                    }
                                    width *= 2;
                                }
                                let r = root_of(dsu, at);
                                if let Some(pr) = prev_root {
                                    let want = m.union(pr, r);
                                    let got = lib!(dsu.un(pr, r));
                                    *unions += want as usize;
                                    if got != want {
                                        *ok = false;
                                        return;
                                    }
                                    prev_root = Some(root_of(dsu, pr));
                                } else {
                                    prev_root = Some(r);
                                }
                                at += w;
                            }
                        };
                        if build_p {
                            build(&mut dsu, &mut m, p_lo, full, &mut cx, &mut ok, &mut unions);
                            build(&mut dsu, &mut m, q_lo, sq, &mut cx, &mut ok, &mut unions);
                        } else {
                            build(&mut dsu, &mut m, q_lo, sq, &mut cx, &mut ok, &mut unions);
                            build(&mut dsu, &mut m, p_lo, full, &mut cx, &mut ok, &mut unions);
                        }
                        if !ok {
                            return;
                        }
                        let (rp, rq) = (root_of(&dsu, p_lo), root_of(&dsu, q_lo));
                        if combo / 4 % 2 == 0 {
                            un!(rp, rq);
                        } else {
                            un!(rq, rp);
                        }
                        cx.rep.inc("binomial_meets_smaller_pairs");
                        base += full + sq;
                        combo += 1;
                        if n <= 70_000 && combo % 8 == 0 && !big_checkpoint(&dsu, &m, &mut cx, "after a perfect binomial tree met a slightly smaller component") {
                            return;
                        }
                    }
                    if !progressed {
                        break 'outer;
                    }
                }
            }
            "reset_to_large_sizes" => {
                // reset() is a constructor too: after it every element is its own component, whatever the size
                // (the same size several times in a row: the rounds then repeat the same unions with the same roots)
                for &n2 in &[n, n, n, n / 3 + 1, n / 3 + 1, (1 << 18) + 1, n - n / 5, 300_000.min(n), n, n] {
                    if n2 == 0 {
                        continue;
                    }
                    lib!(dsu.reset(n2));
                    m = BigModel::new(n2);
                    if !big_checkpoint(&dsu, &m, &mut cx, &format!("after reset({})", n2)) {
                        return;
                    }
                    for v in [0usize, 1, n2 / 2, n2 - n2 / 4 - 1, n2 - 1] {
                        let v = v.min(n2 - 1);
                        let (r, sz) = (lib!(dsu.par(v)), lib!(dsu.size(v)));
                        if r != v || sz != 1 {
                            cx.violation("par_not_member", Json::obj().set("what", "after reset an element is not its own component").set("v", v).set("par", r).set("size", sz).set("n", n2));
                            return;
                        }
                    }
                    un!(0, n2 - 1);
                    un!(n2 / 2, n2 - 1);
                }
                // the structure now has the size of the last reset: the final sweep below uses n
            }
            "absorb_after_deep_lookup" => {
                // blocks built as binomial trees through their roots only (no compression: depth log2 of the block), the
                // deepest element of a block looked up through the public API, then the block absorbed by a strictly larger
                // one (in both argument orders over the blocks), then the same element looked up again: its
                // representative must be the one every other member reports
                let mut base = 0usize;
                let mut round = 0usize;
                while base + 96 <= n && round < 4000 {
                    let k = 16 << (round % 2); // small block of 16 or 32 at base, large block of 2k at base + k
                    if base + 3 * k > n {
                        break;
                    }
                    for (lo, size) in [(base, k), (base + k, 2 * k)] {
                        let mut width = 1;
                        while width < size {
                            let mut b = lo;
                            while b + width < lo + size {
                                let p = dsu.verif_parents();
                                let (mut x, mut y) = (b, b + width);
                                while p[x] != x {
                                    x = p[x];
                                }
                                while p[y] != y {
                                    y = p[y];
                                }
                                un!(x, y);
                                b += 2 * width;
                            }
                            width *= 2;
                        }
                    }
                    // deepest element of the small block
                    let p = dsu.verif_parents();
                    let mut best = (0usize, base);
                    for s in base..base + k {
                        let (mut x, mut d) = (s, 0usize);
                        while p[x] != x {
                            x = p[x];
                            d += 1;
                        }
                        if d > best.0 {
                            best = (d, s);
                        }
                    }
                    let deep = best.1;
                    let r0 = lib!(dsu.par(deep));
                    if m.find(r0) != m.find(deep) {
                        cx.violation("par_not_member", Json::obj().set("v", deep).set("got", r0));
                        return;
                    }
                    // absorb: the larger block as first or as second argument, through roots or through inner elements
                    let (sa, sb) = match round % 4 {
                        0 => (base + k, r0),
                        1 => (r0, base + k),
                        2 => (base + k + 1, deep),
                        _ => (base + 1, base + 2 * k),
                    };
                    un!(sa, sb);
                    let r1 = lib!(dsu.par(deep));
                    let other = lib!(dsu.par(base + k + 3));
                    let mine = lib!(dsu.par(base + 1));
                    cx.rep.count("par_checked", 4);
                    if r1 != other || r1 != mine || m.find(r1) != m.find(deep) || !lib!(dsu.check(deep, base + 2 * k)) {
                        cx.violation(
                            "par_unstable",
                            Json::obj()
                                .set("what", "after its component was absorbed by a larger one, an element that had been looked up before reports another representative than the other members")
                                .set("v", deep)
                                .set("par_v", r1)
                                .set("par_of_member_of_larger_block", other)
                                .set("par_of_member_of_own_block", mine)
                                .set("depth_before_first_lookup", best.0),
                        );
                        return;
                    }
                    base += 3 * k;
                    round += 1;
                }
            }
            _ => panic!("unknown order {}", order),
        }
        if !big_checkpoint(&dsu, &m, &mut cx, "final (before lookups)") {
            return;
        }
        // size / check on the deepest elements of the forest (and a sample of the others) before any of them has been
        // looked up: these calls see the forest exactly as the union order left it
        {
            let p = dsu.verif_parents();
            let mut depth = vec![u32::MAX; n];
            for s0 in 0..n {
                let mut x = s0;
                let mut path: Vec<usize> = Vec::new();
                while depth[x] == u32::MAX && p[x] != x {
                    path.push(x);
                    x = p[x];
                }
                let mut d = if p[x] == x && depth[x] == u32::MAX { 0 } else { depth[x] };
                depth[x] = d;
                for &y in path.iter().rev() {
                    d += 1;
                    depth[y] = d;
                }
            }
            let mut by_depth: Vec<usize> = (0..n).collect();
            by_depth.sort_unstable_by_key(|&v| std::cmp::Reverse(depth[v]));
            let mut probe: Vec<usize> = by_depth.iter().take(300).cloned().collect();
            for _ in 0..300 {
                probe.push(rng.usize_below(n));
            }
            probe.extend([0, n - 1, n / 2]);
            for (i, &v) in probe.iter().enumerate() {
                let root = m.find(v);
                let want_size = m.cnt[root] as usize;
                let w = probe[(i * 7 + 3) % probe.len()];
                let want_same = m.find(w) == root;
                let (got_size, got_same) = if i % 2 == 0 {
                    let a = lib!(dsu.size(v));
                    (a, lib!(dsu.check(v, w)))
                } else {
                    let b = lib!(dsu.check(v, w));
                    (lib!(dsu.size(v)), b)
                };
                cx.rep.inc("size_checked");
                cx.rep.inc("check_checked");
                if got_size != want_size {
                    cx.violation("size", Json::obj().set("what", "size(v) of an element that has never been looked up").set("v", v).set("depth_in_forest", depth[v]).set("got", got_size).set("want", want_size).set("n", n));
                    return;
                }
                if got_same != want_same {
                    cx.violation("check", Json::obj().set("what", "check(v, w) of elements that have never been looked up").set("v", v).set("w", w).set("depth_of_v", depth[v]).set("got", got_same).set("want", want_same).set("n", n));
                    return;
                }
            }
        }
        // lookups on every element (path compression), then the invariant again; representative identical per component
        let mut rep_of = vec![usize::MAX; n];
        for v in 0..n {
            let r = lib!(dsu.par(v));
            let root_m = m.find(v);
            if m.find(r) != root_m {
                cx.violation("par_not_member", Json::obj().set("v", v).set("got", r));
                return;
            }
            if rep_of[root_m] == usize::MAX {
                rep_of[root_m] = r;
            } else if rep_of[root_m] != r {
                cx.violation("par_unstable", Json::obj().set("v", v).set("got", r).set("recorded", rep_of[root_m]));
                return;
            }
        }
        cx.rep.count("par_checked", n as u64);
        big_checkpoint(&dsu, &m, &mut cx, "final (after lookups on every element)");
        let comps = (0..n).filter(|&v| m.find(v) == v).count();
        let maxd = cx.rep.maxima.get("max_forest_depth_seen").cloned().unwrap_or(0);
        cx.rep.sample(Json::obj().set("order", order).set("n", n).set("successful_unions", unions).set("components_left", comps).set("max_forest_depth_seen_so_far", maxd));
    });
    if let Err(p) = r {
        if p.in_lib {
            cx.violation("panic", Json::obj().set("panic", p.msg.as_str()).set("at", format!("{}:{}", p.file, p.line)));
        } else {
            cx.rep.inconclusive(format!("harness panic at {}:{}: {}", p.file, p.line, p.msg));
        }
    }
}

// ------------------------------------------------------------------------------------------------
// "sleeper" histories: a vertex is looked up, then exactly W structure-changing operations happen that never mention
// it (nor any vertex with the same residue modulo 8, so that no small direct-mapped table keyed by low index bits is
// refreshed on its behalf), one of which moves its component under another root; then it is looked up again. W sits at
// and around 2^8 and 2^16, where a narrow operation counter wraps. Observation through the public API only.

const SLEEPER_W: &[usize] = &[255, 256, 257, 65_535, 65_536, 65_537, 131_072];

#[allow(unused_assignments)]
fn run_sleeper(w: usize, variant: &str, rep: &mut Report) {
    let replay = vec!["--mode".into(), "sleeper".into(), "--case".into(), format!("{}:{}", variant, w)];
    let mut cx = Cx { rep, replay, log: vec![format!("sleeper {} W {}", variant, w)], mode: "sleeper" };
    cx.rep.inc("evaluations");
    cx.rep.inc("sleeper_histories");
    cx.rep.see_str("nontrivial", &format!("sleeper:{}:{}", variant, w));
    let r = catch(|| {
        let (x, y) = (3usize, 4usize);
        macro_rules! observe {
            ($dsu:expr, $m:expr, $v:expr, $when:expr) => {{
                let v: usize = $v;
                let got = lib!($dsu.par(v));
                let root_m = $m.find(v);
                cx.rep.inc("par_checked");
                if $m.find(got) != root_m {
                    cx.violation("par_not_member", Json::obj().set("v", v).set("got", got).set("when", $when).set("W", w));
                    return;
                }
                let s = lib!($dsu.size(v));
                if s != $m.cnt[root_m] as usize {
                    cx.violation("size", Json::obj().set("v", v).set("got", s).set("want", $m.cnt[root_m]).set("when", $when).set("W", w));
                    return;
                }
                // every member of a small component reports the same representative and is connected to v
                if ($m.cnt[root_m] as usize) <= 16 {
                    for u in 0..16usize.min($m.up.len()) {
                        if $m.find(u) == root_m {
                            let (pu, c) = (lib!($dsu.par(u)), lib!($dsu.check(u, v)));
                            let pv = lib!($dsu.par(v));
                            if pu != pv || !c {
                                cx.violation("par_unstable", Json::obj().set("what", "two members of one component report different representatives (or check() denies the connection)").set("u", u).set("v", v).set("par_u", pu).set("par_v", pv).set("check", c).set("when", $when).set("W", w));
                                return;
                            }
                        }
                    }
                }
            }};
        }
        match variant {
            "reroot" => {
                let n = (2 * w + 16) * 8 / 7 + 64;
                let mut dsu = lib!(DSU::new(n));
                let mut m = BigModel::new(n);
                #[allow(unused_assignments)]
                let mut events = 0usize;
                macro_rules! un {
                    ($u:expr, $v:expr) => {{
                        let (u, v) = ($u, $v);
                        let want = m.union(u, v);
                        let got = lib!(dsu.un(u, v));
                        cx.rep.inc("un_checked");
                        if got != want {
                            cx.violation("un_result", Json::obj().set("u", u).set("v", v).set("got", got).set("want", want).set("W", w));
                            return;
                        }
                        if want {
                            events += 1;
                        }
                    }};
                }
                un!(x, y);
                observe!(dsu, m, x, "before the gap");
                events = 0;
                un!(5, 6);
                un!(5, 7);
                un!(y, 5); // the component of x (2 members) goes under the root of {5,6,7}
                let mut a = 9usize;
                let next_usable = |a: &mut usize| -> usize {
                    loop {
                        *a += 1;
                        if *a % 8 != x % 8 {
                            return *a;
                        }
                    }
                };
                while events < w {
                    let (u, v) = (next_usable(&mut a), next_usable(&mut a));
                    un!(u, v);
                }
                cx.rep.count("sleeper_gap_events", events as u64);
                observe!(dsu, m, x, "after the gap");
                let again = lib!(dsu.un(x, 6));
                if again {
                    cx.violation("un_result", Json::obj().set("what", "un() of two vertices of one component returned true after the gap").set("u", x).set("v", 6).set("W", w));
                    return;
                }
                big_checkpoint(&dsu, &m, &mut cx, "sleeper final");
            }
            "resets" => {
                // generation events are resets and successful unions on a small structure; the sleeper is re-rooted by the
                // last few events
                let n = 16usize;
                let mut dsu = lib!(DSU::new(n));
                let mut m = BigModel::new(n);
                m.union(x, y);
                lib!(dsu.un(x, y));
                observe!(dsu, m, x, "before the gap");
                let mut events = 0usize;
                // the last 4 events build {5,6,7} and put y under it; everything before alternates reset / union
                while events + 5 < w {
                    lib!(dsu.reset(n));
                    m = BigModel::new(n);
                    events += 1;
                    if events + 5 < w {
                        m.union(5, 6);
                        if !lib!(dsu.un(5, 6)) {
                            cx.violation("un_result", Json::obj().set("u", 5).set("v", 6).set("got", false).set("want", true).set("W", w));
                            return;
                        }
                        events += 1;
                    }
                }
                lib!(dsu.reset(n));
                m = BigModel::new(n);
                events += 1;
                for (u, v) in [(12, y), (5, 6), (5, 7), (y, 5)] {
                    let want = m.union(u, v);
                    let got = lib!(dsu.un(u, v));
                    if got != want {
                        cx.violation("un_result", Json::obj().set("u", u).set("v", v).set("got", got).set("want", want).set("W", w));
                        return;
                    }
                    events += 1;
                }
                cx.rep.count("sleeper_gap_events", events as u64);
                if events != w {
                    panic!("sleeper resets: {} events, wanted {}", events, w);
                }
                observe!(dsu, m, x, "after the gap");
                observe!(dsu, m, y, "after the gap");
                big_checkpoint(&dsu, &m, &mut cx, "sleeper final");
            }
            _ => panic!("unknown sleeper variant {}", variant),
        }
    });
    if let Err(p) = r {
        if p.in_lib {
            cx.violation("panic", Json::obj().set("panic", p.msg.as_str()).set("at", format!("{}:{}", p.file, p.line)).set("W", w));
        } else {
            cx.rep.inconclusive(format!("harness panic at {}:{}: {}", p.file, p.line, p.msg));
        }
    }
}

fn main() {
    let eng = Engine::start("dsumon");
    let a = &eng.args;
    let mode = a.str("mode", "random");
    let thorough = a.thorough();
    let seed = a.seed();
    let mut report = Report::new();
    report.extra("mode", mode.as_str());
    match mode.as_str() {
        "random" => {
            if let Some(c) = a.opt("case") {
                let mut rep = Report::new();
                run_random_case(c.parse().unwrap(), &mut rep, true);
                report.merge(rep);
                eng.finish(report);
            }
            let total = a.u64("cases", if thorough { 6_000_000 } else { 300_000 });
            let q = WorkQueue::new(total);
            let rep = common::run_sharded(a.threads(), |_s, rep| {
                rep.sample_cap = 1;
                while let Some((lo, hi)) = q.take_block(64) {
                    for i in lo..hi {
                        run_random_case(mix(&[seed, 0xC05, i]), rep, false);
                    }
                }
            });
            report.merge(rep);
            report.extra("exhaustive", false);
        }
        "exhaustive" => {
            if let Some(c) = a.opt("case") {
                let (n, idx) = c.split_once(':').unwrap();
                let (n, idx): (usize, u64) = (n.parse().unwrap(), idx.parse().unwrap());
                let ops = xops(n);
                let mut maxlen = xlen(n, thorough);
                if idx >= total_seqs(ops.len(), maxlen) {
                    maxlen = xlen(n, true);
                }
                let mut rep = Report::new();
                run_exhaustive_case(n, idx, &ops, maxlen, &mut rep, true);
                report.merge(rep);
                eng.finish(report);
            }
            let mut scopes = Vec::new();
            for n in 1..=5usize {
                let ops = xops(n);
                let maxlen = xlen(n, thorough);
                let total = total_seqs(ops.len(), maxlen);
                scopes.push(Json::obj().set("n", n).set("op_alphabet", ops.len()).set("max_len", maxlen).set("histories", total));
                let q = WorkQueue::new(total);
                let ops = &ops;
                let rep = common::run_sharded(a.threads(), |_s, rep| {
                    rep.sample_cap = 1;
                    while let Some((lo, hi)) = q.take_block(512) {
                        for i in lo..hi {
                            run_exhaustive_case(n, i, ops, maxlen, rep, false);
                        }
                    }
                });
                report.merge(rep);
            }
            report.extra("exhaustive", true);
            report.extra("scopes", Json::Arr(scopes));
        }
        "adversarial" => {
            if let Some(c) = a.opt("case") {
                let (o, n) = c.rsplit_once(':').unwrap();
                let n: usize = n.parse().unwrap();
                let o = o.to_string();
                let rep = common::run_big_stack(move || {
                    let mut rep = Report::new();
                    rep.sample_cap = 64;
                    run_adversarial(&o, n, mix(&[seed, common::hash_str(&o)]), &mut rep);
                    rep
                });
                report.merge(rep);
                eng.finish(report);
            }
            let nmax = a.u64("n", if thorough { 1_000_000 } else { 1 << 17 }) as usize;
            let sizes: Vec<usize> = vec![2, 3, 5, 8, 17, 64, 100, 1000, 4097, nmax / 8 + 1, nmax];
            let mut tasks: Vec<(String, usize)> = ORDERS.iter().flat_map(|o| sizes.iter().map(move |&n| (o.to_string(), n))).collect();
            // these two are linear and cheap: also at sizes beyond 2^18, 2^19 and 2^20 in every tier
            for o in ["small_components_at_both_ends", "reset_to_large_sizes"] {
                for n in [(1usize << 18) + 5, 600_000, 1_000_000, (1 << 20) + 7, 1_500_000] {
                    tasks.push((o.to_string(), n));
                }
            }
            // (components of 2^16 .. 2^18 elements: whatever is kept per component in 16 bits saturates or wraps there)
            for n in [600_000usize, 1_100_000, 1_500_000] {
                tasks.push(("binomial_meets_slightly_smaller".to_string(), n));
            }
            let q = WorkQueue::new(tasks.len() as u64);
            let tasks = &tasks;
            let rep = common::run_sharded(a.threads(), |_s, rep| {
                rep.sample_cap = 64;
                while let Some(i) = q.take() {
                    // largest first
                    let (o, n) = &tasks[tasks.len() - 1 - i as usize];
                    run_adversarial(o, *n, mix(&[seed, common::hash_str(o), *n as u64]), rep);
                }
            });
            report.merge(rep);
            report.extra("exhaustive", false);
            report.extra("orders", Json::from(ORDERS.iter().map(|s| s.to_string()).collect::<Vec<_>>()));
            report.extra("sizes", Json::from(sizes));
        }
        "sleeper" => {
            if let Some(c) = a.opt("case") {
                let (v, w) = c.rsplit_once(':').unwrap();
                let w: usize = w.parse().unwrap();
                let mut rep = Report::new();
                run_sleeper(w, v, &mut rep);
                report.merge(rep);
                eng.finish(report);
            }
            let tasks: Vec<(&str, usize)> = ["reroot", "resets"].iter().flat_map(|v| SLEEPER_W.iter().map(move |&w| (*v, w))).collect();
            let q = WorkQueue::new(tasks.len() as u64);
            let tasks = &tasks;
            let rep = common::run_sharded(a.threads(), |_s, rep| {
                while let Some(i) = q.take() {
                    let (v, w) = tasks[tasks.len() - 1 - i as usize];
                    run_sleeper(w, v, rep);
                }
            });
            report.merge(rep);
            report.extra("exhaustive", false);
            report.extra("gaps", Json::from(SLEEPER_W.to_vec()));
        }
        m => panic!("unknown mode {}", m),
    }
    eng.finish(report);
}
