//! readmon - runtime monitor for the token/line reader (C08): results depend only on the input bytes,
//! not on how the source delivers them.
//!
//! A `ScriptedRead` source hands the input over according to a delivery schedule ("give k bytes" /
//! "fail with ErrorKind::Interrupted") and logs every call. Each (input, script) is executed under many
//! schedules; every result list must equal the one computed by a positional reference parser from the
//! complete byte string (and hence the result of every other delivery).
//!
//! modes: exhaustive (all chunk compositions of short inputs + Interrupted at every subset of calls),
//!        random (random inputs, random / one-byte / stale-buffer schedules, Interrupted density up to 50 %),
//!        boundary (inputs longer than the internal buffer, tokens / "-" / CR LF placed across buffer and chunk edges)
//! replay: --mode <m> --case <case_seed>[:<schedule index>]

use common::{catch, lib, mix, show_bytes, Engine, Json, Report, Rng, WorkQueue};
use rlib_io::Reader;
use std::cell::RefCell;
use std::io::Read;
use std::rc::Rc;

// ------------------------------------------------------------------------------------------------
// scripted source

#[derive(Clone, Copy, Debug, PartialEq)]
enum Ins {
    Give(usize),
    Interrupt,
}

#[derive(Clone, Debug)]
enum Tail {
    /// after the schedule: hand over everything that fits
    All,
    /// after the schedule: k bytes per call
    Fixed(usize),
}

#[derive(Default)]
struct CallLog {
    calls: u64,
    interrupts: u64,
    /// offsets (into the input) at which a delivery ended before the end of input: chunk boundaries
    boundaries: Vec<usize>,
    /// call numbers that were interrupted
    interrupted_calls: Vec<u64>,
    eof_reads: u64,
    max_request: usize,
}

struct ScriptedRead {
    data: Rc<Vec<u8>>,
    pos: usize,
    schedule: Vec<Ins>,
    next: usize,
    tail: Tail,
    log: Rc<RefCell<CallLog>>,
}

impl Read for ScriptedRead {
    fn read(&mut self, buf: &mut [u8]) -> std::io::Result<usize> {
        let mut log = self.log.borrow_mut();
        log.calls += 1;
        if buf.len() > log.max_request {
            log.max_request = buf.len();
        }
        let ins = if self.next < self.schedule.len() {
            let i = self.schedule[self.next];
            self.next += 1;
            i
        } else {
            match self.tail {
                Tail::All => Ins::Give(usize::MAX),
                Tail::Fixed(k) => Ins::Give(k),
            }
        };
        match ins {
            Ins::Interrupt => {
                log.interrupts += 1;
                let c = log.calls;
                log.interrupted_calls.push(c);
                Err(std::io::Error::new(std::io::ErrorKind::Interrupted, "scripted EINTR"))
            }
            Ins::Give(k) => {
                let remaining = self.data.len() - self.pos;
                if remaining == 0 {
                    log.eof_reads += 1;
                    return Ok(0);
                }
                let k = k.max(1).min(remaining).min(buf.len());
                buf[..k].copy_from_slice(&self.data[self.pos..self.pos + k]);
                self.pos += k;
                if self.pos < self.data.len() {
                    log.boundaries.push(self.pos);
                }
                Ok(k)
            }
        }
    }
}

// ------------------------------------------------------------------------------------------------
// scripts and results

#[derive(Clone, Debug, PartialEq)]
enum Res {
    Int(i128),
    UInt(u128),
    Str(String),
    Char(char),
    Line(Option<String>),
    Lines(Vec<String>),
    Eof(bool),
    List(Vec<Res>),
}

#[derive(Clone, Copy, Debug, PartialEq)]
enum Ty {
    I8,
    I16,
    I32,
    I64,
    I128,
    Isize,
    U8,
    U16,
    U32,
    U64,
    U128,
    Usize,
    Str,
    Char,
}

const INT_TYS: [Ty; 12] = [Ty::I8, Ty::I16, Ty::I32, Ty::I64, Ty::I128, Ty::Isize, Ty::U8, Ty::U16, Ty::U32, Ty::U64, Ty::U128, Ty::Usize];

fn ty_range(t: Ty) -> (i128, u128) {
    // (min as i128, max as u128)
    match t {
        Ty::I8 => (i8::MIN as i128, i8::MAX as u128),
        Ty::I16 => (i16::MIN as i128, i16::MAX as u128),
        Ty::I32 => (i32::MIN as i128, i32::MAX as u128),
        Ty::I64 => (i64::MIN as i128, i64::MAX as u128),
        Ty::I128 => (i128::MIN, i128::MAX as u128),
        Ty::Isize => (isize::MIN as i128, isize::MAX as u128),
        Ty::U8 => (0, u8::MAX as u128),
        Ty::U16 => (0, u16::MAX as u128),
        Ty::U32 => (0, u32::MAX as u128),
        Ty::U64 => (0, u64::MAX as u128),
        Ty::U128 => (0, u128::MAX),
        Ty::Usize => (0, usize::MAX as u128),
        _ => unreachable!(),
    }
}

fn is_signed(t: Ty) -> bool {
    matches!(t, Ty::I8 | Ty::I16 | Ty::I32 | Ty::I64 | Ty::I128 | Ty::Isize)
}

#[derive(Clone, Debug)]
enum Item {
    One(Ty),
    /// fixed tuple types, index into TUPLES
    Tuple(usize),
    /// read_vec::<T>(n)
    VecOf(Ty, usize),
    Line,
    Lines,
    IsEof,
}

/// element types of the fixed tuple types the engine instantiates
const TUPLES: [&[Ty]; 8] = [
    &[Ty::I32, Ty::U64],
    &[Ty::Str, Ty::I8, Ty::U16],
    &[Ty::I64, Ty::I64, Ty::I64, Ty::I64],
    &[Ty::U8, Ty::I16, Ty::U32, Ty::I64, Ty::U128],
    &[Ty::I128, Ty::Str, Ty::Char, Ty::Usize, Ty::Isize, Ty::U16],
    &[Ty::U32, Ty::U32, Ty::Char, Ty::U32, Ty::Str, Ty::U32, Ty::I8],
    &[Ty::I8, Ty::U8, Ty::I16, Ty::U16, Ty::I32, Ty::U32, Ty::I64, Ty::U64],
    &[Ty::Char, Ty::Char],
];

fn read_one(r: &mut Reader, t: Ty) -> Res {
    match t {
        Ty::I8 => Res::Int(lib!(r.read::<i8>()) as i128),
        Ty::I16 => Res::Int(lib!(r.read::<i16>()) as i128),
        Ty::I32 => Res::Int(lib!(r.read::<i32>()) as i128),
        Ty::I64 => Res::Int(lib!(r.read::<i64>()) as i128),
        Ty::I128 => Res::Int(lib!(r.read::<i128>())),
        Ty::Isize => Res::Int(lib!(r.read::<isize>()) as i128),
        Ty::U8 => Res::UInt(lib!(r.read::<u8>()) as u128),
        Ty::U16 => Res::UInt(lib!(r.read::<u16>()) as u128),
        Ty::U32 => Res::UInt(lib!(r.read::<u32>()) as u128),
        Ty::U64 => Res::UInt(lib!(r.read::<u64>()) as u128),
        Ty::U128 => Res::UInt(lib!(r.read::<u128>())),
        Ty::Usize => Res::UInt(lib!(r.read::<usize>()) as u128),
        Ty::Str => Res::Str(lib!(r.read::<String>())),
        Ty::Char => Res::Char(lib!(r.read::<char>())),
    }
}

fn read_vec_of(r: &mut Reader, t: Ty, n: usize) -> Res {
    macro_rules! rv {
        ($t:ty, $w:expr) => {
            Res::List(lib!(r.read_vec::<$t>(n)).into_iter().map($w).collect())
        };
    }
    match t {
        Ty::I8 => rv!(i8, |x| Res::Int(x as i128)),
        Ty::I16 => rv!(i16, |x| Res::Int(x as i128)),
        Ty::I32 => rv!(i32, |x| Res::Int(x as i128)),
        Ty::I64 => rv!(i64, |x| Res::Int(x as i128)),
        Ty::I128 => rv!(i128, Res::Int),
        Ty::Isize => rv!(isize, |x| Res::Int(x as i128)),
        Ty::U8 => rv!(u8, |x| Res::UInt(x as u128)),
        Ty::U16 => rv!(u16, |x| Res::UInt(x as u128)),
        Ty::U32 => rv!(u32, |x| Res::UInt(x as u128)),
        Ty::U64 => rv!(u64, |x| Res::UInt(x as u128)),
        Ty::U128 => rv!(u128, Res::UInt),
        Ty::Usize => rv!(usize, |x| Res::UInt(x as u128)),
        Ty::Str => rv!(String, Res::Str),
        Ty::Char => rv!(char, Res::Char),
    }
}

fn read_tuple(r: &mut Reader, k: usize) -> Res {
    // the real tuple impls of the library (arity 2..=8)
    match k {
        0 => {
            let (a, b) = lib!(r.read::<(i32, u64)>());
            Res::List(vec![Res::Int(a as i128), Res::UInt(b as u128)])
        }
        1 => {
            let (a, b, c) = lib!(r.read::<(String, i8, u16)>());
            Res::List(vec![Res::Str(a), Res::Int(b as i128), Res::UInt(c as u128)])
        }
        2 => {
            let (a, b, c, d) = lib!(r.read::<(i64, i64, i64, i64)>());
            Res::List(vec![Res::Int(a as i128), Res::Int(b as i128), Res::Int(c as i128), Res::Int(d as i128)])
        }
        3 => {
            let (a, b, c, d, e) = lib!(r.read::<(u8, i16, u32, i64, u128)>());
            Res::List(vec![Res::UInt(a as u128), Res::Int(b as i128), Res::UInt(c as u128), Res::Int(d as i128), Res::UInt(e)])
        }
        4 => {
            let (a, b, c, d, e, f) = lib!(r.read::<(i128, String, char, usize, isize, u16)>());
            Res::List(vec![Res::Int(a), Res::Str(b), Res::Char(c), Res::UInt(d as u128), Res::Int(e as i128), Res::UInt(f as u128)])
        }
        5 => {
            let (a, b, c, d, e, f, g) = lib!(r.read::<(u32, u32, char, u32, String, u32, i8)>());
            Res::List(vec![
                Res::UInt(a as u128),
                Res::UInt(b as u128),
                Res::Char(c),
                Res::UInt(d as u128),
                Res::Str(e),
                Res::UInt(f as u128),
                Res::Int(g as i128),
            ])
        }
        6 => {
            let (a, b, c, d, e, f, g, h) = lib!(r.read::<(i8, u8, i16, u16, i32, u32, i64, u64)>());
            Res::List(vec![
                Res::Int(a as i128),
                Res::UInt(b as u128),
                Res::Int(c as i128),
                Res::UInt(d as u128),
                Res::Int(e as i128),
                Res::UInt(f as u128),
                Res::Int(g as i128),
                Res::UInt(h as u128),
            ])
        }
        _ => {
            let (a, b) = lib!(r.read::<(char, char)>());
            Res::List(vec![Res::Char(a), Res::Char(b)])
        }
    }
}

fn exec_item(r: &mut Reader, it: &Item) -> Res {
    match it {
        Item::One(t) => read_one(r, *t),
        Item::Tuple(k) => read_tuple(r, *k),
        Item::VecOf(t, n) => read_vec_of(r, *t, *n),
        Item::Line => Res::Line(lib!(r.read_line())),
        Item::Lines => Res::Lines(lib!(r.read_lines())),
        Item::IsEof => Res::Eof(lib!(r.is_eof())),
    }
}

// ------------------------------------------------------------------------------------------------
// reference model: a positional parser over the complete byte string (a function of the bytes alone)

struct ModelParser<'a> {
    b: &'a [u8],
    pos: usize,
    /// spans of tokens consumed: (start, end, kind) for coverage statistics
    spans: Vec<(usize, usize, &'static str)>,
}

fn is_ws(c: u8) -> bool {
    // u8::is_ascii_whitespace: space, \t, \n, \x0C, \r
    matches!(c, b' ' | b'\t' | b'\n' | 0x0c | b'\r')
}

impl<'a> ModelParser<'a> {
    fn skip_ws(&mut self) {
        while self.pos < self.b.len() && is_ws(self.b[self.pos]) {
            self.pos += 1;
        }
    }
    fn token(&mut self, kind: &'static str) -> Result<&'a [u8], String> {
        self.skip_ws();
        let s = self.pos;
        while self.pos < self.b.len() && !is_ws(self.b[self.pos]) {
            self.pos += 1;
        }
        if s == self.pos {
            return Err("script reads a token past the end of input (harness bug)".into());
        }
        self.spans.push((s, self.pos, kind));
        Ok(&self.b[s..self.pos])
    }
    fn one(&mut self, t: Ty) -> Result<Res, String> {
        match t {
            Ty::Str => {
                let tok = self.token("string")?;
                Ok(Res::Str(tok.iter().map(|&c| c as char).collect()))
            }
            Ty::Char => {
                self.skip_ws();
                if self.pos >= self.b.len() {
                    return Err("script reads a char past the end of input (harness bug)".into());
                }
                let c = self.b[self.pos];
                self.spans.push((self.pos, self.pos + 1, "char"));
                self.pos += 1;
                Ok(Res::Char(c as char))
            }
            _ => {
                let tok = self.token(if is_signed(t) { "signed" } else { "unsigned" })?;
                let s = std::str::from_utf8(tok).map_err(|e| e.to_string())?;
                let (lo, hi) = ty_range(t);
                if is_signed(t) {
                    let v: i128 = s.parse().map_err(|_| format!("not an integer token: {:?} (harness bug)", s))?;
                    if v < lo || (v > 0 && v as u128 > hi) {
                        return Err(format!("token {} out of range for {:?} (harness bug)", s, t));
                    }
                    Ok(Res::Int(v))
                } else {
                    let v: u128 = s.parse().map_err(|_| format!("not an unsigned token: {:?} (harness bug)", s))?;
                    if v > hi {
                        return Err(format!("token {} out of range for {:?} (harness bug)", s, t));
                    }
                    Ok(Res::UInt(v))
                }
            }
        }
    }
    fn line(&mut self) -> Option<String> {
        if self.pos >= self.b.len() {
            return None;
        }
        let s = self.pos;
        let mut e = s;
        while e < self.b.len() && self.b[e] != b'\n' {
            e += 1;
        }
        let mut text_end = e;
        if e < self.b.len() {
            // terminated by LF: one CR directly before it is stripped
            if e > s && self.b[e - 1] == b'\r' {
                text_end = e - 1;
            }
            self.pos = e + 1;
        } else {
            self.pos = e;
        }
        self.spans.push((s, self.pos, "line"));
        Some(self.b[s..text_end].iter().map(|&c| c as char).collect())
    }
    fn item(&mut self, it: &Item) -> Result<Res, String> {
        Ok(match it {
            Item::One(t) => self.one(*t)?,
            Item::Tuple(k) => {
                let mut v = Vec::new();
                for t in TUPLES[*k] {
                    v.push(self.one(*t)?);
                }
                Res::List(v)
            }
            Item::VecOf(t, n) => {
                let mut v = Vec::new();
                for _ in 0..*n {
                    v.push(self.one(*t)?);
                }
                Res::List(v)
            }
            Item::Line => Res::Line(self.line()),
            Item::Lines => {
                let mut v = Vec::new();
                while let Some(l) = self.line() {
                    v.push(l);
                }
                Res::Lines(v)
            }
            Item::IsEof => {
                self.skip_ws();
                Res::Eof(self.pos >= self.b.len())
            }
        })
    }
}

fn model_run(bytes: &[u8], script: &[Item]) -> Result<(Vec<Res>, Vec<(usize, usize, &'static str)>), String> {
    let mut m = ModelParser { b: bytes, pos: 0, spans: Vec::new() };
    let mut out = Vec::new();
    for it in script {
        out.push(m.item(it)?);
    }
    Ok((out, m.spans))
}

// ------------------------------------------------------------------------------------------------
// input generation: script first, then rendered with random separators

fn gen_int_text(rng: &mut Rng, t: Ty) -> String {
    let (lo, hi) = ty_range(t);
    if is_signed(t) {
        let v: i128 = match rng.below(10) {
            0 => lo,
            1 => lo + 1,
            2 => hi as i128,
            3 => hi as i128 - 1,
            4 => 0,
            5 => -1,
            6 => return "-0".to_string(),
            7 => rng.range_i64(-20, 20) as i128,
            _ => {
                // random magnitude with a random number of digits
                let bits = rng.range_usize(1, 127);
                let raw = ((rng.next_u64() as u128) << 64 | rng.next_u64() as u128) >> (128 - bits);
                let m = (raw % (hi + 1)) as i128;
                if rng.chance(1, 2) {
                    -m
                } else {
                    m
                }
            }
        };
        v.to_string()
    } else {
        let v: u128 = match rng.below(8) {
            0 => hi,
            1 => hi - 1,
            2 => 0,
            3 => 1,
            4 => rng.below(100) as u128,
            5 => return format!("00{}", rng.below(100)), // leading zeros are digits too
            _ => {
                let bits = rng.range_usize(1, 128);
                let raw = ((rng.next_u64() as u128) << 64 | rng.next_u64() as u128) >> (128 - bits);
                if hi == u128::MAX {
                    raw
                } else {
                    raw % (hi + 1)
                }
            }
        };
        v.to_string()
    }
}

fn gen_str_text(rng: &mut Rng, maxlen: usize) -> String {
    let n = match rng.below(6) {
        0 => 1,
        1 => 2,
        _ => rng.range_usize(1, maxlen.max(1)),
    };
    // (one token in six consists of the two extreme non-blank bytes only: '!' is the byte next to the blank)
    let edge = rng.chance(1, 6);
    (0..n)
        .map(|_| match rng.below(8) {
            _ if edge => *rng.pick(&['!', '!', '!', '~']),
            0 => '-',
            1 => (b'0' + rng.below(10) as u8) as char,
            2 => '!',
            _ => (0x21 + rng.below(0x7e - 0x21 + 1) as u8) as char,
        })
        .collect()
}

fn gen_sep(rng: &mut Rng, allow_newlines: bool) -> Vec<u8> {
    let n = match rng.below(24) {
        0..=13 => 1,
        14..=18 => 2,
        // a run of whitespace longer than a machine word (a scanner that skips blanks several bytes at a time is in its
        // bulk step here and has to stop exactly in front of the next token, whatever its first byte)
        19 => rng.range_usize(6, 24),
        _ => rng.range_usize(1, 5),
    };
    let mut v = Vec::new();
    for _ in 0..n {
        match rng.below(if allow_newlines { 9 } else { 3 }) {
            0 | 1 => v.push(b' '),
            2 => v.push(b'\t'),
            3 | 4 => v.push(b'\n'),
            5 => v.extend_from_slice(b"\r\n"),
            6 => v.push(b'\r'),
            7 => v.push(0x0c),
            _ => v.push(b'\n'),
        }
    }
    v
}

fn gen_line_text(rng: &mut Rng) -> Vec<u8> {
    let n = match rng.below(5) {
        0 => 0,
        1 => 1,
        _ => rng.range_usize(0, 12),
    };
    (0..n)
        .map(|_| match rng.below(10) {
            0 => b' ',
            1 => b'\t',
            2 => b'\r', // CR inside a line (not before LF) is kept
            _ => 0x21 + rng.below(0x7e - 0x21 + 1) as u8,
        })
        .collect()
}

/// does the script contain a line read that follows an end-of-input test with no token read in between?
fn has_eof_then_line(script: &[Item]) -> bool {
    let mut armed = false;
    for it in script {
        match it {
            Item::IsEof => armed = true,
            Item::Line | Item::Lines => {
                if armed {
                    return true;
                }
            }
            Item::VecOf(_, 0) => {}
            _ => armed = false,
        }
    }
    false
}

/// Makes the next line read start at the beginning of a fresh line: whatever is left of the current line (trailing
/// separators after the last token, possibly containing newlines) is consumed by as many `Line` items as needed.
fn flush_current_line(script: &mut Vec<Item>, bytes: &mut Vec<u8>) {
    let pos = {
        let mut m = ModelParser { b: bytes, pos: 0, spans: Vec::new() };
        for it in script.iter() {
            if m.item(it).is_err() {
                return; // reported later by `prepare`
            }
        }
        m.pos
    };
    if pos >= bytes.len() {
        return;
    }
    if *bytes.last().unwrap() != b'\n' {
        bytes.push(b'\n');
    }
    let k = bytes[pos..].iter().filter(|&&c| c == b'\n').count();
    for _ in 0..k {
        script.push(Item::Line);
    }
}

/// Generates (script, bytes). `budget` bounds the input length roughly (None = free).
fn gen_input(rng: &mut Rng, max_items: usize, max_len: usize, eof_then_line: bool) -> (Vec<Item>, Vec<u8>) {
    let mut script: Vec<Item> = Vec::new();
    let mut bytes: Vec<u8> = Vec::new();
    let nitems = rng.range_usize(1, max_items);
    // leading whitespace sometimes
    if rng.chance(1, 4) {
        bytes.extend(gen_sep(rng, true));
    }
    let mut token_open = false; // last thing rendered was a token without a separator after it
    let mut last_char = false;
    let mut after_eof_test = false;
    for _ in 0..nitems {
        if bytes.len() >= max_len {
            break;
        }
        let line_ok = !after_eof_test || eof_then_line;
        let choice = rng.weighted(&[30, 10, 8, 8, 6, if line_ok { 12 } else { 0 }, if line_ok { 4 } else { 0 }]);
        let len_before = bytes.len();
        // token_open: the last byte rendered belongs to a multi-byte token (a separator is required before the next
        // token); last_char: the last byte rendered is a `char` item, which consumes exactly one byte, so the next
        // token may follow immediately
        let emit_tokens = |tys: &[Ty], rng: &mut Rng, bytes: &mut Vec<u8>, token_open: &mut bool, last_char: &mut bool| {
            for &t in tys {
                if *token_open || (*last_char && rng.chance(1, 2)) {
                    bytes.extend(gen_sep(rng, true));
                }
                match t {
                    Ty::Str => {
                        // one string token in twelve is long (a bulk step for long tokens has its own separator search):
                        // 60..70, 120..135, 250..260 or up to 1100 characters
                        let maxlen = if rng.chance(1, 12) { *rng.pick(&[70usize, 135, 260, 1100]) } else { 10 };
                        let mut t = gen_str_text(rng, maxlen);
                        if maxlen > 10 {
                            let min = [60usize, 120, 250, 300][[70usize, 135, 260, 1100].iter().position(|&m| m == maxlen).unwrap()];
                            while t.len() < min {
                                t.push_str(&gen_str_text(rng, 40));
                            }
                        }
                        bytes.extend(t.bytes())
                    }
                    Ty::Char => bytes.push(0x21 + rng.below(0x7e - 0x21 + 1) as u8),
                    _ => bytes.extend(gen_int_text(rng, t).bytes()),
                }
                *token_open = t != Ty::Char;
                *last_char = t == Ty::Char;
                if *token_open && rng.chance(3, 4) {
                    bytes.extend(gen_sep(rng, true));
                    *token_open = false;
                }
            }
        };
        match choice {
            0 => {
                let t = if rng.chance(4, 5) { INT_TYS[rng.usize_below(12)] } else if rng.chance(1, 2) { Ty::Str } else { Ty::Char };
                // a token glued after a char without separator would merge with it only if the previous was a token:
                // chars consume exactly one byte, so gluing is fine after a char only
                emit_tokens(&[t], rng, &mut bytes, &mut token_open, &mut last_char);
                script.push(Item::One(t));
            }
            1 => {
                let k = rng.usize_below(TUPLES.len());
                emit_tokens(TUPLES[k], rng, &mut bytes, &mut token_open, &mut last_char);
                script.push(Item::Tuple(k));
            }
            2 => {
                let t = INT_TYS[rng.usize_below(12)];
                let n = rng.range_usize(0, 6);
                let tys: Vec<Ty> = vec![t; n];
                emit_tokens(&tys, rng, &mut bytes, &mut token_open, &mut last_char);
                script.push(Item::VecOf(t, n));
            }
            3 => {
                let t = if rng.chance(1, 2) { Ty::Str } else { Ty::Char };
                let n = rng.range_usize(1, 4);
                let tys: Vec<Ty> = vec![t; n];
                emit_tokens(&tys, rng, &mut bytes, &mut token_open, &mut last_char);
                script.push(Item::VecOf(t, n));
            }
            4 => {
                script.push(Item::IsEof);
                after_eof_test = true;
                continue;
            }
            5 => {
                // line reads: first consume the rest of the current line
                if token_open {
                    bytes.push(*rng.pick(&[b' ', b'\n', b'\t']));
                }
                flush_current_line(&mut script, &mut bytes);
                last_char = false;
                if rng.chance(1, 40) {
                    // a long run of lines with one kind of line end, then the other kind (a reader that adapts to the
                    // input after N lines of one style must still get the other style right)
                    let run = *rng.pick(&[63usize, 64, 65, 100, 255, 256, 257]);
                    let first_crlf = rng.chance(1, 3);
                    for k in 0..run + 3 {
                        let short: Vec<u8> = (0..rng.usize_below(4)).map(|_| b'a' + rng.below(26) as u8).collect();
                        bytes.extend(short);
                        if (k < run) == first_crlf {
                            bytes.extend_from_slice(b"\r\n");
                        } else {
                            bytes.push(b'\n');
                        }
                        script.push(Item::Line);
                    }
                } else {
                    let n = rng.range_usize(1, 3);
                    for _ in 0..n {
                        let l = gen_line_text(rng);
                        bytes.extend(l);
                        match rng.below(4) {
                            0 => bytes.extend_from_slice(b"\r\n"),
                            _ => bytes.push(b'\n'),
                        }
                        script.push(Item::Line);
                    }
                }
                token_open = false;
            }
            _ => {
                // read everything that is left as lines: must be the last item
                if token_open {
                    bytes.push(*rng.pick(&[b' ', b'\n', b'\t']));
                }
                if rng.chance(1, 2) {
                    flush_current_line(&mut script, &mut bytes);
                }
                let n = rng.range_usize(0, 4);
                for i in 0..n {
                    bytes.extend(gen_line_text(rng));
                    if i + 1 < n || rng.chance(2, 3) {
                        if rng.chance(1, 3) {
                            bytes.extend_from_slice(b"\r\n");
                        } else {
                            bytes.push(b'\n');
                        }
                    }
                }
                if rng.chance(1, 5) {
                    bytes.push(b'\r'); // input ending in a lone CR
                }
                script.push(Item::Lines);
                script.push(Item::Line); // -> None
                script.push(Item::IsEof);
                return (script, bytes);
            }
        }
        // an end-of-input test skips whitespace; a line read directly after it (with nothing but whitespace rendered in
        // between) would make that skipping observable, which the property does not pin down - keep them apart
        if bytes.len() > len_before {
            after_eof_test = false;
        }
    }
    // tail: nothing, whitespace, an end-of-input test, or lines
    match rng.below(6) {
        0 => {}
        1 => bytes.extend(gen_sep(rng, true)),
        2 => {
            if token_open || bytes.is_empty() || !is_ws(*bytes.last().unwrap()) {
                // keep the unterminated last token: input ends right after it
            }
            script.push(Item::IsEof);
        }
        3 => {
            bytes.extend(gen_sep(rng, true));
            script.push(Item::IsEof);
            script.push(Item::IsEof);
        }
        4 => {
            bytes.push(b'\n');
            bytes.extend(gen_line_text(rng));
            if rng.chance(1, 2) {
                bytes.push(b'\r');
            }
            script.push(Item::Lines);
            script.push(Item::Line);
        }
        _ => {
            if !after_eof_test || eof_then_line {
                script.push(Item::Line);
                script.push(Item::Line);
            }
        }
    }
    (script, bytes)
}

// ------------------------------------------------------------------------------------------------
// running one (input, script) under one schedule

struct Outcome {
    results: Result<Vec<Res>, common::PanicInfo>,
    log: CallLog,
}

fn run_delivery(data: &Rc<Vec<u8>>, script: &[Item], schedule: Vec<Ins>, tail: Tail) -> Outcome {
    let log = Rc::new(RefCell::new(CallLog::default()));
    let src = ScriptedRead { data: data.clone(), pos: 0, schedule, next: 0, tail, log: log.clone() };
    let results = catch(|| {
        let mut reader = lib!(Reader::new(Box::new(src)));
        let mut out = Vec::with_capacity(script.len());
        for it in script {
            out.push(exec_item(&mut reader, it));
        }
        out
    });
    let l = std::mem::take(&mut *log.borrow_mut());
    Outcome { results, log: l }
}

fn sched_string(s: &[Ins], tail: &Tail) -> String {
    let mut out = String::new();
    for (i, x) in s.iter().enumerate() {
        if i >= 60 {
            out.push_str(" ...");
            break;
        }
        if i > 0 {
            out.push(' ');
        }
        match x {
            Ins::Give(k) => out.push_str(&k.to_string()),
            Ins::Interrupt => out.push('E'),
        }
    }
    format!("[{}] then {:?}", out, tail)
}

struct CaseCtx<'a> {
    rep: &'a mut Report,
    mode: &'static str,
    replay: Vec<String>,
    bytes: Rc<Vec<u8>>,
    script: Vec<Item>,
    want: Vec<Res>,
    spans: Vec<(usize, usize, &'static str)>,
    verbose: bool,
    /// the script contains a line read directly after an end-of-input test: whether that test consumes whitespace is
    /// not pinned down by the property, so such cases are judged only by agreement between deliveries
    cross_only: bool,
    cross_ref: Option<(Option<Vec<Res>>, String)>,
}

impl CaseCtx<'_> {
    fn input_json(&self) -> Json {
        let b = &self.bytes;
        let shown = if b.len() <= 300 {
            show_bytes(b)
        } else {
            format!("{} ... ({} bytes) ... {}", show_bytes(&b[..120]), b.len(), show_bytes(&b[b.len() - 120..]))
        };
        Json::obj().set("input", shown).set("input_len", b.len()).set("script", format!("{:?}", self.script))
    }

    /// classify the witness so that known findings can be keyed on the exact defect
    fn judge(&mut self, schedule: &[Ins], tail: &Tail, o: &Outcome, sched_idx: u64) {
        self.rep.inc("deliveries");
        self.rep.count("read_calls", o.log.calls);
        self.rep.count("interrupted_calls", o.log.interrupts);
        if o.log.interrupts > 0 {
            self.rep.inc("deliveries_with_interrupts");
        }
        // coverage: where did chunk boundaries fall?
        for &bd in &o.log.boundaries {
            for &(s, e, kind) in &self.spans {
                if bd > s && bd < e {
                    if kind == "line" {
                        // CR | LF split?
                        if self.bytes[bd - 1] == b'\r' && self.bytes[bd] == b'\n' {
                            self.rep.inc("crlf_splits");
                        }
                        self.rep.see_str("split_points", &format!("line:{}", (bd - s).min(12)));
                    } else {
                        if kind == "signed" && bd == s + 1 && self.bytes[s] == b'-' {
                            self.rep.inc("minus_digit_splits");
                        }
                        self.rep.see_str("split_points", &format!("{}:{}", kind, (bd - s).min(12)));
                    }
                    self.rep.inc("splits_inside_token_or_line");
                }
            }
        }
        for &c in &o.log.interrupted_calls {
            self.rep.see_str("interrupted_call_positions", &format!("{}", c.min(40)));
        }
        self.rep.max("max_read_request", o.log.max_request as i64);
        let mut replay = self.replay.clone();
        if let Some(last) = replay.last_mut() {
            *last = format!("{}:{}", last, sched_idx);
        }
        if self.cross_only {
            self.rep.inc("cross_delivery_comparisons");
            let cur: Option<Vec<Res>> = o.results.as_ref().ok().cloned();
            if let Err(p) = &o.results {
                if !p.in_lib {
                    self.rep.inconclusive(format!("harness panic at {}:{}: {}", p.file, p.line, p.msg));
                    return;
                }
            }
            match &self.cross_ref {
                None => self.cross_ref = Some((cur, sched_string(schedule, tail))),
                Some((refres, refsched)) => {
                    if *refres != cur {
                        let d = self
                            .input_json()
                            .set("what", "two deliveries of the same bytes give different results (a script with a line read right after an end-of-input test; judged by agreement between deliveries only)")
                            .set("delivery_a", refsched.as_str())
                            .set("results_a", format!("{:?}", refres))
                            .set("delivery_b", sched_string(schedule, tail))
                            .set("results_b", format!("{:?}", cur));
                        self.rep.violation("result_depends_on_delivery:eof_test_then_line", d, replay);
                    }
                }
            }
            return;
        }
        match &o.results {
            Ok(got) => {
                if *got != self.want {
                    let k = got.iter().zip(self.want.iter()).position(|(a, b)| a != b).unwrap_or(0);
                    let kind = match &self.script[k.min(self.script.len() - 1)] {
                        Item::Line | Item::Lines => "line",
                        Item::IsEof => "is_eof",
                        _ => "token",
                    };
                    let interrupted = o.log.interrupts > 0;
                    let sig = format!("result_depends_on_delivery:{}{}", kind, if interrupted { ":with_interrupts" } else { "" });
                    let d = self
                        .input_json()
                        .set("what", "the values read under this delivery differ from the values determined by the input bytes")
                        .set("delivery", sched_string(schedule, tail))
                        .set("first_differing_item", k)
                        .set("got", format!("{:?}", got.get(k)))
                        .set("want", format!("{:?}", self.want.get(k)))
                        .set("read_calls", o.log.calls);
                    self.rep.violation(sig, d, replay);
                }
            }
            Err(p) => {
                if p.in_lib {
                    let interrupted = o.log.interrupts > 0;
                    let sig = if interrupted { "panic_on_interrupted_read".to_string() } else { format!("panic:{}", self.mode) };
                    let d = self
                        .input_json()
                        .set("what", if interrupted { "the reader panicked although the source only reported ErrorKind::Interrupted, which callers must retry" } else { "the reader panicked on a valid input" })
                        .set("delivery", sched_string(schedule, tail))
                        .set("panic", p.msg.as_str())
                        .set("at", format!("{}:{}", p.file, p.line));
                    self.rep.violation(sig, d, replay);
                } else {
                    self.rep.inconclusive(format!("harness panic at {}:{}: {}", p.file, p.line, p.msg));
                }
            }
        }
        if self.verbose {
            eprintln!("  delivery {} -> {:?}", sched_string(schedule, tail), o.results.as_ref().map_err(|p| p.msg.clone()));
        }
    }
}

fn compositions_schedule(n: usize, mask: u64) -> Vec<Ins> {
    // bit i of mask set = cut after byte i (i in 0..n-1)
    let mut v = Vec::new();
    let mut cur = 0usize;
    for i in 0..n {
        cur += 1;
        if i + 1 == n || (mask >> i) & 1 == 1 {
            v.push(Ins::Give(cur));
            cur = 0;
        }
    }
    v
}

fn prepare<'a>(rep: &'a mut Report, mode: &'static str, case_seed: u64, bytes: Vec<u8>, script: Vec<Item>, verbose: bool, cross_only: bool) -> Option<CaseCtx<'a>> {
    let replay = vec!["--mode".into(), mode.to_string(), "--case".into(), format!("{}", case_seed)];
    match model_run(&bytes, &script) {
        Ok((want, spans)) => {
            if verbose {
                eprintln!("input  : {}", show_bytes(&bytes[..bytes.len().min(400)]));
                eprintln!("script : {:?}", script);
                eprintln!("model  : {:?}", want);
            }
            Some(CaseCtx { rep, mode, replay, bytes: Rc::new(bytes), script, want, spans, verbose, cross_only, cross_ref: None })
        }
        Err(e) => {
            if verbose {
                eprintln!("input  : {}", show_bytes(&bytes[..bytes.len().min(400)]));
                eprintln!("script : {:?}", script);
            }
            if cross_only {
                // the positional model is not the judge for these cases; a script that is misaligned under the model's
                // reading of the end-of-input test is simply not run
                rep.inc("cross_only_cases_skipped_model_misaligned");
                return None;
            }
            rep.inconclusive(format!("reference model rejected a generated input (case {}): {}", case_seed, e));
            None
        }
    }
}

/// exhaustive deliveries of one short input
fn run_exhaustive_case(case_seed: u64, only: Option<u64>, rep: &mut Report, verbose: bool) {
    let mut rng = Rng::new(case_seed);
    let cross_only = case_seed % 5 == 1;
    let maxlen = 13;
    let (script, mut bytes) = loop {
        let (s, b) = gen_input(&mut rng, 4, 10, cross_only);
        if !b.is_empty() && b.len() <= maxlen {
            break (s, b);
        }
    };
    // a fixed family of instructive short inputs is mixed in
    const FIXED: [&[u8]; 10] = [b"\nabc\r", b"a\r\nb", b"\r\n\r\n", b"-12 7", b"x\r", b"1\r\n2", b"\r", b"ab\rc\n", b"-0\t0", b"q\n\n"];
    let mut script = script;
    if case_seed % 7 == 0 {
        let f = FIXED[(case_seed / 7 % FIXED.len() as u64) as usize];
        bytes = f.to_vec();
        script = if f == b"-12 7" {
            vec![Item::One(Ty::I16), Item::One(Ty::U8), Item::IsEof]
        } else if f == b"-0\t0" {
            vec![Item::One(Ty::I8), Item::One(Ty::U128), Item::Line]
        } else {
            vec![Item::Lines, Item::Line, Item::IsEof]
        };
    }
    rep.inc("evaluations");
    let n = bytes.len();
    let mut cx = match {
        let c = has_eof_then_line(&script);
        prepare(rep, "exhaustive", case_seed, bytes, script, verbose, c)
    } {
        Some(c) => c,
        None => return,
    };
    cx.rep.see("nontrivial", mix(&[common::hash_of(&*cx.bytes), common::hash_str(&format!("{:?}", cx.script))]));
    if cx.rep.wants_sample() {
        let s = cx.input_json().set("model_results", format!("{:?}", cx.want)).set("deliveries", format!("all {} chunk compositions; Interrupted at every subset of call positions for compositions with <= 5 chunks", 1u64 << (n - 1)));
        cx.rep.sample(s);
    }
    let mut idx = 0u64;
    for mask in 0..(1u64 << (n - 1)) {
        let base = compositions_schedule(n, mask);
        if only.is_none() || only == Some(idx) {
            let o = run_delivery(&cx.bytes, &cx.script, base.clone(), Tail::All);
            cx.judge(&base, &Tail::All, &o, idx);
        }
        idx += 1;
        // Interrupted at every subset of call positions (before each chunk and before the end-of-input read)
        if base.len() <= 5 {
            let slots = base.len() + 1;
            for sub in 1..(1u64 << slots) {
                if only.is_none() || only == Some(idx) {
                    let mut s = Vec::new();
                    for (i, ins) in base.iter().enumerate() {
                        if (sub >> i) & 1 == 1 {
                            s.push(Ins::Interrupt);
                            if (sub >> i) & (1 << 0) == 1 && i % 2 == 1 {
                                s.push(Ins::Interrupt); // two in a row at odd positions
                            }
                        }
                        s.push(*ins);
                    }
                    if (sub >> base.len()) & 1 == 1 {
                        s.push(Ins::Interrupt);
                    }
                    let o = run_delivery(&cx.bytes, &cx.script, s.clone(), Tail::All);
                    cx.judge(&s, &Tail::All, &o, idx);
                }
                idx += 1;
            }
        }
    }
    cx.rep.count("schedules_enumerated", idx);
}

fn random_schedule(rng: &mut Rng, n: usize, interrupts: bool) -> (Vec<Ins>, Tail) {
    let style = rng.below(7);
    let density = if interrupts { rng.below(51) } else { 0 };
    let mut s = Vec::new();
    let mut given = 0usize;
    let mut first = true;
    // one long burst of back-to-back interruptions per schedule now and then: lengths at and around powers of two (a retry
    // loop with a cap, or a retry counter in a narrow integer, gives up or wraps exactly there)
    let burst_at = if interrupts && rng.chance(1, 200) { Some(rng.usize_below(n + 1)) } else { None };
    let mut burst_done = false;
    let mut plain = 0usize;
    while given < n && plain < 4000 {
        if let Some(at) = burst_at {
            if !burst_done && given >= at {
                burst_done = true;
                let len = *rng.pick(&[255usize, 256, 257, 1023, 1024, 1025, 4096, 65_535, 65_536, 65_537]);
                s.extend(std::iter::repeat(Ins::Interrupt).take(len));
            }
        }
        plain += 1;
        if density > 0 && rng.below(100) < density {
            s.push(Ins::Interrupt);
            continue;
        }
        let k = match style {
            0 => 1,
            1 => rng.range_usize(1, 3),
            2 => rng.range_usize(1, 16),
            3 => {
                // stale-buffer scenario: one long first fill, then short ones
                if first {
                    (n * 2 / 3).max(1)
                } else {
                    rng.range_usize(1, 4)
                }
            }
            4 => rng.range_usize(1, n.max(2)),
            5 => {
                if rng.chance(1, 2) {
                    1
                } else {
                    rng.range_usize(1, 40)
                }
            }
            _ => n,
        };
        first = false;
        s.push(Ins::Give(k));
        given += k;
    }
    if density > 0 && rng.chance(1, 2) {
        s.push(Ins::Interrupt); // before the end-of-input read
    }
    let tail = if rng.chance(1, 2) { Tail::All } else { Tail::Fixed(rng.range_usize(1, 9)) };
    (s, tail)
}

fn run_random_case(case_seed: u64, only: Option<u64>, rep: &mut Report, verbose: bool) {
    let mut rng = Rng::new(case_seed);
    let cross_only = case_seed % 5 == 0;
    let (script, bytes) = gen_input(&mut rng, 14, 600, cross_only);
    rep.inc("evaluations");
    let n = bytes.len();
    let mut cx = match {
        let c = has_eof_then_line(&script);
        prepare(rep, "random", case_seed, bytes, script, verbose, c)
    } {
        Some(c) => c,
        None => return,
    };
    cx.rep.see("nontrivial", mix(&[common::hash_of(&*cx.bytes), case_seed]));
    if cx.rep.wants_sample() && n < 80 {
        let s = cx.input_json().set("model_results", format!("{:?}", cx.want));
        cx.rep.sample(s);
    }
    // one-shot, one byte per call, and random schedules
    let mut idx = 0u64;
    let mut fixed: Vec<(Vec<Ins>, Tail)> = vec![(vec![], Tail::All), (vec![], Tail::Fixed(1)), (vec![Ins::Interrupt], Tail::All), (vec![Ins::Interrupt, Ins::Interrupt, Ins::Give(1), Ins::Interrupt], Tail::Fixed(2))];
    for _ in 0..12 {
        let with_int = rng.chance(1, 2);
        fixed.push(random_schedule(&mut rng, n.max(1), with_int));
    }
    for (s, t) in fixed {
        if only.is_none() || only == Some(idx) {
            let o = run_delivery(&cx.bytes, &cx.script, s.clone(), t.clone());
            cx.judge(&s, &t, &o, idx);
        }
        idx += 1;
    }
}

/// inputs longer than the internal buffer: padding places interesting tokens across k*BUF, BUF-1, BUF+1 and
/// across the first short read
fn run_boundary_case(case_seed: u64, only: Option<u64>, rep: &mut Report, verbose: bool) {
    let mut rng = Rng::new(case_seed);
    let buf = Reader::verif_buf_size();
    rep.inc("evaluations");
    // layout: [padding token or whitespace run] [payload] [more padding] [payload] ...
    let mut bytes: Vec<u8> = Vec::new();
    let mut script: Vec<Item> = Vec::new();
    let targets = [buf - 1, buf, buf + 1, 2 * buf - 1, 2 * buf, 2 * buf + 1, buf / 2, buf + buf / 3];
    let nseg = rng.range_usize(1, 3);
    let mut tsorted: Vec<usize> = (0..nseg).map(|_| targets[rng.usize_below(targets.len())]).collect();
    tsorted.sort();
    tsorted.dedup();
    for &target in &tsorted {
        // the payload should straddle `target`: start it `off` bytes before
        let payload_kind = rng.below(6);
        let off = rng.range_usize(0, 6);
        let want_start = target.saturating_sub(off);
        if want_start < bytes.len() + 2 {
            continue;
        }
        let pad = want_start - bytes.len();
        if rng.chance(1, 2) {
            // a long string token followed by one separator
            let tok: Vec<u8> = (0..pad - 1).map(|i| b'a' + ((i * 7 + target) % 26) as u8).collect();
            bytes.extend(tok);
            bytes.push(b' ');
            script.push(Item::One(Ty::Str));
        } else {
            // a whitespace run (skipped by the next token read)
            for i in 0..pad {
                bytes.push(if i % 5 == 4 { b'\t' } else { b' ' });
            }
        }
        match payload_kind {
            0 => {
                bytes.extend_from_slice(i128::MIN.to_string().as_bytes());
                bytes.push(b' ');
                script.push(Item::One(Ty::I128));
            }
            1 => {
                bytes.extend_from_slice(b"-9223372036854775808 18446744073709551615 ");
                script.push(Item::One(Ty::I64));
                script.push(Item::One(Ty::U64));
            }
            2 => {
                // a line with CR LF right at the edge
                bytes.extend_from_slice(b"\n");
                let l = gen_line_text(&mut rng);
                bytes.extend(l);
                bytes.extend_from_slice(b"\r\n");
                bytes.extend_from_slice(b"x\r\n");
                script.push(Item::Line);
                script.push(Item::Line);
                script.push(Item::Line);
            }
            3 => {
                bytes.extend_from_slice(b"-7 -1 -128 ");
                script.push(Item::VecOf(Ty::I8, 3));
            }
            4 => {
                bytes.extend_from_slice(b"zq 5 65535 ");
                script.push(Item::Tuple(1));
            }
            _ => {
                bytes.extend_from_slice(b"ab");
                bytes.extend_from_slice(b" ");
                script.push(Item::One(Ty::Char));
                script.push(Item::One(Ty::Char));
            }
        }
    }
    // tail
    bytes.extend_from_slice(b"\nlast line");
    if rng.chance(1, 2) {
        bytes.push(b'\r');
    }
    script.push(Item::Lines);
    script.push(Item::IsEof);
    let n = bytes.len();
    let mut cx = match prepare(rep, "boundary", case_seed, bytes, script, verbose, false) {
        Some(c) => c,
        None => return,
    };
    cx.rep.see("nontrivial", case_seed);
    cx.rep.max("max_input_len", n as i64);
    let mut scheds: Vec<(Vec<Ins>, Tail)> = vec![
        (vec![], Tail::All),                    // full buffers
        (vec![], Tail::Fixed(buf - 1)),         // always one short of a full buffer
        (vec![], Tail::Fixed(buf / 2 + 1)),
        (vec![Ins::Give(buf - 1), Ins::Give(1), Ins::Give(1), Ins::Give(1)], Tail::All),
        (vec![Ins::Give(buf), Ins::Give(1), Ins::Interrupt, Ins::Give(2)], Tail::Fixed(3000)),
        (vec![Ins::Give(1), Ins::Give(buf)], Tail::All),
        (vec![Ins::Interrupt, Ins::Give(buf - 2), Ins::Interrupt, Ins::Interrupt, Ins::Give(5)], Tail::All),
    ];
    for _ in 0..3 {
        // random big chunks
        let mut s = Vec::new();
        let mut g = 0;
        while g < n {
            let k = match rng.below(4) {
                0 => buf,
                1 => rng.range_usize(buf - 3, buf + 3),
                2 => rng.range_usize(1, 7),
                _ => rng.range_usize(1, 2 * buf),
            };
            if rng.chance(1, 6) {
                s.push(Ins::Interrupt);
            }
            s.push(Ins::Give(k));
            g += k.min(buf);
        }
        scheds.push((s, Tail::All));
    }
    for (idx, (s, t)) in scheds.into_iter().enumerate() {
        if only.is_none() || only == Some(idx as u64) {
            let o = run_delivery(&cx.bytes, &cx.script, s.clone(), t.clone());
            // buffer-boundary straddles: a chunk boundary at a multiple of BUF inside a token
            for &bd in &o.log.boundaries {
                if bd % buf == 0 {
                    for &(s0, e0, _) in &cx.spans {
                        if bd > s0 && bd < e0 {
                            cx.rep.inc("buffer_boundary_straddles");
                        }
                    }
                }
            }
            cx.judge(&s, &t, &o, idx as u64);
        }
    }
}

// ------------------------------------------------------------------------------------------------
// several readers / writers alive at the same time (state shared between objects - a static buffer, a cache keyed too
// coarsely - would be invisible to every single-object case)

/// two or three Readers over different inputs, their items executed in a random interleaving
fn run_interleaved_readers_case(case_seed: u64, _only: Option<u64>, rep: &mut Report, verbose: bool) {
    let mut rng = Rng::new(case_seed);
    rep.inc("evaluations");
    rep.see("nontrivial", case_seed);
    let k = rng.range_usize(2, 3);
    let mut inputs: Vec<(Vec<Item>, Rc<Vec<u8>>, Vec<Res>)> = Vec::new();
    for _ in 0..k {
        let (script, bytes) = gen_input(&mut rng, 10, 300, false);
        match model_run(&bytes, &script) {
            Ok((want, _)) => inputs.push((script, Rc::new(bytes), want)),
            Err(e) => {
                rep.inconclusive(format!("reference model rejected a generated input (case {}): {}", case_seed, e));
                return;
            }
        }
    }
    let replay = vec!["--mode".to_string(), "interleaved-readers".to_string(), "--case".to_string(), format!("{}", case_seed)];
    let scheds: Vec<(Vec<Ins>, Tail)> = inputs.iter().map(|i| random_schedule(&mut rng, i.1.len().max(1), true)).collect();
    // interleaving order: reader index per step
    let mut order: Vec<usize> = Vec::new();
    for (j, i) in inputs.iter().enumerate() {
        order.extend(std::iter::repeat(j).take(i.0.len()));
    }
    rng.shuffle(&mut order);
    let r = catch(|| {
        let mut readers: Vec<Reader> = Vec::new();
        for (j, i) in inputs.iter().enumerate() {
            let log = Rc::new(RefCell::new(CallLog::default()));
            let src = ScriptedRead { data: i.1.clone(), pos: 0, schedule: scheds[j].0.clone(), next: 0, tail: scheds[j].1.clone(), log };
            readers.push(lib!(Reader::new(Box::new(src))));
        }
        let mut next = vec![0usize; inputs.len()];
        let mut got: Vec<Vec<Res>> = vec![Vec::new(); inputs.len()];
        for &j in &order {
            let it = &inputs[j].0[next[j]];
            next[j] += 1;
            got[j].push(exec_item(&mut readers[j], it));
        }
        got
    });
    rep.inc("interleaved_reader_groups");
    match r {
        Ok(got) => {
            for (j, g) in got.iter().enumerate() {
                rep.inc("deliveries");
                if *g != inputs[j].2 {
                    let pos = g.iter().zip(inputs[j].2.iter()).position(|(a, b)| a != b).unwrap_or(0);
                    rep.violation(
                        "result_depends_on_other_readers",
                        Json::obj()
                            .set("what", "a reader's results differ from the values determined by its input bytes while other readers are alive and used in between")
                            .set("reader", j)
                            .set("readers_alive", inputs.len())
                            .set("input", show_bytes(&inputs[j].1[..inputs[j].1.len().min(300)]))
                            .set("script", format!("{:?}", inputs[j].0))
                            .set("first_differing_item", pos)
                            .set("got", format!("{:?}", g.get(pos)))
                            .set("want", format!("{:?}", inputs[j].2.get(pos))),
                        replay.clone(),
                    );
                }
            }
        }
        Err(p) => {
            if p.in_lib {
                rep.violation("panic:interleaved_readers", Json::obj().set("panic", p.msg.as_str()).set("at", format!("{}:{}", p.file, p.line)), replay);
            } else {
                rep.inconclusive(format!("harness panic at {}:{}: {}", p.file, p.line, p.msg));
            }
        }
    }
    if verbose {
        eprintln!("interleaving order {:?}", order);
    }
}

/// sink that accepts at most `cap` bytes per call and keeps them in a shared vector
struct SmallSink {
    out: Rc<RefCell<Vec<u8>>>,
    cap: usize,
    calls: u64,
}
impl std::io::Write for SmallSink {
    fn write(&mut self, buf: &[u8]) -> std::io::Result<usize> {
        self.calls += 1;
        if self.calls % 5 == 3 {
            return Err(std::io::Error::new(std::io::ErrorKind::Interrupted, "scripted EINTR"));
        }
        let k = buf.len().min(self.cap).max(if buf.is_empty() { 0 } else { 1 });
        self.out.borrow_mut().extend_from_slice(&buf[..k]);
        Ok(k)
    }
    /// native vectored write: the slices are one run of bytes, the cap may end inside any of them
    fn write_vectored(&mut self, bufs: &[std::io::IoSlice<'_>]) -> std::io::Result<usize> {
        let joined: Vec<u8> = bufs.iter().flat_map(|b| b.iter().cloned()).collect();
        self.write(&joined)
    }
    fn flush(&mut self) -> std::io::Result<()> {
        Ok(())
    }
}

/// two or three Writers alive at once, their writes interleaved; every sink must receive exactly its own stream
fn run_interleaved_writers_case(case_seed: u64, _only: Option<u64>, rep: &mut Report, verbose: bool) {
    use rlib_io::Writer;
    let mut rng = Rng::new(case_seed);
    rep.inc("evaluations");
    rep.see("nontrivial", case_seed);
    let k = rng.range_usize(2, 3);
    let buf = Writer::verif_buf_size();
    let replay = vec!["--mode".to_string(), "interleaved-writers".to_string(), "--case".to_string(), format!("{}", case_seed)];
    let sinks: Vec<Rc<RefCell<Vec<u8>>>> = (0..k).map(|_| Rc::new(RefCell::new(Vec::new()))).collect();
    let caps: Vec<usize> = (0..k).map(|_| *rng.pick(&[1usize, 7, 4096, 1 << 20])).collect();
    let nsteps = rng.range_usize(4, 60);
    let big = rng.chance(1, 3); // sometimes large strings so that the internal buffers fill up and flush mid-way
    let r = catch(|| {
        let mut expected: Vec<Vec<u8>> = vec![Vec::new(); k];
        let mut log: Vec<String> = Vec::new();
        let mut unwound = false;
        {
            let mut writers: Vec<Writer> = (0..k)
                .map(|j| lib!(Writer::new(Box::new(SmallSink { out: sinks[j].clone(), cap: caps[j], calls: 0 }))))
                .collect();
            for step in 0..nsteps {
                let j = rng.usize_below(k);
                match rng.below(6) {
                    0 => {
                        let v = rng.next_u64() as i64 >> rng.below(60);
                        lib!(writers[j].write(&v));
                        expected[j].extend(format!("{}", v).bytes());
                        log.push(format!("w{}: i64 {}", j, v));
                    }
                    1 => {
                        let v = ((rng.next_u64() as u128) << 64 | rng.next_u64() as u128) >> rng.below(120);
                        lib!(writers[j].write(&v));
                        expected[j].extend(format!("{}", v).bytes());
                        log.push(format!("w{}: u128 {}", j, v));
                    }
                    2 => {
                        let len = if big { rng.range_usize(buf / 2, buf + 100) } else { rng.range_usize(0, 40) };
                        let s: String = (0..len).map(|i| (b'a' + ((i + step + j) % 26) as u8) as char).collect();
                        lib!(writers[j].write(&s));
                        expected[j].extend(s.bytes());
                        log.push(format!("w{}: string of {} bytes", j, len));
                    }
                    3 => {
                        lib!(writers[j].write_char(' '));
                        expected[j].push(b' ');
                        log.push(format!("w{}: char", j));
                    }
                    4 => {
                        let v: Vec<u16> = (0..rng.range_usize(0, 5)).map(|_| rng.next_u64() as u16).collect();
                        lib!(writers[j].write(&v));
                        let t: Vec<String> = v.iter().map(|x| x.to_string()).collect();
                        expected[j].extend(t.join(" ").bytes());
                        log.push(format!("w{}: vec {:?}", j, v));
                    }
                    _ => {
                        lib!(writers[j].flush());
                        log.push(format!("w{}: flush", j));
                        if *sinks[j].borrow() != expected[j] {
                            return Err((j, "after flush", log));
                        }
                    }
                }
                // prefix monitor on every writer after every step
                for (x, sink) in sinks.iter().enumerate() {
                    let sk = sink.borrow();
                    if sk.len() > expected[x].len() || sk[..] != expected[x][..sk.len()] {
                        return Err((x, "prefix", log));
                    }
                }
            }
            if rng.chance(1, 3) {
                // dropped by unwinding: a panic (raised here, by the harness, without the panic hook) travels through the
                // frame that owns the writers
                unwound = true;
                log.push("all writers dropped by an unwinding panic".to_string());
                let r = std::panic::catch_unwind(std::panic::AssertUnwindSafe(move || {
                    let _owned = writers;
                    std::panic::resume_unwind(Box::new(0u8));
                }));
                assert!(r.is_err());
            } else {
                // drop in a random order
                while !writers.is_empty() {
                    let j = rng.usize_below(writers.len());
                    drop(writers.remove(j));
                }
            }
        }
        for j in 0..k {
            if *sinks[j].borrow() != expected[j] {
                return Err((j, if unwound { "after drop by unwinding" } else { "after drop" }, log));
            }
        }
        Ok(expected.iter().map(|e| e.len()).sum::<usize>())
    });
    rep.inc("interleaved_writer_groups");
    match r {
        Ok(Ok(bytes)) => rep.count("bytes_expected", bytes as u64),
        Ok(Err((j, when, log))) => {
            let tail: Vec<String> = log.iter().rev().take(40).rev().cloned().collect();
            rep.violation(
                format!("interleaved_writers:{}", when.replace(' ', "_")),
                Json::obj()
                    .set("what", "with several writers alive at once a sink did not receive exactly the renderings written to its own writer")
                    .set("writer", j)
                    .set("writers_alive", k)
                    .set("when", when)
                    .set("debug_assertions", cfg!(debug_assertions))
                    .set("history_tail", Json::from(tail)),
                replay,
            );
        }
        Err(p) => {
            if p.in_lib {
                rep.violation("panic:interleaved_writers", Json::obj().set("panic", p.msg.as_str()).set("at", format!("{}:{}", p.file, p.line)), replay);
            } else {
                rep.inconclusive(format!("harness panic at {}:{}: {}", p.file, p.line, p.msg));
            }
        }
    }
    let _ = verbose;
}

fn main() {
    let eng = Engine::start("readmon");
    let a = &eng.args;
    let mode = a.str("mode", "random");
    let thorough = a.thorough();
    let seed = a.seed();
    let mut report = Report::new();
    report.extra("mode", mode.as_str());
    report.extra("debug_assertions", cfg!(debug_assertions));
    report.extra("reader_buf_size", Reader::verif_buf_size());
    type Runner = fn(u64, Option<u64>, &mut Report, bool);
    let (runner, default_cases, tag): (Runner, u64, u64) = match mode.as_str() {
        "exhaustive" => (run_exhaustive_case, if thorough { 30_000 } else { 1500 }, 1),
        "random" => (run_random_case, if thorough { 6_000_000 } else { 300_000 }, 2),
        "boundary" => (run_boundary_case, if thorough { 30_000 } else { 1500 }, 3),
        "interleaved-readers" => (run_interleaved_readers_case, if thorough { 2_000_000 } else { 100_000 }, 4),
        "interleaved-writers" => (run_interleaved_writers_case, if thorough { 1_000_000 } else { 40_000 }, 5),
        m => panic!("unknown mode {}", m),
    };
    if let Some(c) = a.opt("case") {
        let (cs, only) = match c.split_once(':') {
            Some((x, y)) => (x.parse::<u64>().unwrap(), Some(y.parse::<u64>().unwrap())),
            None => (c.parse::<u64>().unwrap(), None),
        };
        let mut rep = Report::new();
        runner(cs, only, &mut rep, true);
        report.merge(rep);
        eng.finish(report);
    }
    let total = a.u64("cases", default_cases);
    let q = WorkQueue::new(total);
    let rep = common::run_sharded(a.threads(), |_s, rep| {
        rep.sample_cap = 1;
        while let Some(i) = q.take() {
            // case seeds are small numbers for the exhaustive mode so that the fixed family is mixed in
            let cs = if tag == 1 { mix(&[seed, tag]) % 1_000_000 * 1000 + i } else { mix(&[seed, tag, i]) };
            runner(cs, None, rep, false);
        }
    });
    report.merge(rep);
    report.extra("exhaustive", mode == "exhaustive");
    eng.finish(report);
}
