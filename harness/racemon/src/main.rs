//! racemon - workloads for C17 (treaps can be built concurrently on different threads without racing).
//!
//!   --mode sanitizer   small workload meant to run under Miri or ThreadSanitizer: threads that share no
//!                      treap create nodes (TreapNode::new, Treap::from_item, insert_at) and split/merge
//!                      their own treaps; every thread's results are compared with a sequential model.
//!                      The race detector is the observer; the process prints "WORKLOAD-OK ..." at the end.
//!   --mode reference   prints the first N priorities a fresh process draws on its main thread
//!   --mode stress      native behavioural history checker (see below), writes the standard result file
//!
//! Behavioural history checker: every thread records the priority of every node it creates. A sequential
//! calibration phase decides whether the implementation hands out priorities per thread (every thread sees
//! the reference stream R from its start) or from one process-wide source (the concatenation is R). Under
//! contention each thread's stream must then equal R's prefix (per-thread), or all streams together must
//! be exactly the next segment of R with no draw lost or duplicated and each thread's draws in R's order.

use common::{Engine, Json, Report};
use rlib_treap::{Treap, TreapItem, TreapItemSized, TreapNode};
use std::sync::atomic::{AtomicU64, Ordering};
use std::sync::{Arc, Barrier};

#[derive(Default)]
struct KeyItem {
    key: u64,
    size: usize,
}
impl TreapItem for KeyItem {
    fn update(&mut self, l: Option<&Self>, r: Option<&Self>) {
        self.size = 1 + l.map(|x| x.size).unwrap_or(0) + r.map(|x| x.size).unwrap_or(0);
    }
}
impl TreapItemSized for KeyItem {
    fn size(&self) -> usize {
        self.size
    }
}
fn item(key: u64) -> KeyItem {
    KeyItem { key, size: 1 }
}

/// tiny deterministic generator for op choices (never rlib_rand)
fn lcg(x: &mut u64) -> u64 {
    *x = x.wrapping_mul(0x5851_F42D_4C95_7F2D).wrapping_add(0x1405_7B7E_F767_814F);
    (*x >> 33) ^ *x
}

/// One thread's work: `creations` node creations spread over from_item / insert_at / TreapNode::new, with
/// split / merge / remove on its own treaps. Returns (priorities of created nodes in creation order,
/// final key sequence, model key sequence, number of treap operations).
fn thread_work(tid: u64, creations: usize, record: bool) -> (Vec<u32>, Vec<u64>, Vec<u64>, u64) {
    let mut st = 0x9E37_79B9 ^ (tid.wrapping_mul(0xABCD_EF12_3456_789B));
    let mut prios: Vec<u32> = Vec::with_capacity(if record { creations } else { 0 });
    let mut t: Treap<KeyItem> = Treap::new();
    let mut model: Vec<u64> = Vec::new();
    let mut ops = 0u64;
    let mut made = 0usize;
    let mut k = 0u64;
    while made < creations {
        k += 1;
        let key = tid * 1_000_000_000 + k;
        if model.len() >= 384 {
            // keep the treap (and the O(n) Vec model) small: verify and start over
            let got: Vec<u64> = t.collect().iter().map(|i| i.key).collect();
            ops += 1;
            if got != model {
                return (prios, got, model, ops);
            }
            t = Treap::new();
            model.clear();
        }
        match lcg(&mut st) % 8 {
            0 | 1 | 2 => {
                // bare node creation
                let n = TreapNode::new(item(key));
                if record {
                    prios.push(n.priority);
                }
                made += 1;
                // attach it at the end through the public root field
                let mut single: Treap<KeyItem> = Treap::new();
                single.root = Some(Box::new(n));
                t = Treap::merge(std::mem::take(&mut t), single);
                model.push(key);
                ops += 1;
            }
            3 | 4 => {
                let single = Treap::from_item(item(key));
                if record {
                    prios.push(single.root.as_ref().unwrap().priority);
                }
                made += 1;
                let pos = (lcg(&mut st) as usize) % (model.len() + 1);
                let (a, b) = std::mem::take(&mut t).split_at(pos);
                t = Treap::merge(Treap::merge(a, single), b);
                model.insert(pos, key);
                ops += 3;
            }
            5 => {
                // insert_at creates its node internally: the priority is observed by walking to the new element
                let pos = (lcg(&mut st) as usize) % (model.len() + 1);
                t.insert_at(pos, item(key));
                model.insert(pos, key);
                made += 1;
                ops += 1;
                if record {
                    let (a, bc) = std::mem::take(&mut t).split_at(pos);
                    let (b, c) = bc.split_at(1);
                    prios.push(b.root.as_ref().unwrap().priority);
                    t = Treap::merge(Treap::merge(a, b), c);
                    ops += 4;
                }
            }
            6 => {
                if !model.is_empty() {
                    let pos = (lcg(&mut st) as usize) % model.len();
                    let got = t.remove_at(pos);
                    let want = model.remove(pos);
                    ops += 1;
                    if got.key != want {
                        return (prios, vec![got.key], vec![want], ops);
                    }
                }
            }
            _ => {
                if model.len() >= 2 {
                    // rotate
                    let pos = 1 + (lcg(&mut st) as usize) % (model.len() - 1);
                    let (a, b) = std::mem::take(&mut t).split_at(pos);
                    t = Treap::merge(b, a);
                    model.rotate_left(pos);
                    ops += 2;
                }
            }
        }
    }
    let got: Vec<u64> = t.collect().iter().map(|i| i.key).collect();
    (prios, got, model, ops)
}

/// Deterministic scenario with caller-assigned priorities (public field), most of them equal: for a fixed history
/// the resulting shapes are a function of the priorities alone, so every thread must get exactly the shapes the same
/// operations give when they run alone. Returns a fingerprint: the root key after every step and the final pre-order.
fn fixed_priority_scenario(steps: usize) -> Vec<u64> {
    let mut st = 0x1234_5678_9ABC_DEF1u64;
    let mut out: Vec<u64> = Vec::with_capacity(steps + 64);
    let mut t: Treap<KeyItem> = Treap::new();
    let mut len = 0usize;
    for i in 0..steps {
        let mut single = Treap::from_item(item(i as u64));
        single.root.as_mut().unwrap().priority = [5u32, 5, 5, 6, 4][(lcg(&mut st) % 5) as usize];
        let pos = (lcg(&mut st) as usize) % (len + 1);
        let (a, b) = std::mem::take(&mut t).split_at(pos);
        t = Treap::merge(Treap::merge(a, single), b);
        len += 1;
        if len > 48 {
            // keep it small: drop the front part
            let (_a, b) = std::mem::take(&mut t).split_at(len / 2);
            t = b;
            len -= len / 2;
        }
        out.push(t.root().map(|x| x.key).unwrap_or(u64::MAX));
    }
    // pre-order of the final tree (iterative)
    let mut stack: Vec<&TreapNode<KeyItem>> = Vec::new();
    if let Some(r) = &t.root {
        stack.push(r);
    }
    while let Some(n) = stack.pop() {
        out.push(n.item.key);
        if let Some(r) = &n.right {
            stack.push(r);
        }
        if let Some(l) = &n.left {
            stack.push(l);
        }
    }
    out
}

fn mode_sanitizer(threads: usize, creations: usize) -> i32 {
    // staggered starts: a barrier, then each thread burns a different number of iterations first
    let barrier = Arc::new(Barrier::new(threads));
    let clock = Arc::new(AtomicU64::new(0)); // Relaxed stamps only: adds no happens-before edge
    let alone = Arc::new(fixed_priority_scenario(creations.min(400)));
    let mut handles = Vec::new();
    for tid in 0..threads as u64 {
        let barrier = barrier.clone();
        let clock = clock.clone();
        let alone = alone.clone();
        handles.push(std::thread::spawn(move || {
            barrier.wait();
            let stamp0 = clock.fetch_add(1, Ordering::Relaxed);
            let (_p, got, model, ops) = thread_work(tid + 1, creations, false);
            let shapes_ok = fixed_priority_scenario(creations.min(400)) == *alone;
            let stamp1 = clock.fetch_add(1, Ordering::Relaxed);
            (got == model && shapes_ok, ops, stamp0, stamp1, got.len())
        }));
    }
    // the main thread creates nodes too, concurrently with the others
    let (_p, got, model, ops_main) = thread_work(0, creations, false);
    let mut ok = got == model;
    let mut ops = ops_main;
    let mut overlap = 0;
    let mut stamps = Vec::new();
    for h in handles {
        let (good, o, s0, s1, _n) = h.join().expect("worker panicked");
        ok &= good;
        ops += o;
        stamps.push((s0, s1));
    }
    for i in 0..stamps.len() {
        for j in 0..stamps.len() {
            if i != j && stamps[i].0 < stamps[j].1 && stamps[j].0 < stamps[i].1 {
                overlap += 1;
            }
        }
    }
    if ok {
        println!("WORKLOAD-OK threads={} creations_per_thread={} treap_ops={} overlapping_thread_pairs={}", threads + 1, creations, ops, overlap / 2);
        0
    } else {
        println!("WORKLOAD-MISMATCH a thread's treap results differ from the sequential model");
        3
    }
}

fn draw_main(n: usize) -> Vec<u32> {
    (0..n).map(|i| TreapNode::new(item(i as u64)).priority).collect()
}

fn mode_reference(n: usize, path: &str) {
    // raw little-endian u32s
    let v = draw_main(n);
    let mut bytes = Vec::with_capacity(n * 4);
    for p in v {
        bytes.extend_from_slice(&p.to_le_bytes());
    }
    std::fs::write(path, bytes).expect("write reference stream");
}

/// sequential reference execution: the main thread draws n, then `threads` threads one after another (each joined
/// before the next starts) draw n each. Layout of the file: (threads + 1) streams of n little-endian u32s.
fn mode_reference_seq(threads: usize, n: usize, path: &str) {
    let mut bytes = Vec::with_capacity((threads + 1) * n * 4);
    for p in draw_main(n) {
        bytes.extend_from_slice(&p.to_le_bytes());
    }
    for _ in 0..threads {
        let v = std::thread::spawn(move || draw_main(n)).join().expect("reference thread");
        for p in v {
            bytes.extend_from_slice(&p.to_le_bytes());
        }
    }
    std::fs::write(path, bytes).expect("write reference streams");
}

fn load_reference(path: &str) -> Vec<u32> {
    let b = std::fs::read(path).expect("reference file");
    b.chunks_exact(4).map(|c| u32::from_le_bytes([c[0], c[1], c[2], c[3]])).collect()
}

#[derive(Debug, PartialEq, Clone, Copy)]
enum SourceModel {
    /// every thread sees the same stream from its start
    PerThread,
    /// one process-wide source: the draws of all threads partition the sequential stream
    Global,
    /// one source per thread, seeded in the order in which threads first draw: the k-th thread to draw sees stream k
    PerThreadSeeded,
    Unknown,
}

fn mode_stress(eng: &Engine, report: &mut Report) {
    let a = &eng.args;
    let threads = a.u64("workers", 8) as usize;
    let per_thread = a.u64("creations", if a.thorough() { 3_000_000 } else { 600_000 }) as usize;
    let rounds = a.u64("rounds", if a.thorough() { 5 } else { 2 }) as usize;
    let all: Vec<u32> = match a.opt("reference") {
        Some(p) => load_reference(&p),
        None => {
            report.inconclusive("no --reference stream file given");
            return;
        }
    };
    // the reference file holds (ref_threads + 1) sequentially produced streams of ref_len draws each
    let ref_threads = a.u64("ref-threads", 0) as usize;
    let ref_len = if ref_threads + 1 > 0 { all.len() / (ref_threads + 1) } else { all.len() };
    let stream = |j: usize| -> &[u32] { &all[j * ref_len..(j + 1) * ref_len] };
    // for a process-wide source the sequential stream R is the concatenation of the reference streams
    let r: &[u32] = &all;
    let reference_stable = a.str("reference-stable", "yes") == "yes";
    report.extra("reference_streams", ref_threads + 1);
    report.extra("reference_stream_len", ref_len);
    report.extra("reference_stream_reproducible", reference_stable);

    // ---- calibration: main draws, a joined thread draws, main draws
    let k = 64usize;
    let m1 = draw_main(k);
    let th = std::thread::spawn(move || draw_main(k)).join().unwrap();
    let m2 = draw_main(k);
    let s0 = stream(0);
    let model = if !reference_stable || ref_len < 3 * k {
        SourceModel::Unknown
    } else if m1[..] == s0[..k] && th[..] == s0[..k] && m2[..] == s0[k..2 * k] {
        SourceModel::PerThread
    } else if m1[..] == r[..k] && th[..] == r[k..2 * k] && m2[..] == r[2 * k..3 * k] {
        SourceModel::Global
    } else if ref_threads >= 1 && m1[..] == s0[..k] && th[..] == stream(1)[..k] && m2[..] == s0[k..2 * k] {
        SourceModel::PerThreadSeeded
    } else {
        SourceModel::Unknown
    };
    report.extra("priority_source_model", format!("{:?}", model));
    report.sample(Json::obj().set("calibration", "main draws 64, a joined thread draws 64, main draws 64").set("model_decided", format!("{:?}", model)).set("first_reference_priorities", Json::from(s0.iter().take(6).map(|&x| x as u64).collect::<Vec<u64>>())));
    let mut next_generator = 2usize; // PerThreadSeeded: generators 0 (main) and 1 (calibration thread) are taken
    let mut consumed_global = 3 * k; // positions of R already used in the global model

    for round in 0..rounds {
        report.inc("evaluations");
        report.see("nontrivial", round as u64 * 1000 + threads as u64);
        let barrier = Arc::new(Barrier::new(threads));
        let clock = Arc::new(AtomicU64::new(0));
        let mut handles = Vec::new();
        for tid in 0..threads as u64 {
            let barrier = barrier.clone();
            let clock = clock.clone();
            handles.push(std::thread::spawn(move || {
                barrier.wait();
                // staggered starts
                let mut spin = 0u64;
                for i in 0..(tid * 20_000) {
                    spin = spin.wrapping_add(i);
                }
                std::hint::black_box(spin);
                let s0 = clock.fetch_add(1, Ordering::Relaxed);
                let (prios, got, model, ops) = thread_work(tid + 1 + 100 * round as u64, per_thread, true);
                let s1 = clock.fetch_add(1, Ordering::Relaxed);
                (prios, got == model, ops, s0, s1)
            }));
        }
        let mut streams: Vec<Vec<u32>> = Vec::new();
        let mut stamps = Vec::new();
        for (tid, h) in handles.into_iter().enumerate() {
            match h.join() {
                Ok((prios, good, ops, s0, s1)) => {
                    report.count("treap_ops", ops);
                    report.count("node_creations", prios.len() as u64);
                    if !good {
                        report.violation(
                            "treap_results_differ_under_concurrency",
                            Json::obj().set("what", "a thread's treap results differ from the same operations run alone").set("thread", tid).set("round", round),
                            vec!["--mode".into(), "stress".into()],
                        );
                    }
                    streams.push(prios);
                    stamps.push((s0, s1));
                }
                Err(_) => {
                    report.violation("worker_panicked", Json::obj().set("thread", tid).set("round", round), vec!["--mode".into(), "stress".into()]);
                }
            }
        }
        let mut overlapping = 0u64;
        for i in 0..stamps.len() {
            for j in i + 1..stamps.len() {
                if stamps[i].0 < stamps[j].1 && stamps[j].0 < stamps[i].1 {
                    overlapping += 1;
                }
            }
        }
        report.count("overlapping_thread_pairs", overlapping);
        let total: usize = streams.iter().map(|s| s.len()).sum();
        match model {
            SourceModel::PerThread => {
                for (tid, s) in streams.iter().enumerate() {
                    report.inc("streams_checked");
                    if s.len() > s0.len() {
                        report.inconclusive("reference stream too short");
                        continue;
                    }
                    if let Some(pos) = (0..s.len()).find(|&i| s[i] != s0[i]) {
                        report.violation(
                            "priority_stream_not_sequential:per_thread",
                            Json::obj()
                                .set("what", "a thread's priority stream differs from the stream a sequential execution produces")
                                .set("thread", tid)
                                .set("round", round)
                                .set("first_differing_draw", pos)
                                .set("got", s[pos])
                                .set("want", s0[pos]),
                            vec!["--mode".into(), "stress".into()],
                        );
                    }
                }
            }
            SourceModel::Global => {
                report.inc("streams_checked");
                if consumed_global + total > r.len() {
                    report.inconclusive("reference stream too short");
                    continue;
                }
                let seg = &r[consumed_global..consumed_global + total];
                // (1) multiset equality: a lost update shows as a duplicated draw and a missing one
                let mut want: Vec<u32> = seg.to_vec();
                let mut got: Vec<u32> = streams.iter().flatten().cloned().collect();
                want.sort_unstable();
                got.sort_unstable();
                let mut dup_or_lost = 0u64;
                if want != got {
                    // count draws of the segment that are missing from the union
                    let (mut i, mut j) = (0, 0);
                    while i < want.len() && j < got.len() {
                        if want[i] == got[j] {
                            i += 1;
                            j += 1;
                        } else if want[i] < got[j] {
                            dup_or_lost += 1;
                            i += 1;
                        } else {
                            j += 1;
                        }
                    }
                    dup_or_lost += (want.len() - i) as u64;
                }
                // (2) each thread's draws appear in R's order (greedy subsequence match)
                let mut backwards = 0u64;
                for s in &streams {
                    let mut p = 0usize;
                    for &x in s {
                        while p < seg.len() && seg[p] != x {
                            p += 1;
                        }
                        if p == seg.len() {
                            backwards += 1;
                            break;
                        }
                        p += 1;
                    }
                }
                if dup_or_lost > 0 || backwards > 0 {
                    report.violation(
                        "priority_draws_lost_or_duplicated:global",
                        Json::obj()
                            .set("what", "under contention the threads' priority draws are not a partition of the sequential stream: draws were lost / duplicated, or a thread's stream is not in stream order")
                            .set("round", round)
                            .set("threads", threads)
                            .set("draws", total)
                            .set("positions_of_the_sequential_stream_never_observed", dup_or_lost)
                            .set("threads_whose_stream_is_not_in_order", backwards),
                        vec!["--mode".into(), "stress".into()],
                    );
                }
                consumed_global += total;
            }
            SourceModel::PerThreadSeeded => {
                // the threads of this round took the next `threads` generators in some order: every observed stream must
                // be the sequential stream of exactly one of them
                report.inc("streams_checked");
                let lo = next_generator;
                let hi = next_generator + streams.len();
                next_generator = hi;
                if hi > ref_threads + 1 {
                    report.inconclusive("reference file holds too few sequential streams");
                    continue;
                }
                let mut used = vec![false; hi - lo];
                for (tid, s) in streams.iter().enumerate() {
                    if s.len() > ref_len {
                        report.inconclusive("reference stream too short");
                        continue;
                    }
                    let hit = (lo..hi).find(|&j| !used[j - lo] && stream(j)[..s.len()] == s[..]);
                    match hit {
                        Some(j) => used[j - lo] = true,
                        None => {
                            // which generator does it start like?
                            let like = (0..=ref_threads).find(|&j| !s.is_empty() && stream(j)[0] == s[0]);
                            let first_diff = like.map(|j| (0..s.len()).find(|&i| stream(j)[i] != s[i]));
                            report.violation(
                                "priority_stream_not_sequential:per_thread_seeded",
                                Json::obj()
                                    .set("what", "a thread's priority stream is not the stream any sequential execution gives to one of this round's generators (or two threads observed the same generator)")
                                    .set("thread", tid)
                                    .set("round", round)
                                    .set("starts_like_generator", like.map(|x| x as u64))
                                    .set("first_differing_draw", first_diff.flatten().map(|x| x as u64)),
                                vec!["--mode".into(), "stress".into()],
                            );
                        }
                    }
                }
            }
            SourceModel::Unknown => {
                // the priority source matches neither calibrated model (or the reference stream is not reproducible):
                // the stream sub-check is not applicable, the verdict rests on the race detectors and on the treap results
                report.inc("streams_unjudged_model_unknown");
                report.extra("history_subcheck", "not applicable: the priority source matches neither the per-thread nor the process-global sequential model");
            }
        }
    }
    // ---- a long-lived thread among many short-lived ones: the main thread keeps creating nodes while more than 64 other
    // threads come and go; for the per-thread models its stream must simply continue the sequential stream 0
    let mut short_lived_total = 0usize;
    if matches!(model, SourceModel::PerThread | SourceModel::PerThreadSeeded) {
        let mut pos = 2 * k; // the calibration consumed 2k draws of stream 0
        let mut ok = true;
        let mut short_lived = 0u64;
        'outer: for batch in 0..12 {
            let hs: Vec<_> = (0..8).map(|_| std::thread::spawn(|| draw_main(3))).collect();
            for h in hs {
                let _ = h.join();
                short_lived += 1;
            }
            let mine = draw_main(40);
            if pos + mine.len() > s0.len() {
                break;
            }
            if mine[..] != s0[pos..pos + mine.len()] {
                ok = false;
                let first = (0..mine.len()).find(|&i| mine[i] != s0[pos + i]).unwrap_or(0);
                report.violation(
                    "priority_stream_not_sequential:long_lived_thread",
                    Json::obj()
                        .set("what", "a long-lived thread's priority stream stops being the sequential stream after other threads came and went")
                        .set("short_lived_threads_so_far", short_lived)
                        .set("batch", batch)
                        .set("draw_index_in_its_stream", pos + first),
                    vec!["--mode".into(), "stress".into()],
                );
                break 'outer;
            }
            pos += mine.len();
        }
        report.count("short_lived_threads_next_to_a_long_lived_one", short_lived);
        short_lived_total = short_lived as usize;
        let _ = ok;
    }

    // ---- coincidences between two threads' streams (needs the next two sequential streams)
    match model {
        SourceModel::PerThread => coincidence_phase(report, s0, s0),
        SourceModel::PerThreadSeeded => {
            // the short-lived threads of the phase above took one generator each
            let lo = next_generator + short_lived_total;
            if lo + 2 <= ref_threads + 1 {
                coincidence_phase(report, stream(lo), stream(lo + 1));
            } else {
                report.inconclusive("reference file holds too few sequential streams for the coincidence phase");
            }
        }
        _ => {
            report.extra("coincidence_subcheck", "not applicable to this priority source model");
        }
    }

    // ---- node creation in thread-local destructors (two more generators)
    {
        let coincidence_used = if matches!(model, SourceModel::PerThreadSeeded) { 2 } else { 0 };
        let lo = next_generator + short_lived_total + coincidence_used;
        match teardown_phase(2, 50, 40) {
            None => report.inconclusive("teardown phase: a thread failed or its destructor did not report"),
            Some(streams) => {
                report.count("teardown_threads", streams.len() as u64);
                match model {
                    SourceModel::PerThread => {
                        for (tid, s) in streams.iter().enumerate() {
                            if s.len() <= s0.len() && s[..] != s0[..s.len()] {
                                let pos = (0..s.len()).find(|&i| s[i] != s0[i]).unwrap_or(0);
                                report.violation(
                                    "priority_stream_not_sequential:thread_teardown",
                                    Json::obj().set("what", "a thread's priority stream, including the nodes it creates in a thread-local destructor, is not its sequential stream").set("thread", tid).set("first_differing_draw", pos).set("draws_before_teardown", 50),
                                    vec!["--mode".into(), "stress".into()],
                                );
                            }
                        }
                    }
                    SourceModel::PerThreadSeeded => {
                        if lo + 2 > ref_threads + 1 {
                            report.inconclusive("reference file holds too few sequential streams for the teardown phase");
                        } else {
                            let mut used = [false; 2];
                            for (tid, s) in streams.iter().enumerate() {
                                let hit = (0..2).find(|&j| !used[j] && s.len() <= ref_len && stream(lo + j)[..s.len()] == s[..]);
                                match hit {
                                    Some(j) => used[j] = true,
                                    None => {
                                        let like = (0..2).find(|&j| !s.is_empty() && stream(lo + j)[0] == s[0]);
                                        let pos = like.and_then(|j| (0..s.len()).find(|&i| stream(lo + j)[i] != s[i]));
                                        report.violation(
                                            "priority_stream_not_sequential:thread_teardown",
                                            Json::obj()
                                                .set("what", "a thread's priority stream, including the nodes it creates in a thread-local destructor, is not the sequential stream of one generator")
                                                .set("thread", tid)
                                                .set("first_differing_draw", pos.map(|x| x as u64))
                                                .set("draws_before_teardown", 50),
                                            vec!["--mode".into(), "stress".into()],
                                        );
                                    }
                                }
                            }
                        }
                    }
                    _ => {
                        report.extra("teardown_subcheck", "not applicable to this priority source model");
                    }
                }
            }
        }
    }

    // ---- very deep treaps on many threads at once
    deep_phase(report, a.thorough());

    // ---- first use in fresh processes
    firstuse_phase(report, model, a.thorough());
    rounds_phase(report, model, a.thorough());

    // ---- shapes under caller-assigned priorities: several threads run the same fixed-priority scenario at once; every
    // one of them must get exactly the shapes of the run alone (computed on this thread before any of them started)
    {
        let fixed_steps = 30_000usize;
        let alone = Arc::new(fixed_priority_scenario(fixed_steps));
        for rep_i in 0..3 {
            let barrier = Arc::new(Barrier::new(6));
            let hs: Vec<_> = (0..6)
                .map(|_| {
                    let alone = alone.clone();
                    let b = barrier.clone();
                    std::thread::spawn(move || {
                        b.wait();
                        let got = fixed_priority_scenario(fixed_steps);
                        (0..got.len().min(alone.len())).find(|&i| got[i] != alone[i]).or(if got.len() != alone.len() { Some(0) } else { None })
                    })
                })
                .collect();
            for (tid, h) in hs.into_iter().enumerate() {
                report.inc("fixed_priority_scenarios_compared");
                match h.join() {
                    Ok(None) => {}
                    Ok(Some(step)) => {
                        report.violation(
                            "treap_shapes_differ_under_concurrency",
                            Json::obj()
                                .set("what", "with caller-assigned (mostly equal) priorities a thread's treap shapes - root after every step, final pre-order - differ from the same operations run alone")
                                .set("thread", tid)
                                .set("repetition", rep_i)
                                .set("first_differing_step", step),
                            vec!["--mode".into(), "stress".into()],
                        );
                    }
                    Err(_) => report.violation("worker_panicked", Json::obj().set("phase", "fixed priorities"), vec!["--mode".into(), "stress".into()]),
                }
            }
        }
    }

    report.extra("workers", threads);
    report.extra("creations_per_thread", per_thread);
}

// ------------------------------------------------------------------------------------------------
// first use: whatever a thread does the first time it needs a priority (seeding its generator, registering itself)
// happens once per thread and, for the very first threads, once per process. A child process whose main thread never
// creates a node releases T threads from a spin barrier straight into their first node creation; the parent repeats
// that in many fresh processes and compares every run with the same program run sequentially (threads one after
// another): the streams handed out must be the same ones.

/// thread names of the workers: 0 = unnamed, 1 = every worker is called "main", 2 = a mixture (two share a name)
fn worker_builder(names: usize, k: usize) -> std::thread::Builder {
    let b = std::thread::Builder::new();
    match names {
        1 => b.name("main".to_string()),
        2 => match k % 4 {
            0 => b.name("main".to_string()),
            1 => b.name("worker".to_string()),
            2 => b.name("worker".to_string()),
            _ => b,
        },
        _ => b,
    }
}

fn mode_firstuse_child(threads: usize, draws: usize, sequential: bool, names: usize) {
    let mut out: Vec<Vec<u32>> = Vec::new();
    if sequential {
        for k in 0..threads {
            out.push(worker_builder(names, k).spawn(move || draw_main(draws)).expect("spawn").join().expect("child thread"));
        }
    } else {
        let arrived = Arc::new(AtomicU64::new(0));
        let hs: Vec<_> = (0..threads)
            .map(|k| {
                let arrived = arrived.clone();
                worker_builder(names, k)
                    .spawn(move || {
                        arrived.fetch_add(1, Ordering::SeqCst);
                        let mut spins = 0u32;
                        while arrived.load(Ordering::SeqCst) < threads as u64 {
                            std::hint::spin_loop();
                            spins += 1;
                            if spins % 4096 == 0 {
                                // (on a single CPU the others have to get their turn)
                                std::thread::yield_now();
                            }
                        }
                        draw_main(draws)
                    })
                    .expect("spawn")
            })
            .collect();
        for h in hs {
            out.push(h.join().expect("child thread"));
        }
    }
    for s in out {
        let line: Vec<String> = s.iter().map(|x| x.to_string()).collect();
        println!("STREAM {}", line.join(" "));
    }
}

/// many rounds in ONE process: every round releases `group` fresh threads from a spin barrier into their first node
/// creation (the hand-out of per-thread state is exercised under contention hundreds of times, not once per process)
fn mode_rounds_child(rounds: usize, group: usize, draws: usize, sequential: bool) {
    let mut out: Vec<Vec<u32>> = Vec::new();
    for _ in 0..rounds {
        if sequential {
            for _ in 0..group {
                out.push(std::thread::spawn(move || draw_main(draws)).join().expect("child thread"));
            }
        } else {
            let arrived = Arc::new(AtomicU64::new(0));
            let hs: Vec<_> = (0..group)
                .map(|_| {
                    let arrived = arrived.clone();
                    std::thread::spawn(move || {
                        arrived.fetch_add(1, Ordering::SeqCst);
                        while arrived.load(Ordering::SeqCst) < group as u64 {
                            std::hint::spin_loop();
                        }
                        draw_main(draws)
                    })
                })
                .collect();
            for h in hs {
                out.push(h.join().expect("child thread"));
            }
        }
    }
    for s in out {
        let line: Vec<String> = s.iter().map(|x| x.to_string()).collect();
        println!("STREAM {}", line.join(" "));
    }
}

/// the binary the child processes run: `--child-exe <path>` (the unoptimised build) or this binary
fn child_exe() -> Option<std::path::PathBuf> {
    let args: Vec<String> = std::env::args().collect();
    match args.iter().position(|a| a == "--child-exe").and_then(|i| args.get(i + 1)) {
        Some(p) => Some(std::path::PathBuf::from(p)),
        None => std::env::current_exe().ok(),
    }
}

fn run_rounds_child(rounds: usize, group: usize, draws: usize, sequential: bool) -> Option<Vec<Vec<u32>>> {
    let exe = child_exe()?;
    let mut cmd = std::process::Command::new(exe);
    cmd.arg("--mode").arg("rounds-child").arg("--rounds").arg(rounds.to_string()).arg("--workers").arg(group.to_string()).arg("--draws").arg(draws.to_string());
    if sequential {
        cmd.arg("--sequential").arg("yes");
    }
    let o = cmd.output().ok()?;
    if !o.status.success() {
        return None;
    }
    let text = String::from_utf8_lossy(&o.stdout);
    let v: Vec<Vec<u32>> = text
        .lines()
        .filter_map(|l| l.strip_prefix("STREAM "))
        .map(|rest| rest.split(' ').filter(|x| !x.is_empty()).map(|x| x.parse::<u32>().unwrap_or(0)).collect())
        .collect();
    if v.len() == rounds * group {
        Some(v)
    } else {
        None
    }
}

fn rounds_phase(report: &mut Report, model: SourceModel, thorough: bool) {
    let (rounds, group, draws) = (if thorough { 1500 } else { 400 }, 16usize, 3usize);
    if model == SourceModel::Unknown {
        report.extra("simultaneous_rounds_subcheck", "not applicable: unknown priority source model");
        return;
    }
    let seq = match run_rounds_child(rounds, group, draws, true) {
        Some(s) => s,
        None => {
            report.inconclusive("simultaneous-rounds child process (sequential) failed");
            return;
        }
    };
    for attempt in 0..2 {
        let got = match run_rounds_child(rounds, group, draws, false) {
            Some(g) => g,
            None => {
                report.inconclusive("simultaneous-rounds child process failed");
                return;
            }
        };
        report.count("simultaneous_first_creation_rounds", rounds as u64);
        let ok = match model {
            SourceModel::Global => {
                let (mut a, mut b): (Vec<u32>, Vec<u32>) = (got.iter().flatten().cloned().collect(), seq.iter().flatten().cloned().collect());
                a.sort_unstable();
                b.sort_unstable();
                a == b
            }
            _ => {
                let (mut a, mut b) = (got.clone(), seq.clone());
                a.sort();
                b.sort();
                a == b
            }
        };
        if !ok {
            // which streams were handed out twice?
            let mut sorted = got.clone();
            sorted.sort();
            let dup: Vec<&Vec<u32>> = sorted.windows(2).filter(|w| w[0] == w[1]).map(|w| &w[0]).take(3).collect();
            report.violation(
                "priority_stream_not_sequential:simultaneous_first_creations",
                Json::obj()
                    .set("what", "groups of 16 fresh threads released together into their first node creation (many rounds in one process) did not receive the streams the same program receives when the threads run one after another")
                    .set("rounds", rounds)
                    .set("attempt", attempt)
                    .set("streams_handed_out_twice", Json::Arr(dup.iter().map(|s| Json::from(s.iter().map(|&x| x as u64).collect::<Vec<u64>>())).collect())),
                vec!["--mode".into(), "stress".into()],
            );
            return;
        }
    }
}

/// `one_cpu`: the child is confined to a single CPU (taskset), so its threads never run in parallel, only interleaved
fn run_firstuse_child_env(threads: usize, draws: usize, sequential: bool, names: usize, one_cpu: bool) -> Option<Vec<Vec<u32>>> {
    let exe = child_exe()?;
    let mut cmd = if one_cpu {
        let mut c = std::process::Command::new("taskset");
        c.arg("-c").arg("0").arg(exe);
        c
    } else {
        std::process::Command::new(exe)
    };
    cmd.arg("--mode").arg("firstuse-child").arg("--workers").arg(threads.to_string()).arg("--draws").arg(draws.to_string()).arg("--names").arg(names.to_string());
    if sequential {
        cmd.arg("--sequential").arg("yes");
    }
    let o = cmd.output().ok()?;
    if !o.status.success() {
        return None;
    }
    let text = String::from_utf8_lossy(&o.stdout);
    let mut v = Vec::new();
    for l in text.lines() {
        if let Some(rest) = l.strip_prefix("STREAM ") {
            v.push(rest.split(' ').filter(|x| !x.is_empty()).map(|x| x.parse::<u32>().unwrap_or(0)).collect::<Vec<u32>>());
        }
    }
    if v.len() == threads {
        Some(v)
    } else {
        None
    }
}

fn firstuse_phase(report: &mut Report, model: SourceModel, thorough: bool) {
    // four starters (three child processes at a time) and sixteen starters (one process at a time: a contention fall-back
    // path needs many threads in the same instant)
    firstuse_variant(report, model, 4, 3, if thorough { 1500 } else { 240 }, 0, false);
    firstuse_variant(report, model, 16, 1, if thorough { 600 } else { 120 }, 0, false);
    // the environment of the threads: every worker named "main", a mixture of names, and the whole child confined to one
    // CPU (the reference is the same program run sequentially and unconfined)
    firstuse_variant(report, model, 4, 3, if thorough { 300 } else { 60 }, 1, false);
    firstuse_variant(report, model, 5, 3, if thorough { 300 } else { 60 }, 2, false);
    if std::process::Command::new("taskset").arg("-c").arg("0").arg("true").status().map(|s| s.success()).unwrap_or(false) {
        firstuse_variant(report, model, 4, 2, if thorough { 200 } else { 40 }, 0, true);
        report.inc("first_use_variants_confined_to_one_cpu");
    } else {
        report.extra("first_use_one_cpu_subcheck", "not run: taskset is not available");
    }
}

fn firstuse_variant(report: &mut Report, model: SourceModel, threads: usize, parallel: usize, runs: usize, names: usize, one_cpu: bool) {
    let draws = 4usize;
    let seq = match (run_firstuse_child_env(threads, draws, true, names, false), run_firstuse_child_env(threads, draws, true, names, false)) {
        (Some(a), Some(b)) if a == b => a,
        (Some(_), Some(_)) => {
            report.extra("first_use_subcheck", "not applicable: the sequential child process is not reproducible");
            return;
        }
        _ => {
            report.inconclusive("first-use child process (sequential) failed");
            return;
        }
    };
    if model == SourceModel::Unknown {
        report.extra("first_use_subcheck", "not applicable: unknown priority source model");
        return;
    }
    let mut want_streams = seq.clone();
    want_streams.sort();
    let mut want_all: Vec<u32> = seq.iter().flatten().cloned().collect();
    want_all.sort_unstable();
    let results: std::sync::Mutex<Vec<Option<Vec<Vec<u32>>>>> = std::sync::Mutex::new(Vec::new());
    let next = AtomicU64::new(0);
    std::thread::scope(|sc| {
        // a few children at a time: the threads of one child must really run in parallel
        for _ in 0..parallel {
            sc.spawn(|| {
                while next.fetch_add(1, Ordering::Relaxed) < runs as u64 {
                    let r = run_firstuse_child_env(threads, draws, false, names, one_cpu);
                    results.lock().unwrap().push(r);
                }
            });
        }
    });
    let results = results.into_inner().unwrap();
    let mut failed = 0u64;
    let mut distinct_orders = std::collections::HashSet::new();
    for r in results {
        let got = match r {
            Some(g) => g,
            None => {
                failed += 1;
                continue;
            }
        };
        report.inc("first_use_processes");
        distinct_orders.insert(got.iter().map(|s| s.first().cloned().unwrap_or(0)).collect::<Vec<u32>>());
        let ok = match model {
            SourceModel::Global => {
                let mut all: Vec<u32> = got.iter().flatten().cloned().collect();
                all.sort_unstable();
                all == want_all
            }
            _ => {
                let mut g = got.clone();
                g.sort();
                g == want_streams
            }
        };
        if !ok {
            report.violation(
                "priority_stream_not_sequential:first_use",
                Json::obj()
                    .set("what", "threads released together into their first node creation in a fresh process did not receive the priority streams the same program receives when its threads run one after another (a stream was handed out twice, or lost)")
                    .set("threads", threads)
                    .set("worker_names", ["unnamed", "every worker named main", "mixed names"][names.min(2)])
                    .set("child_confined_to_one_cpu", one_cpu)
                    .set("streams_seen", Json::Arr(got.iter().map(|s| Json::from(s.iter().map(|&x| x as u64).collect::<Vec<u64>>())).collect()))
                    .set("streams_of_the_sequential_run", Json::Arr(seq.iter().map(|s| Json::from(s.iter().map(|&x| x as u64).collect::<Vec<u64>>())).collect())),
                vec!["--mode".into(), "stress".into()],
            );
            break;
        }
    }
    report.count("first_use_distinct_stream_assignments", distinct_orders.len() as u64);
    if failed > runs as u64 / 10 {
        report.inconclusive(format!("{} of {} first-use child processes failed", failed, runs));
    }
}

// ------------------------------------------------------------------------------------------------
// coincidences: two threads A and B with their own generators; the reference streams tell at which positions (i, j) A's
// i-th and B's j-th priority are the same 32-bit value. The schedule makes A draw exactly that value immediately before
// B is due to draw it (no other thread creates a node in between): an implementation in which threads interfere only
// when values coincide (a process-wide "last value" filter, a cache keyed by value) is silent in every random schedule
// and shows here.

fn coincidence_phase(report: &mut Report, sa: &[u32], sb: &[u32]) {
    use std::collections::HashMap;
    use std::sync::mpsc;
    let mut first_pos: HashMap<u32, usize> = HashMap::with_capacity(sa.len());
    for (i, &v) in sa.iter().enumerate().skip(1) {
        first_pos.entry(v).or_insert(i);
    }
    let mut pairs: Vec<(usize, usize)> = Vec::new();
    for (j, &v) in sb.iter().enumerate().skip(1) {
        if let Some(&i) = first_pos.get(&v) {
            pairs.push((i, j));
        }
    }
    pairs.sort();
    // the longest chain increasing in both coordinates (quadratic longest-increasing-subsequence over at most 4000 pairs),
    // cut to 64 links
    pairs.dedup_by_key(|p| p.0);
    if pairs.len() > 4000 {
        let step = pairs.len() / 4000 + 1;
        pairs = pairs.into_iter().step_by(step).collect();
    }
    let mut best: Vec<usize> = vec![1; pairs.len()];
    let mut prev: Vec<usize> = vec![usize::MAX; pairs.len()];
    for x in 0..pairs.len() {
        for y in 0..x {
            if pairs[y].0 < pairs[x].0 && pairs[y].1 < pairs[x].1 && best[y] + 1 > best[x] {
                best[x] = best[y] + 1;
                prev[x] = y;
            }
        }
    }
    let mut chain: Vec<(usize, usize)> = Vec::new();
    if let Some(mut x) = (0..pairs.len()).max_by_key(|&x| best[x]) {
        loop {
            chain.push(pairs[x]);
            if prev[x] == usize::MAX {
                break;
            }
            x = prev[x];
        }
        chain.reverse();
    }
    if chain.len() > 64 {
        let step = chain.len() / 64 + 1;
        chain = chain.into_iter().step_by(step).collect();
    }
    report.count("coincident_positions_found", pairs.len() as u64);
    if chain.is_empty() {
        report.extra("coincidence_subcheck", "no equal values in the two reference streams (streams too short)");
        return;
    }
    // worker threads: receive a number of draws, answer with the priorities
    let spawn_worker = || {
        let (tx_cmd, rx_cmd) = mpsc::channel::<usize>();
        let (tx_res, rx_res) = mpsc::channel::<Vec<u32>>();
        let h = std::thread::spawn(move || {
            while let Ok(n) = rx_cmd.recv() {
                if tx_res.send(draw_main(n)).is_err() {
                    break;
                }
            }
        });
        (tx_cmd, rx_res, h)
    };
    let (a_cmd, a_res, ah) = spawn_worker();
    let (b_cmd, b_res, bh) = spawn_worker();
    let mut got_a: Vec<u32> = Vec::new();
    let mut got_b: Vec<u32> = Vec::new();
    let draw = |who: u8, n: usize, got_a: &mut Vec<u32>, got_b: &mut Vec<u32>| -> bool {
        if n == 0 {
            return true;
        }
        let (cmd, res, got) = if who == 0 { (&a_cmd, &a_res, got_a) } else { (&b_cmd, &b_res, got_b) };
        if cmd.send(n).is_err() {
            return false;
        }
        match res.recv() {
            Ok(v) => {
                got.extend(v);
                true
            }
            Err(_) => false,
        }
    };
    // generator assignment order: A first, then B
    let mut alive = draw(0, 1, &mut got_a, &mut got_b) && draw(1, 1, &mut got_a, &mut got_b);
    let mut links = 0u64;
    for &(i, j) in &chain {
        if !alive {
            break;
        }
        // B up to (excluding) j, then A up to (including) i, then B draws its j-th
        alive = alive && draw(1, j - got_b.len().min(j), &mut got_a, &mut got_b);
        alive = alive && draw(0, (i + 1).saturating_sub(got_a.len()), &mut got_a, &mut got_b);
        alive = alive && draw(1, 1, &mut got_a, &mut got_b);
        links += 1;
    }
    if alive {
        let _ = draw(1, 8, &mut got_a, &mut got_b);
        let _ = draw(0, 8, &mut got_a, &mut got_b);
    }
    drop(a_cmd);
    drop(b_cmd);
    let _ = ah.join();
    let _ = bh.join();
    report.count("coincidence_links_driven", links);
    if !alive {
        report.violation("worker_panicked", Json::obj().set("phase", "coincidences"), vec!["--mode".into(), "stress".into()]);
        return;
    }
    for (name, got, want) in [("A", &got_a, sa), ("B", &got_b, sb)] {
        let n = got.len().min(want.len());
        if let Some(pos) = (0..n).find(|&k| got[k] != want[k]) {
            report.violation(
                "priority_stream_not_sequential:coincidence",
                Json::obj()
                    .set("what", "a thread's priority stream differs from its sequential stream at a point where another thread had just been handed the very same 32-bit value")
                    .set("thread", name)
                    .set("first_differing_draw", pos)
                    .set("got", got[pos])
                    .set("want", want[pos])
                    .set("coincidence_chain", Json::Arr(chain.iter().take(12).map(|&(i, j)| Json::from(vec![i as u64, j as u64])).collect())),
                vec!["--mode".into(), "stress".into()],
            );
            return;
        }
    }
}

// ------------------------------------------------------------------------------------------------
// node creation during thread teardown: a destructor of the caller's own thread-local (registered before the thread's
// first node creation, so it runs after everything registered later) creates nodes. They are draws of that thread like
// any other: the thread's whole stream, teardown included, must be one sequential stream.

struct Teardown {
    more: usize,
    sink: Arc<std::sync::Mutex<Vec<(u64, Vec<u32>)>>>,
    tid: u64,
}
impl Drop for Teardown {
    fn drop(&mut self) {
        let v = draw_main(self.more);
        if let Ok(mut s) = self.sink.lock() {
            s.push((self.tid, v));
        }
    }
}
thread_local! {
    static TEARDOWN: std::cell::RefCell<Option<Teardown>> = std::cell::RefCell::new(None);
}

/// returns per thread the stream drawn while running followed by the stream drawn in the destructor
fn teardown_phase(threads: usize, during: usize, after: usize) -> Option<Vec<Vec<u32>>> {
    let sink: Arc<std::sync::Mutex<Vec<(u64, Vec<u32>)>>> = Arc::new(std::sync::Mutex::new(Vec::new()));
    let barrier = Arc::new(Barrier::new(threads));
    let hs: Vec<_> = (0..threads as u64)
        .map(|tid| {
            let sink = sink.clone();
            let barrier = barrier.clone();
            std::thread::spawn(move || {
                // first touch of the caller's thread-local: before any node exists on this thread
                TEARDOWN.with(|t| *t.borrow_mut() = None);
                barrier.wait();
                let v = draw_main(during);
                TEARDOWN.with(|t| *t.borrow_mut() = Some(Teardown { more: after, sink, tid }));
                (tid, v)
            })
        })
        .collect();
    let mut firsts: Vec<(u64, Vec<u32>)> = Vec::new();
    for h in hs {
        firsts.push(h.join().ok()?);
    }
    let late = sink.lock().ok()?.clone();
    let mut out = Vec::new();
    for (tid, mut v) in firsts {
        let l = late.iter().find(|x| x.0 == tid)?;
        v.extend(l.1.iter().cloned());
        out.push(v);
    }
    Some(out)
}

// ------------------------------------------------------------------------------------------------
// very deep treaps operated on by several threads at the same moment: each thread owns a path-shaped treap of
// 90 000 nodes (priorities assigned through the public field) and splits / merges it over and over; the recursion of
// every thread is tens of thousands of frames deep at once. Every thread must get what it gets alone.

fn deep_chain(d: usize, top_is_larger: bool) -> Treap<KeyItem> {
    let mut cur: Option<Box<TreapNode<KeyItem>>> = None;
    for k in (0..d).rev() {
        let mut node = Box::new(TreapNode::new(item(k as u64)));
        node.priority = if top_is_larger { 4_000_000_000 - k as u32 } else { 1000 + k as u32 };
        node.right = cur.take();
        node.item.size = d - k;
        cur = Some(node);
    }
    let mut t: Treap<KeyItem> = Treap::new();
    t.root = cur;
    t
}

fn deep_work(d: usize, rounds: usize, top_is_larger: bool) -> bool {
    let mut t = deep_chain(d, top_is_larger);
    let mut x = 12345u64;
    for round in 0..rounds {
        let pos = d / 2 + (lcg(&mut x) % (d as u64 / 3)) as usize;
        let (l, r) = t.split_at(pos);
        if l.size() != pos || r.size() != d - pos {
            std::mem::forget(l);
            std::mem::forget(r);
            return false;
        }
        t = Treap::merge(l, r);
        if t.size() != d {
            std::mem::forget(t);
            return false;
        }
        if round % 4 == 0 {
            // an in-order walk over the whole chain while the other threads walk / split / merge theirs
            let keys = t.collect();
            if keys.len() != d || !keys.iter().enumerate().all(|(i, k)| k.key == i as u64) {
                std::mem::forget(t);
                return false;
            }
        }
    }
    let ok = {
        let keys = t.collect();
        keys.len() == d && keys.iter().enumerate().all(|(i, k)| k.key == i as u64)
    };
    // unlink iteratively: dropping a 90 000-deep chain recursively is the library's business only up to its own Drop,
    // which is the derived recursive one - on this thread's large stack that is fine
    drop(t);
    ok
}

fn deep_phase(report: &mut Report, thorough: bool) {
    let d = 90_000usize;
    let threads = 12usize;
    let rounds = if thorough { 400 } else { 120 };
    let top_is_larger = {
        let mut a = Treap::from_item(item(0));
        let mut b = Treap::from_item(item(1));
        a.root.as_mut().unwrap().priority = 1;
        b.root.as_mut().unwrap().priority = 2;
        let t = Treap::merge(a, b);
        t.root.as_ref().map(|r| r.priority == 2).unwrap_or(true)
    };
    let spawn = |n: usize| -> Vec<std::thread::JoinHandle<bool>> {
        let barrier = Arc::new(Barrier::new(n));
        (0..n)
            .map(|_| {
                let b = barrier.clone();
                std::thread::Builder::new()
                    .stack_size(1 << 30)
                    .spawn(move || {
                        b.wait();
                        deep_work(d, rounds, top_is_larger)
                    })
                    .expect("spawn")
            })
            .collect()
    };
    // alone first: if that already fails, depth as such is the problem (not this property's subject)
    let alone = spawn(1).into_iter().map(|h| h.join()).collect::<Vec<_>>();
    if !matches!(alone[0], Ok(true)) {
        report.extra("deep_concurrent_subcheck", "not applicable: a single thread cannot run the deep workload alone");
        return;
    }
    for (tid, r) in spawn(threads).into_iter().map(|h| h.join()).enumerate() {
        report.inc("deep_concurrent_threads");
        match r {
            Ok(true) => {}
            Ok(false) => {
                report.violation(
                    "treap_results_differ_under_concurrency:deep",
                    Json::obj().set("what", "a thread splitting and merging its own 90 000-deep treap got sizes / contents that differ from the run alone").set("thread", tid).set("threads", threads),
                    vec!["--mode".into(), "stress".into()],
                );
            }
            Err(_) => {
                report.violation(
                    "worker_panicked:deep",
                    Json::obj()
                        .set("what", "a thread splitting and merging its own 90 000-deep treap panicked while other threads did the same; alone the same work succeeds")
                        .set("thread", tid)
                        .set("threads", threads),
                    vec!["--mode".into(), "stress".into()],
                );
            }
        }
    }
    report.count("deep_concurrent_rounds", (threads * rounds) as u64);
}

fn main() {
    let args: Vec<String> = std::env::args().collect();
    let get = |k: &str, d: &str| -> String {
        args.iter().position(|a| a == k).and_then(|i| args.get(i + 1)).cloned().unwrap_or_else(|| d.to_string())
    };
    let mode = get("--mode", "sanitizer");
    match mode.as_str() {
        "sanitizer" => {
            let t: usize = get("--workers", "3").parse().unwrap();
            let c: usize = get("--creations", "40").parse().unwrap();
            std::process::exit(mode_sanitizer(t, c));
        }
        "reference" => {
            mode_reference(get("--draws", "1000").parse().unwrap(), &get("--ref-out", "reference.bin"));
        }
        "reference-seq" => {
            mode_reference_seq(get("--ref-threads", "4").parse().unwrap(), get("--draws", "1000").parse().unwrap(), &get("--ref-out", "reference.bin"));
        }
        "rounds-child" => {
            mode_rounds_child(get("--rounds", "10").parse().unwrap(), get("--workers", "16").parse().unwrap(), get("--draws", "3").parse().unwrap(), get("--sequential", "no") == "yes");
        }
        "firstuse-child" => {
            mode_firstuse_child(get("--workers", "4").parse().unwrap(), get("--draws", "4").parse().unwrap(), get("--sequential", "no") == "yes", get("--names", "0").parse().unwrap());
        }
        "stress" => {
            let eng = Engine::start("racemon");
            let mut report = Report::new();
            report.extra("mode", "stress");
            mode_stress(&eng, &mut report);
            eng.finish(report);
        }
        m => panic!("unknown mode {}", m),
    }
}
